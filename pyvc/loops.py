"""Unbounded loops: abstract sequences and the cut-point rule.

A loop over an abstract sequence (unknown length) is verified with a harness-supplied
contract in three path families, selected by a case split at the loop head:

  init : the state reached from the function entry satisfies the invariant
  step : from an arbitrary state satisfying the invariant, one arbitrary iteration of the
         *real* loop body re-establishes it (exceptions / return / break leave the loop and
         are checked against the function's contract like any other path)
  exit : from an arbitrary state satisfying the invariant with the sequence exhausted, the
         rest of the function establishes the postcondition

This is induction over the number of iterations; nothing is unrolled.  `functools.reduce`
over an abstract sequence is handled by the same rule (the accumulator is the only
loop-carried variable).
"""
from __future__ import annotations

import ast

from .interp import _Break, _Continue, _walk_same_scope
from .sym import EngineError


class AbsSeq:
    """A finite sequence of unknown length.  `view` records how the code has re-ordered it."""

    __pyvc_abstract__ = True
    __pyvc_absseq__ = True

    def __init__(self, name, view="forward", start=None):
        self.name = name
        self.view = view  # forward | reversed
        self.enum_start = start  # not None: enumerate() view

    def __pyvc_iter__(self, interp):
        raise EngineError(f"iteration over abstract sequence {self.name!r} outside a loop with a contract")

    def __pyvc_len__(self, interp):
        raise EngineError("len() of abstract sequence")

    def __pyvc_truth__(self, interp):
        raise EngineError("truth of abstract sequence")

    def __reversed__(self):
        return AbsSeq(self.name, "reversed" if self.view == "forward" else "forward", self.enum_start)

    def enumerate(self, start=0):
        return AbsSeq(self.name, self.view, start)

    def __repr__(self):
        return f"<AbsSeq {self.name} {self.view}{' enum' if self.enum_start is not None else ''}>"


class AbsList:
    """A list with an unknown (possibly empty) prefix and a concrete tail of appended items.

    `has_prefix` : True / False / SBool - whether the unknown prefix is non-empty
    `prefix_last`: the last element of the prefix (meaningful when has_prefix)
    """

    __pyvc_abstract__ = True

    def __init__(self, name, has_prefix, prefix_last, tail=None):
        self.name = name
        self.has_prefix = has_prefix
        self.prefix_last = prefix_last
        self.tail = list(tail or [])

    def __pyvc_truth__(self, interp):
        if self.tail:
            return True
        return interp.truth(self.has_prefix)

    def __pyvc_getitem__(self, interp, idx):
        if isinstance(idx, int) and idx < 0 and -idx <= len(self.tail):
            return self.tail[idx]
        if idx == -1 - len(self.tail) or (idx == -1 and not self.tail):
            if interp.truth(self.has_prefix):
                return self.prefix_last
            raise IndexError("list index out of range")
        raise EngineError(f"index {idx!r} into abstract list")

    def append(self, x):
        self.tail.append(x)

    def extend(self, xs):
        self.tail.extend(xs)

    def __pyvc_iter__(self, interp):
        raise EngineError(f"iteration over abstract list {self.name!r} outside a loop with a contract")

    def __pyvc_copy__(self):
        return AbsList(self.name, self.has_prefix, self.prefix_last, list(self.tail))


def loop_ordinal(fn_node, loop_node) -> int:
    loops = [n for n in _walk_same_scope_sorted(fn_node) if isinstance(n, (ast.For, ast.While))]
    return loops.index(loop_node)


def _walk_same_scope_sorted(fn_node):
    nodes = [n for n in _walk_same_scope(fn_node) if hasattr(n, "lineno")]
    nodes.sort(key=lambda n: (n.lineno, n.col_offset))
    return nodes


class LoopContract:
    """Override in the harness.  `env` is the interpreter's variable map of the running function."""

    def __init__(self, H):
        self.H = H

    def applies(self, it) -> bool:
        return isinstance(it, (AbsSeq, AbsList))

    def check_init(self, env, it):
        raise NotImplementedError

    def havoc(self, env, it):
        """assign arbitrary values satisfying the invariant to the loop-carried variables"""
        raise NotImplementedError

    def element(self, env, it):
        """the arbitrary next element (bound to the loop target)"""
        raise NotImplementedError

    def check_step(self, env, it, item):
        raise NotImplementedError

    def assume_exhausted(self, env, it):
        pass


def install(H):
    """Attach the cut-point hooks to a harness (symbolic mode)."""
    ctx = H.ctx
    ctx.loop_contracts = {}
    ctx.fold_contract = None
    from .vc import StopPath

    def hook(interp, node, it, env):
        fr = interp.frames[-1]
        if fr.closure is None:
            return None
        q = fr.closure.__qualname__
        key = (q, loop_ordinal(fr.closure.node, node))
        lc = ctx.loop_contracts.get(key)
        if lc is None or not lc.applies(it):
            # contracts registered by WHAT the loop iterates over (the parsed input, the list an earlier loop built ...) follow the loop
            # when a refactoring moves it into a helper function
            lc = next((c for c in getattr(ctx, "loop_contracts_any", ()) if c.applies(it)), None)
            if lc is None:
                return None

        def run():
            phase = ctx.case(f"loop[{q}#{key[1]}]", ("init", "step", "exit"))
            vars_ = env.vars
            if phase == "init":
                lc.check_init(vars_, it)
                raise StopPath()
            if phase == "step":
                lc.havoc(vars_, it)
                item = lc.element(vars_, it)
                interp.assign(node.target, item, env)
                try:
                    interp.exec_block(node.body, env)
                except _Continue:
                    pass
                except _Break:
                    return  # the function goes on after the loop with this state
                lc.check_step(vars_, it, item)
                raise StopPath()
            lc.havoc(vars_, it)
            lc.assume_exhausted(vars_, it)
            interp.exec_block(node.orelse, env)

        return run

    ctx.loop_hooks.append(hook)

    # `while` loops: the same rule.  The contract supplies check_init(vars), havoc(vars), check_step(vars) and optionally
    # at_exit(vars); the real test expression and the real body are executed, nothing is unrolled.
    ctx.while_contracts = {}

    def whook(interp, node, env):
        fr = interp.frames[-1]
        if fr.closure is None:
            return None
        q = fr.closure.__qualname__
        key = (q, loop_ordinal(fr.closure.node, node))
        wc = ctx.while_contracts.get(key)
        if wc is None:
            return None

        def run():
            phase = ctx.case(f"while[{q}#{key[1]}]", ("init", "step", "exit"))
            vars_ = env.vars
            if phase == "init":
                wc.check_init(vars_)
                raise StopPath()
            wc.havoc(vars_)
            holds = interp.truth(interp.eval(node.test, env))
            if phase == "step":
                if not holds:
                    raise StopPath()  # this state leaves the loop: the exit family
                try:
                    interp.exec_block(node.body, env)
                except _Continue:
                    pass
                except _Break:
                    return
                wc.check_step(vars_)
                raise StopPath()
            if holds:
                raise StopPath()  # this state stays in the loop: the step family
            interp.exec_block(node.orelse, env)
            at_exit = getattr(wc, "at_exit", None)
            if at_exit is not None:
                at_exit(vars_)

        return run

    ctx.while_hooks = [whook]

    # functools.reduce over an abstract sequence
    import functools

    orig_reduce = H.interp.models[functools.reduce]

    def m_reduce(fn, xs, *init):
        if not isinstance(xs, AbsSeq):
            return orig_reduce(fn, xs, *init)
        lc = ctx.fold_contract
        if lc is None:
            raise EngineError("reduce over abstract sequence without a fold contract")
        if not init:
            raise EngineError("reduce over abstract sequence without initial value")
        phase = ctx.case("fold[reduce]", ("init", "step", "exit"))
        if phase == "init":
            lc.check_init(fn, xs, init[0])
            raise StopPath()
        if phase == "step":
            acc = lc.havoc(xs)
            item = lc.element(xs)
            acc2 = H.interp.call_value(fn, (acc, item), {})
            lc.check_step(acc, item, acc2)
            raise StopPath()
        return lc.final(xs)

    H.interp.models[functools.reduce] = m_reduce

    orig_enum = H.interp.models[enumerate]
    def m_enum(x, start=0):
        if not isinstance(x, AbsSeq) and type(x).__module__.startswith("picosvg") and not isinstance(x, tuple) and hasattr(type(x), "__iter__"):
            x = H.interp.call_value(type(x).__iter__, (x,), {})
        return x.enumerate(start) if isinstance(x, AbsSeq) else orig_enum(x, start)
    H.interp.models[enumerate] = m_enum
    orig_rev = H.interp.models[reversed]
    H.interp.models[reversed] = lambda x: x.__reversed__() if isinstance(x, AbsSeq) else orig_rev(x)
