"""Check runner: collects the obligations of one property, discharges them in parallel,
replays counter-models natively, applies known_findings.json, writes evidence, sets the exit code.

exit 0 held / 1 violation (VIOLATION line) / 2 undecided / 3 checker crash
"""
from __future__ import annotations

import hashlib
import importlib
import json
import os
import pkgutil
import sys
import time
import traceback
from concurrent.futures import ProcessPoolExecutor
from dataclasses import asdict

ROOT = os.path.dirname(os.path.dirname(os.path.abspath(__file__)))
# development only (mutation runs on a scratch copy): PYVC_REPO points the checks at another tree, PYVC_OUT receives evidence/ and replay/
OUT = os.environ.get("PYVC_OUT") or ROOT
sys.path.insert(0, ROOT)

from pyvc import registry  # noqa: E402
from pyvc.registry import ComponentResult, Finding  # noqa: E402

ASSUMPTIONS_ALWAYS = [
    "floats are mathematical reals: no rounding, overflow, inf or NaN; float literals denote the number they were written as (DESIGN 2.2)",
    "CPython semantics of the constructs outside the interpreted subset as documented (DESIGN 2.2); generator functions (yield) are run to completion when called - their items are collected eagerly - while generator EXPRESSIONS are lazy as in CPython",
    "z3 5.1 / cvc5 / z3 4.8 are sound when they answer unsat",
]


def load_contracts():
    import contracts  # noqa

    for m in pkgutil.iter_modules(contracts.__path__):
        importlib.import_module(f"contracts.{m.name}")


def _jsonable(v):
    if isinstance(v, (str, int, float, bool)) or v is None:
        return v
    if isinstance(v, (list, tuple)):
        return [_jsonable(x) for x in v]
    if isinstance(v, dict):
        return {str(k): _jsonable(x) for k, x in v.items()}
    return repr(v)


def _run_job(job):
    idx, preset = job
    from pyvc import vc

    ob = registry.OBLIGATIONS[idx]
    t0 = time.time()
    try:
        rep = vc.explore(ob.fn, ob.name, ob.props[0], preset_cases=preset)
        out = []
        n_falsify = 0
        for inst in rep.instances:
            d = dict(label=inst.label, cases=_jsonable(inst.cases), status=inst.status, backend=inst.backend,
                     seconds=inst.seconds, inputs=_jsonable(inst.inputs), detail=inst.detail, replay=None)
            if inst.status == "refuted":
                ok, detail = vc.replay_native(ob.fn, inst)
                d["replay"] = {"reproduced": ok, "detail": detail}
                if not ok and n_falsify < 6:
                    # the solver's model does not survive float replay: look for a failing input by native sampling
                    n_falsify += 1
                    vals, det2 = vc.falsify_natively(ob.fn, inst, seed=int(os.environ.get("VERIF_SEED", "0") or 0))
                    if vals is not None:
                        d.update(inputs=_jsonable(vals), backend=inst.backend + "+native-sampling",
                                 replay={"reproduced": True, "detail": det2, "how": "solver model did not replay on floats; failing input found by running the harness natively on sampled inputs"})
            elif inst.status == "unknown" and n_falsify < 6:
                n_falsify += 1
                vals, detail = vc.falsify_natively(ob.fn, inst, seed=int(os.environ.get("VERIF_SEED", "0") or 0))
                if vals is not None:
                    d.update(status="refuted", inputs=_jsonable(vals), backend=inst.backend + "+native-sampling",
                             replay={"reproduced": True, "detail": detail, "how": "solver undecided; failing input found by running the harness natively on sampled inputs"})
            out.append(d)
        if rep.errors and not any(d["status"] == "refuted" for d in out):
            # the engine could not interpret the code as it is now: fall back to native runs of the same harness on sampled inputs,
            # over the case combinations the exploration reached (plus the preset); only a witnessed failure counts
            import re as _re

            case_sets = [dict(preset or {})]
            for e in rep.errors:
                m = _re.search(r"cases=(\{.*?\})(?::|$)", e)
                if m:
                    try:
                        cs = eval(m.group(1), {"__builtins__": {}}, {})  # the repr of a dict of literals written by explore()
                        if isinstance(cs, dict) and cs not in case_sets:
                            case_sets.append(cs)
                    except Exception:  # noqa
                        pass
            for label, cases, vals, detail in vc.native_fallback(ob.fn, case_sets[:12], seed=int(os.environ.get("VERIF_SEED", "0") or 0)):
                out.append(dict(label=label, cases=_jsonable(cases), status="refuted", backend="native-fallback", seconds=0.0, inputs=_jsonable(vals), detail=detail,
                                replay={"reproduced": True, "detail": detail, "how": "the interpreter could not execute the changed code; the harness was run natively on sampled inputs and this obligation failed"}))
        return dict(idx=idx, preset=_jsonable(preset), instances=out, paths=rep.paths, infeasible=rep.infeasible,
                    errors=rep.errors, notes=rep.notes, functions=rep.functions, covered=rep.covered, seconds=time.time() - t0)
    except BaseException as e:  # noqa
        return dict(idx=idx, preset=_jsonable(preset), instances=[], paths=0, infeasible=0,
                    errors=[f"job crashed: {type(e).__name__}: {e}\n{traceback.format_exc(limit=8)}"], notes=[], functions={}, covered=[],
                    seconds=time.time() - t0)


def _run_component(args):
    idx, tier, seed = args
    comp = registry.COMPONENTS[idx]
    t0 = time.time()
    try:
        res = comp.fn(tier, seed)
    except BaseException as e:  # noqa
        res = ComponentResult(errors=[f"component crashed: {type(e).__name__}: {e}\n{traceback.format_exc(limit=8)}"])
    d = asdict(res)
    d["idx"] = idx
    d["seconds"] = time.time() - t0
    return d


def _task_main(kind, arg, path):
    out = _run_job(arg) if kind == "job" else _run_component(arg)
    with open(path, "w") as f:
        json.dump(out, f, default=str)


def _run_tasks(tasks, workers, deadline):
    """Run every task in its own forked process with a hard wall-clock deadline.  (z3 does not always honour its own
    timeout; a job that overruns is killed and reported as undecided - never as a verdict.)"""
    import multiprocessing as mp
    import tempfile

    ctx = mp.get_context("fork")
    tmp = tempfile.mkdtemp(prefix="pyvc_", dir=os.environ.get("TMPDIR", "/tmp"))
    pending = list(enumerate(tasks))
    running, outs = {}, [None] * len(tasks)
    try:
        while pending or running:
            while pending and len(running) < workers:
                i, (kind, arg) = pending.pop(0)
                path = os.path.join(tmp, f"{i}.json")
                p = ctx.Process(target=_task_main, args=(kind, arg, path))
                p.start()
                running[i] = (p, time.time(), path, kind, arg)
            time.sleep(0.05)
            for i, (p, t0, path, kind, arg) in list(running.items()):
                if not p.is_alive():
                    p.join()
                    try:
                        with open(path) as f:
                            outs[i] = json.load(f)
                    except Exception:
                        outs[i] = _failed_task(kind, arg, f"worker died with exit code {p.exitcode}", time.time() - t0, crashed=True)
                    del running[i]
                elif time.time() - t0 > deadline:
                    p.kill()
                    p.join()
                    outs[i] = _failed_task(kind, arg, f"killed after the {deadline:.0f}s job deadline (solver did not return)", time.time() - t0, crashed=False)
                    del running[i]
    finally:
        import shutil

        for p, *_ in running.values():
            p.kill()
        shutil.rmtree(tmp, ignore_errors=True)
    return outs


def _failed_task(kind, arg, text, seconds, crashed):
    if kind == "job":
        idx, preset = arg
        inst = [] if crashed else [dict(label="job.deadline", cases=_jsonable(preset), status="unknown", backend="", seconds=seconds, inputs={}, detail=text, replay=None)]
        return dict(idx=idx, preset=_jsonable(preset), instances=inst, paths=1, infeasible=0, errors=[text] if crashed else [], notes=[], functions={}, covered=[], seconds=seconds)
    d = asdict(ComponentResult(errors=[text] if crashed else [], undecided=[] if crashed else [text]))
    d["idx"] = arg[0]
    d["seconds"] = seconds
    return d


def _resolve_any_of(results):
    """Existential alternatives (role bindings): keep, per obligation, the alternative with the fewest failures."""
    keep, groups = [], {}
    for r in results:
        ob = registry.OBLIGATIONS[r["idx"]]
        if not ob.any_of:
            keep.append(r)
            continue
        groups.setdefault((r["idx"], json.dumps(r["preset"].get(ob.any_of[0]))), []).append(r)
    by_ob = {}
    for (idx, alt), rs in groups.items():
        bad = sum(len(r["errors"]) + sum(1 for i in r["instances"] if i["status"] != "proved") for r in rs)
        empty = sum(1 for r in rs if not r["instances"])
        by_ob.setdefault(idx, []).append((bad + empty, alt, rs))
    for idx, alts in by_ob.items():
        alts.sort(key=lambda t: (t[0], t[1]))
        keep.extend(alts[0][2])
    return keep


def load_known():
    p = os.path.join(ROOT, "known_findings.json")
    if not os.path.exists(p):
        return {"findings": [], "fixed": []}
    with open(p) as f:
        return json.load(f)


def _match_known(entry, prop, key_obj):
    """entry: {property, obligation?, label?, case?, key?}; key_obj: dict(obligation,label,cases) or dict(key=...)"""
    if entry.get("property") != prop:
        return False
    if "key" in entry:
        return entry["key"] == key_obj.get("key")
    if "key" in key_obj:
        return False
    if entry.get("obligation") and entry["obligation"] != key_obj["obligation"]:
        return False
    if entry.get("label") and entry["label"] != key_obj["label"]:
        return False
    for k, v in (entry.get("case") or {}).items():
        if _jsonable(key_obj["cases"].get(k)) != v:
            return False
    return True


def function_hashes(names):
    """dotted names like 'svg_transform.Affine2D.inverse' -> source sha of the text on disk."""
    from pyvc.interp import source_hash

    out = {}
    for dotted in sorted(set(names)):
        try:
            mod, _, rest = dotted.partition(".")
            obj = importlib.import_module(f"picosvg.{mod}")
            for part in rest.split("."):
                obj = obj.__dict__[part] if isinstance(obj, type) and part in obj.__dict__ else getattr(obj, part)
            out[dotted] = source_hash(obj)
        except Exception as e:  # nested callbacks etc. are covered through their parent
            out[dotted] = f"unresolved ({type(e).__name__})"
    return out


def run_property(prop, tier, seed, level, explanation="", trusted_base=(), workers=None):
    t_start = time.time()
    load_contracts()
    known = load_known()
    from contracts.meta import DEPENDS

    wanted = {prop, *DEPENDS.get(prop, ())}
    obs = [(i, ob) for i, ob in enumerate(registry.OBLIGATIONS) if wanted & set(ob.props) and (ob.tier == "quick" or tier == "thorough")]
    # static components (typestate, frame rules) of the properties this one stands on are part of the closure; bounded components are not
    comps = [(i, c) for i, c in enumerate(registry.COMPONENTS) if (prop in c.props or (c.kind == "static" and wanted & set(c.props))) and (c.tier == "quick" or tier == "thorough")]
    only = os.environ.get("PYVC_ONLY")  # development only: run the obligations / components whose name contains this text
    if only:
        if OUT == ROOT:
            raise SystemExit("PYVC_ONLY needs PYVC_OUT (a partial run must not overwrite the evidence)")
        obs = [(i, ob) for i, ob in obs if only in ob.name]
        comps = [(i, c) for i, c in comps if only in c.name]
    jobs = []
    for i, ob in obs:
        alts = [{}]
        if ob.any_of:
            alts = [{ob.any_of[0]: o} for o in ob.any_of[1]]
        for alt in alts:
            if ob.split:
                name, options = ob.split
                for o in options:
                    jobs.append((i, {name: o, **alt}))
            else:
                jobs.append((i, dict(alt)))
    workers = workers or min(16, max(1, len(jobs) + len(comps)))
    deadline = float(os.environ.get("PYVC_JOB_DEADLINE_S", "900" if tier == "thorough" else "180"))
    tasks = [("job", j) for j in jobs] + [("comp", (i, tier, seed)) for i, _ in comps]
    outs = _run_tasks(tasks, workers, deadline)
    results = [o for (kind, _), o in zip(tasks, outs) if kind == "job"]
    cresults = [o for (kind, _), o in zip(tasks, outs) if kind == "comp"]

    results = _resolve_any_of(results)
    violations, known_hits, undecided, crashes = [], [], [], []
    n_ob = n_dis = 0
    backends = {}
    solver_s = 0.0
    notes, functions_seen, samples = [], {}, []
    declared_functions = set()
    replay_dir = os.path.join(OUT, "replay", prop)
    if os.path.isdir(replay_dir):
        for f in os.listdir(replay_dir):
            if f.endswith(".json"):
                os.unlink(os.path.join(replay_dir, f))

    known_instances = [0]

    def record_violation(key_obj, text, payload, confirmed):
        for e in known["findings"]:
            if _match_known(e, prop, key_obj):
                known_hits.append((e, text))
                if "key" not in key_obj:  # only obligation instances are part of the obligation count; component findings never were
                    known_instances[0] += payload.get("instances", 1)
                return
        os.makedirs(replay_dir, exist_ok=True)
        h = hashlib.sha256(json.dumps(key_obj, sort_keys=True, default=str).encode()).hexdigest()[:12]
        path = os.path.join(replay_dir, f"{h}.json")
        payload = dict(payload, property=prop, what=text, confirmed_on_real_code=confirmed, key=key_obj)
        with open(path, "w") as f:
            json.dump(payload, f, indent=1, default=str)
        if not any(v[0] == path for v in violations):
            violations.append((path, text, confirmed))

    refuted_by_key = {}
    refuted_count = {}
    status_hist = {}
    for r in results:
        ob = registry.OBLIGATIONS[r["idx"]]
        declared_functions.update(ob.functions)
        for e in r["errors"]:
            crashes.append(f"{ob.name} {r['preset']}: {e}")
        live = r["paths"] - r["infeasible"]
        if not r["errors"] and (not r["instances"] or live < 1):
            crashes.append(f"{ob.name} {r['preset']}: vacuous (paths={r['paths']}, infeasible={r['infeasible']}, instances={len(r['instances'])})")
        for n in r["notes"]:
            if n not in notes:
                notes.append(n)
        for q, c in r["functions"].items():
            functions_seen[q] = functions_seen.get(q, 0) + c
        for inst in r["instances"]:
            n_ob += 1
            status_hist[inst["status"]] = status_hist.get(inst["status"], 0) + 1
            key_obj = dict(obligation=ob.name, label=inst["label"], cases=inst["cases"])
            if inst["status"] == "proved":
                n_dis += 1
                backends[inst["backend"]] = backends.get(inst["backend"], 0) + 1
                solver_s += inst["seconds"]
                if len(samples) < 6 and inst["backend"] != "trivial":
                    samples.append(dict(obligation=ob.name, label=inst["label"], cases=inst["cases"], verdict="proved", backend=inst["backend"], ms=round(inst["seconds"] * 1000, 1)))
            elif inst["status"] == "refuted":
                solver_s += inst["seconds"]
                k = json.dumps(key_obj, sort_keys=True, default=str)
                prev = refuted_by_key.get(k)
                # several paths can fail the same (obligation, label, cases): keep the one whose model replays natively
                refuted_count[k] = refuted_count.get(k, 0) + 1
                if prev is None or (not (prev[1]["replay"] or {}).get("reproduced") and (inst["replay"] or {}).get("reproduced")):
                    refuted_by_key[k] = (ob, inst, key_obj)
            elif inst["status"] == "unknown":
                undecided.append(f"{ob.name}/{inst['label']} {inst['cases']}: {inst['detail']} [{inst['backend']}]")
            else:
                crashes.append(f"{ob.name}/{inst['label']}: status {inst['status']} {inst.get('detail', '')}")
    for kk, (ob, inst, key_obj) in refuted_by_key.items():
        rp = inst["replay"] or {}
        confirmed = bool(rp.get("reproduced"))
        text = f"obligation {ob.name}/{inst['label']} cases={json.dumps(inst['cases'], sort_keys=True)}"
        record_violation(key_obj, text, dict(obligation=ob.name, label=inst["label"], cases=inst["cases"], inputs=inst["inputs"],
                                             solver=dict(backend=inst["backend"], seconds=inst["seconds"], verdict="sat (negated obligation satisfiable)"),
                                             native_replay=rp, how_to_replay=f"./check {prop} --replay <this file>", instances=refuted_count.get(kk, 1)), confirmed)

    comp_summaries = []
    bounded_eval = bounded_distinct = 0
    for cr in cresults:
        comp = registry.COMPONENTS[cr["idx"]]
        for e in cr["errors"]:
            crashes.append(f"{comp.name}: {e}")
        for u in cr["undecided"]:
            undecided.append(f"{comp.name}: {u}")
        if comp.kind == "static":
            n_ob += cr["obligations"]
            n_dis += cr["discharged"]
            bk = cr.get("backend") or "static-ast"
            backends[bk] = backends.get(bk, 0) + cr["discharged"]
            if not cr["errors"] and cr["obligations"] == 0:
                crashes.append(f"{comp.name}: vacuous static component (0 obligations)")
        else:
            bounded_eval += cr["evaluations"]
            bounded_distinct += cr["distinct_nontrivial"]
            if not cr["errors"] and cr["evaluations"] == 0:
                crashes.append(f"{comp.name}: bounded component evaluated nothing")
        for f in cr["findings"]:
            record_violation(dict(key=f["key"]), f"{comp.name}: {f['text']}", dict(component=comp.name, kind=comp.kind, replay=f["replay"]), f["confirmed"])
        for n in cr["notes"]:
            if n not in notes:
                notes.append(n)
        declared_functions.update(cr["functions"])
        comp_summaries.append(dict(name=comp.name, kind=comp.kind, obligations=cr["obligations"], discharged=cr["discharged"],
                                   evaluations=cr["evaluations"], distinct_nontrivial=cr["distinct_nontrivial"], rule=cr["rule"],
                                   bound=cr["bound"], samples=cr["samples"][:4], seconds=round(cr["seconds"], 2)))
        for s in cr["samples"][:2]:
            if len(samples) < 10:
                samples.append({"component": comp.name, "case": s})

    # fixed entries suppress nothing; findings not hit any more are reported as stale (informational)
    stale = [e for e in known["findings"] if e.get("property") == prop and not any(e is k for k, _ in known_hits)]

    printed = set()
    for e, text in known_hits:
        if id(e) not in printed:
            printed.add(id(e))
            print(f"KNOWN-FINDING: property={prop} {e.get('text', text)}")
    slow = sorted(((r["seconds"], registry.OBLIGATIONS[r["idx"]].name, r["preset"]) for r in results), key=lambda t: -t[0])[:3]
    if slow and slow[0][0] > 20:
        print("SLOW-JOBS " + "; ".join(f"{n} {p} {t:.0f}s" for t, n, p in slow))
    for path, text, confirmed in violations:
        print(f"DETAIL {text}")
        print(f"VIOLATION property={prop} replay={path}" + ("" if confirmed else " no-failing-input-found"))
    for u in undecided:
        print(f"UNDECIDED {u}")
    for c in crashes:
        print(f"CHECKER-ERROR {c}")
    for e in stale:
        print(f"NOTE: known finding no longer observed (stale entry): {e.get('text')}")

    n_known = len(known_hits)
    wall = time.time() - t_start
    fn_hashes = function_hashes(declared_functions)
    # obligations recorded as known findings are kept out of the proof count (they are listed separately)
    coverage = dict(
        obligations=n_ob - known_instances[0],
        discharged=n_dis,
        checker_cmd=f"./check {prop} --tier {tier}",
        trusted_base=list(trusted_base),
        explanation=explanation,
        backends=backends,
        solver_seconds=round(solver_s, 3),
        obligation_instances_by_status=status_hist,
        obligations_failed_known_findings=n_known,
        obligations_failed_new=len(violations),
        obligations_undecided=len(undecided),
        functions_under_contract=fn_hashes,
        repo_functions_executed_symbolically=functions_seen,
        components=comp_summaries,
        samples=samples or [dict(note="no obligation generated")],
        evaluations=max(bounded_eval, n_ob, 1),
        distinct_nontrivial=max(bounded_distinct, 2 if n_ob >= 2 else 0),
        rule="deductive part: one obligation instance per (obligation, path, label); bounded part (labelled, never counted as proved): see components[].rule",
        bounded_evaluations=bounded_eval,
        bounded_distinct_nontrivial=bounded_distinct,
        exhaustive=False,
    )
    evidence = dict(
        property_id=prop,
        tier=tier,
        seed=seed,
        level=level,
        coverage=coverage,
        assumptions=ASSUMPTIONS_ALWAYS + list(trusted_base) + notes,
        wall_s=round(wall, 2),
        violations=len(violations),
        known_findings=[e.get("text") for e, _ in known_hits],
    )
    os.makedirs(os.path.join(OUT, "evidence"), exist_ok=True)
    with open(os.path.join(OUT, "evidence", f"{prop}.json"), "w") as f:
        json.dump(evidence, f, indent=1, default=str)
    print(f"{prop} tier={tier}: obligations={n_ob} discharged={n_dis} known={n_known} new-violations={len(violations)} undecided={len(undecided)} "
          f"errors={len(crashes)} bounded-evals={bounded_eval} wall={wall:.1f}s")
    if violations:
        # a refuted obligation stands (replayed on the real code or not), whatever else crashed or was left undecided: every
        # obligation is discharged in its own process, a crash elsewhere cannot produce a refutation here
        return 1
    if crashes:
        return 3
    if undecided:
        return 2
    if n_ob + bounded_eval == 0:
        print("CHECKER-ERROR zero obligations generated")
        return 3
    return 0


def replay_file(prop, path):
    load_contracts()
    from pyvc import vc

    with open(path) as f:
        rp = json.load(f)
    if "obligation" in rp:
        ob = next(o for o in registry.OBLIGATIONS if o.name == rp["obligation"])
        inst = vc.Instance(rp["label"], rp["cases"], "refuted", inputs=rp["inputs"])
        ok, detail = vc.replay_native(ob.fn, inst)
        print(json.dumps(dict(obligation=rp["obligation"], label=rp["label"], cases=rp["cases"], inputs=rp["inputs"], reproduced=ok, detail=detail), indent=1))
        return 1 if ok else 0
    comp = next(c for c in registry.COMPONENTS if c.name == rp["component"])
    rfn = getattr(comp.fn, "replay", None)
    if rfn is None:
        print(json.dumps(rp, indent=1))
        return 0
    ok, detail = rfn(rp["replay"])
    print(json.dumps(dict(component=rp["component"], reproduced=ok, detail=detail), indent=1))
    return 1 if ok else 0
