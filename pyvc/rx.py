"""Regular expressions under contract: what a compiled pattern of the real module matches, decided for ALL strings.

The patterns of picosvg's tokenisers are data of the running module (`svg_path_iter._FLOAT_RE`, ...) or string constants in the
real AST (`re.split(r"...", ...)` in `parse_svg_transform`).  A contract on them is a statement about every string, which no
amount of sampling settles and which z3's sequence theory does not decide reliably.  It IS decidable by automata:

  pattern  --sre parse tree-->  prioritised Thompson NFA  --Pike simulation-->  deterministic machine whose state is the ordered
                                 thread list, cut at the first accepting thread (= CPython's leftmost-first backtracking result
                                 for `pattern.match(w)`: the last position at which a match is recorded)
  spec     --combinators below-->  NFA  --subset construction-->  DFA with longest-prefix semantics

  `match_is_longest_prefix`: for every string w, pattern.match(w) ends where the longest prefix of w in the spec language ends
  (None where there is none).  Both results are "the last prefix at which the machine flags a match", so the two agree on all
  strings iff the flags agree in every reachable state of the product - finite, explored exhaustively over a partition of ALL
  0x110000 code points into classes that no atom of either side distinguishes.  No bound on the length of the string.

What is assumed (listed in the evidence): membership of a single character in a single atom ([0-9], \\s, a literal under
IGNORECASE ...) is taken from CPython's own engine (the atom is compiled alone and run over every code point); the
leftmost-first semantics of the sre backtracking matcher equals the Pike semantics used here (standard for patterns without
back-references / look-around / nullable loops - anything else is refused as Unsupported = undecided, never a verdict); and the
machine built here is cross-checked against the real `pattern.match` on sampled strings on every run (a wrong translation
shows up as a mismatch and is reported as a checker error, not as a verdict).
"""
from __future__ import annotations

import random
import re
from collections import deque

try:  # Python >= 3.11
    from re import _compiler as sre_compile
    from re import _constants as sre_c
    from re import _parser as sre_parse
except ImportError:  # pragma: no cover
    import sre_compile
    import sre_constants as sre_c
    import sre_parse


class Unsupported(Exception):
    """the pattern uses a construct this procedure does not model: undecided"""


_ALL = None


def _all_chars():
    global _ALL
    if _ALL is None:
        _ALL = "".join(map(chr, range(0x110000)))
    return _ALL


class Atom:
    """a set of code points, stored as a small set or the complement of a small set"""

    __slots__ = ("small", "neg", "text")

    def __init__(self, small, neg, text):
        self.small, self.neg, self.text = frozenset(small), neg, text

    def __contains__(self, cp):
        return (cp in self.small) != self.neg

    @staticmethod
    def of(chars, text=None):
        return Atom({ord(c) for c in chars}, False, text or repr(chars))


_ATOM_CACHE = {}


def _atom_of_node(node, flags, state):
    """membership of every code point in one sre atom node, by CPython's own engine"""
    key = (repr(node), flags)
    if key in _ATOM_CACHE:
        return _ATOM_CACHE[key]
    st = sre_parse.State()  # a fresh state: the atom alone has no groups (findall must return the characters)
    st.flags = flags
    st.str = ""
    sub = sre_parse.SubPattern(st, [node])
    pat = sre_compile.compile(sub, flags)
    hit = {ord(c) for c in pat.findall(_all_chars())}
    if len(hit) > 0x88000:
        atom = Atom(set(range(0x110000)) - hit, True, repr(node))
    else:
        atom = Atom(hit, False, repr(node))
    _ATOM_CACHE[key] = atom
    return atom


# ----------------------------------------------------------------------------------------------------------------- NFAs
class NFA:
    def __init__(self):
        self.kind = []  # per state: ("eps", [targets in priority order]) | ("chr", atom index, target) | ("bos", target) | ("acc",)
        self.atoms = []

    def new(self, k=None):
        self.kind.append(k)
        return len(self.kind) - 1

    def atom(self, a):
        self.atoms.append(a)
        return len(self.atoms) - 1


def _nullable(seq):
    for op, av in seq:
        if op in (sre_c.LITERAL, sre_c.NOT_LITERAL, sre_c.IN, sre_c.ANY):
            return False
        if op is sre_c.SUBPATTERN:
            if not _nullable(av[3]):
                return False
        elif op is sre_c.BRANCH:
            if not any(_nullable(a) for a in av[1]):
                return False
        elif op in (sre_c.MAX_REPEAT, sre_c.MIN_REPEAT):
            if av[0] > 0 and not _nullable(av[2]):
                return False
        elif op is sre_c.AT:
            continue
        else:
            raise Unsupported(str(op))
    return True


def _build(nfa, seq, nxt, flags, state):
    """states for `seq` continuing at `nxt`; returns the entry state"""
    for op, av in reversed(list(seq)):
        if op in (sre_c.LITERAL, sre_c.NOT_LITERAL, sre_c.IN, sre_c.ANY):
            a = nfa.atom(_atom_of_node((op, av), flags, state))
            nxt = nfa.new(("chr", a, nxt))
        elif op is sre_c.SUBPATTERN:
            group, add, dele, p = av
            if add or dele:
                raise Unsupported("inline flags inside a group")
            nxt = _build(nfa, p, nxt, flags, state)
        elif op is sre_c.BRANCH:
            nxt = nfa.new(("eps", [_build(nfa, alt, nxt, flags, state) for alt in av[1]]))
        elif op in (sre_c.MAX_REPEAT, sre_c.MIN_REPEAT):
            lo, hi, p = av
            greedy = op is sre_c.MAX_REPEAT
            if hi is sre_c.MAXREPEAT or hi == sre_c.MAXREPEAT:
                if _nullable(p):
                    raise Unsupported("unbounded repeat of a pattern that can match the empty string")
                loop = nfa.new(None)
                body = _build(nfa, p, loop, flags, state)
                nfa.kind[loop] = ("eps", [body, nxt] if greedy else [nxt, body])
                nxt = loop
            else:
                if hi - lo > 64 or lo > 64:
                    raise Unsupported("large counted repeat")
                for _ in range(hi - lo):
                    body = _build(nfa, p, nxt, flags, state)
                    nxt = nfa.new(("eps", [body, nxt] if greedy else [nxt, body]))
            for _ in range(lo):
                nxt = _build(nfa, p, nxt, flags, state)
        elif op is sre_c.AT:
            if av in (sre_c.AT_BEGINNING, sre_c.AT_BEGINNING_STRING) and not (flags & re.MULTILINE):
                nxt = nfa.new(("bos", nxt))
            elif av in (sre_c.AT_END, sre_c.AT_END_STRING) and not (flags & re.MULTILINE) and getattr(nfa, "allow_eos", False):
                # `$`: end of input (CPython also accepts it before a final newline - callers restrict the alphabet to exclude "\n")
                nxt = nfa.new(("eos", nxt))
            else:
                raise Unsupported(f"assertion {av}")
        else:
            raise Unsupported(f"regex construct {op}")
    return nxt


class Pattern:
    """a compiled pattern (or pattern text + flags) as a prioritised NFA"""

    def __init__(self, pattern, flags=0):
        if hasattr(pattern, "pattern"):
            flags = pattern.flags
            pattern = pattern.pattern
        if not isinstance(pattern, str):
            raise Unsupported("bytes pattern")
        self.text = pattern
        tree = sre_parse.parse(pattern, flags)
        self.flags = tree.state.flags
        if self.flags & (re.VERBOSE | re.LOCALE):
            pass  # VERBOSE is resolved by the parser; LOCALE is bytes-only
        self.groups = tree.state.groups - 1
        self.tree = tree
        self.compiled = re.compile(pattern, flags)
        self.nfa = NFA()
        acc = self.nfa.new(("acc",))
        self.start = _build(self.nfa, tree, acc, self.flags, tree.state)

    # deterministic Pike machine: state = (ordered threads, cut at the first accept), flag = a match is recorded here
    def _closure(self, seeds, at_start):
        out, seen = [], set()
        stack = list(reversed(seeds))
        # explicit DFS in priority order
        def add(s):
            if s in seen:
                return
            seen.add(s)
            k = self.nfa.kind[s]
            if k[0] == "eps":
                for t in k[1]:
                    add(t)
            elif k[0] == "bos":
                if at_start:
                    add(k[1])
            else:
                out.append(s)

        for s in seeds:
            add(s)
        for i, s in enumerate(out):
            if self.nfa.kind[s][0] == "acc":
                return tuple(out[:i]), True
        return tuple(out), False

    def initial(self):
        return self._closure([self.start], True)

    def step(self, threads, cp):
        seeds = []
        for s in threads:
            k = self.nfa.kind[s]
            if cp in self.nfa.atoms[k[1]]:
                seeds.append(k[2])
        return self._closure(seeds, False)

    def match_end(self, w):
        """what the machine says pattern.match(w) returns (end offset or None)"""
        threads, flag = self.initial()
        end = 0 if flag else None
        for i, c in enumerate(w):
            if not threads:
                break
            threads, flag = self.step(threads, ord(c))
            if flag:
                end = i + 1
        return end


class WholeMatch:
    """`bool(re.match(pattern, w))` for a pattern that may use `$`: backtracking tries every alternative until one succeeds, so the
    answer is plain membership (no priorities): w is accepted iff some path through the NFA consumes w and reaches the end, `$`
    edges being passable only when the input is exhausted.  Same interface as Pattern for `compare` (flag = w accepted as a whole)."""

    def __init__(self, pattern, flags=0):
        self.text = pattern
        tree = sre_parse.parse(pattern, flags)
        self.flags = tree.state.flags
        self.compiled = re.compile(pattern, flags)
        self.nfa = NFA()
        self.nfa.allow_eos = True
        self.acc = self.nfa.new(("acc",))
        self.start = _build(self.nfa, tree, self.acc, self.flags, tree.state)
        # a plain `match` (no `$`) succeeds on any extension of a matched prefix: only patterns anchored at the end describe whole strings
        self.anchored = self._always_eos()

    def _always_eos(self):
        # every path from start to accept passes an eos edge: search for an accept reachable without one
        seen, todo = set(), [self.start]
        while todo:
            s = todo.pop()
            if s in seen:
                continue
            seen.add(s)
            k = self.nfa.kind[s]
            if k[0] == "acc":
                return False
            if k[0] == "eps":
                todo.extend(k[1])
            elif k[0] in ("bos",):
                todo.append(k[1])
            elif k[0] == "chr":
                todo.append(k[2])
        return True

    def _closure(self, seeds, at_start):
        seen, todo = set(), list(seeds)
        while todo:
            s = todo.pop()
            if s in seen:
                continue
            seen.add(s)
            k = self.nfa.kind[s]
            if k[0] == "eps":
                todo.extend(k[1])
            elif k[0] == "bos" and at_start:
                todo.append(k[1])
        core = frozenset(s for s in seen if self.nfa.kind[s][0] in ("chr", "eos", "acc"))
        # accepted as a whole: accept reachable through eos / eps edges from here
        ends, todo2 = set(), [s for s in core if self.nfa.kind[s][0] in ("eos", "acc")]
        flag = False
        while todo2:
            s = todo2.pop()
            if s in ends:
                continue
            ends.add(s)
            k = self.nfa.kind[s]
            if k[0] == "acc":
                flag = True
            elif k[0] == "eos":
                todo2.append(k[1])
            elif k[0] == "eps":
                todo2.extend(k[1])
        return tuple(sorted(s for s in core if self.nfa.kind[s][0] == "chr")), flag

    def initial(self):
        return self._closure([self.start], True)

    def step(self, threads, cp):
        return self._closure([self.nfa.kind[s][2] for s in threads if cp in self.nfa.atoms[self.nfa.kind[s][1]]], False)

    def accepts(self, w):
        threads, flag = self.initial()
        for c in w:
            threads, flag = self.step(threads, ord(c))
        return flag


# ------------------------------------------------------------------------------------------------------------- the spec side
class Spec:
    """regular language written with combinators (independent of the `re` module)"""

    def __or__(self, other):
        return Alt(self, other)

    def __add__(self, other):
        return Seq(self, other)


class Chars(Spec):
    def __init__(self, chars=None, *, atom=None):
        self.atom = atom if atom is not None else Atom.of(chars)


class Seq(Spec):
    def __init__(self, *parts):
        self.parts = parts


class Alt(Spec):
    def __init__(self, *alts):
        self.alts = alts


class Star(Spec):
    def __init__(self, r):
        self.r = r


def Plus(r):
    return Seq(r, Star(r))


def Opt(r):
    return Alt(r, Seq())


def Word(s, ignore_case=False):
    return Seq(*[Chars(c.lower() + c.upper() if ignore_case else c) for c in s])


class Language:
    def __init__(self, spec):
        self.nfa = NFA()
        self.acc = self.nfa.new(("acc",))
        self.start = self._b(spec, self.acc)

    def _b(self, r, nxt):
        n = self.nfa
        if isinstance(r, Chars):
            return n.new(("chr", n.atom(r.atom), nxt))
        if isinstance(r, Seq):
            for p in reversed(r.parts):
                nxt = self._b(p, nxt)
            return nxt
        if isinstance(r, Alt):
            return n.new(("eps", [self._b(a, nxt) for a in r.alts]))
        if isinstance(r, Star):
            loop = n.new(None)
            n.kind[loop] = ("eps", [self._b(r.r, loop), nxt])
            return loop
        raise TypeError(r)

    def _closure(self, seeds):
        seen, todo = set(), list(seeds)
        while todo:
            s = todo.pop()
            if s in seen:
                continue
            seen.add(s)
            k = self.nfa.kind[s]
            if k[0] == "eps":
                todo.extend(k[1])
        core = frozenset(s for s in seen if self.nfa.kind[s][0] != "eps")
        return core, self.acc in core

    def initial(self):
        return self._closure([self.start])

    def step(self, states, cp):
        return self._closure([self.nfa.kind[s][2] for s in states if self.nfa.kind[s][0] == "chr" and cp in self.nfa.atoms[self.nfa.kind[s][1]]])

    def longest_prefix(self, w):
        states, flag = self.initial()
        end = 0 if flag else None
        for i, c in enumerate(w):
            if not states:
                break
            states, flag = self.step(states, ord(c))
            if flag:
                end = i + 1
        return end

    def contains(self, w):
        return self.longest_prefix(w) == len(w)


# ------------------------------------------------------------------------------------------------------------ the decision
def _classes(atoms, alphabet=None):
    """partition of the code points (all of them, or those of `alphabet`) into classes no atom distinguishes -> representatives"""
    if alphabet is not None:
        sig = {}
        for cp in sorted({ord(c) for c in alphabet}):
            sig.setdefault(tuple(cp in a for a in atoms), []).append(cp)
        return sorted(min(m) for m in sig.values())
    mentioned = set()
    for a in atoms:
        mentioned |= a.small
    sig = {}
    for cp in mentioned:
        sig.setdefault(tuple(cp in a for a in atoms), []).append(cp)
    reps = []
    for members in sig.values():
        nice = [c for c in members if 33 <= c < 127] or [c for c in members if c == 32] or members
        reps.append(min(nice))
    # a code point no small set mentions (exists: the small sets together are far smaller than the code space)
    for cp in list(range(0x263A, 0x2800)) + list(range(1, 0x110000)):
        if cp not in mentioned:
            reps.append(cp)
            break
    return sorted(reps)


def compare(pat: Pattern, lang: Language, mode="equal", alphabet=None, max_states=200000, max_witnesses=40):
    """decide, for all strings w over `alphabet` (None = every code point):

      mode "equal"  : pat.match(w) ends exactly where the longest prefix of w in `lang` ends (None where there is none)
      mode "within" : every prefix at which pat records a match is in `lang` (the pattern never matches anything outside the language)
      mode "covers" : for every string of `lang`, pat.match ends at its end (leftmost-first does not stop short of it or miss it)

    Both are statements about the match flags in the reachable states of the product of the two deterministic machines.
    -> dict(ok, states, classes, witnesses=[(string, pattern_flag, spec_flag)])   one shortest string per disagreeing product state"""
    reps = _classes(pat.nfa.atoms + lang.nfa.atoms, alphabet)
    p0, f0 = pat.initial()
    l0, g0 = lang.initial()

    def differs(f, g):
        if mode == "equal":
            return f != g
        if mode == "within":
            return f and not g
        return g and not f  # "covers": every string of the language is matched as a whole (the match ends at its end)

    start = (p0, l0)
    parent = {start: None}
    todo = deque([start])
    bad = []
    if differs(f0, g0):
        bad.append((start, f0, g0))
    while todo:
        cur = todo.popleft()
        p, l = cur
        if (not p and (not l or mode == "within")) or (not l and mode == "covers"):
            continue
        for cp in reps:
            np_, f = pat.step(p, cp) if p else ((), False)
            nl, g = lang.step(l, cp) if l else (frozenset(), False)
            nxt = (np_, nl)
            if nxt not in parent:
                parent[nxt] = (cur, cp)
                todo.append(nxt)
                if differs(f, g) and len(bad) < max_witnesses:
                    bad.append((nxt, f, g))
                if len(parent) > max_states:
                    raise Unsupported("product automaton too large")
            elif differs(f, g) and len(bad) < max_witnesses and not any(b[0] == nxt for b in bad):
                # the flags are a function of (previous state, character); a state reached with different flags is recorded once more
                bad.append((("via", cur, cp), f, g))
                parent[("via", cur, cp)] = (cur, cp)
    witnesses = []
    for node, f, g in bad:
        chars = []
        while parent[node] is not None:
            node, cp = parent[node]
            chars.append(chr(cp))
        witnesses.append(("".join(reversed(chars)), f, g))
    return dict(ok=not bad, states=len(parent), classes=len(reps), witnesses=witnesses)


def match_is_longest_prefix(pat, lang, **kw):
    return compare(pat, lang, "equal", **kw)


def cross_check(pat: Pattern, n=3000, seed=0, extra=""):
    """the machine built from the parse tree vs the real compiled pattern on sampled strings -> None or a mismatch description"""
    reps = [chr(c) for c in _classes(pat.nfa.atoms)]
    rnd = random.Random(seed)
    alphabet = reps + list(extra)
    for i in range(n):
        w = "".join(rnd.choice(alphabet) for _ in range(rnd.randint(0, 9)))
        m = pat.compiled.match(w)
        real = m.end() if m else None
        mine = pat.match_end(w)
        if real != mine:
            return f"{pat.text!r}.match({w!r}) ends at {real}, the automaton derived from its parse tree says {mine}"
    return None
