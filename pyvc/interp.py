"""AST interpreter that executes picosvg's *real* source over concrete and symbolic values.

The source is re-read from the imported modules' files (``/repo/src/picosvg/*.py``) on
every run; nothing is copied into /verif.  Dropped by extraction: comments, docstrings,
type annotations.  Everything else that the subset does not understand raises
EngineError (exit 3), never a verdict.

Values are ordinary Python objects (the real NamedTuple / dataclass classes of picosvg,
real tuples, lists, dicts, strings) whose *leaves* may be Sym terms.  Symbolic branch
conditions are resolved by ``ctx.decide`` (fork + solver pruning).
"""
from __future__ import annotations

import ast
import builtins
import collections
import dataclasses
import functools
import hashlib
import inspect
import operator
import re as _re
import types

import z3

from .sym import (
    EngineError,
    SBool,
    SInt,
    SReal,
    SStr,
    Sym,
    And,
    Not,
    Or,
    bool_z,
    contains_sym,
    is_sym,
    real_z,
)

MISSING = object()


class _Return(BaseException):
    def __init__(self, value):
        self.value = value


class _Break(BaseException):
    pass


class _Continue(BaseException):
    pass


# --------------------------------------------------------------------------------------
# source access
# --------------------------------------------------------------------------------------
class _ModuleSource:
    def __init__(self, filename):
        self.filename = filename
        with open(filename, "r", encoding="utf-8") as f:
            self.text = f.read()
        self.tree = ast.parse(self.text, filename)
        self.by_line: dict[tuple[int, str], list] = {}
        for node in ast.walk(self.tree):
            if isinstance(node, (ast.FunctionDef, ast.Lambda)):
                name = node.name if isinstance(node, ast.FunctionDef) else "<lambda>"
                lines = {node.lineno}
                for d in getattr(node, "decorator_list", []):
                    lines.add(d.lineno)
                for ln in lines:
                    self.by_line.setdefault((ln, name), []).append(node)

    def find(self, code: types.CodeType):
        cands = self.by_line.get((code.co_firstlineno, code.co_name), [])
        if len(cands) > 1:
            argnames = code.co_varnames[: code.co_argcount + code.co_kwonlyargcount]
            cands2 = [
                n
                for n in cands
                if tuple(a.arg for a in n.args.posonlyargs + n.args.args + n.args.kwonlyargs) == tuple(argnames)
            ]
            if cands2:
                cands = cands2
        if not cands:
            raise EngineError(f"no AST for {code.co_name} at {self.filename}:{code.co_firstlineno}")
        return cands[0]

    def segment(self, node) -> str:
        return ast.get_source_segment(self.text, node) or ""


_SOURCES: dict[str, _ModuleSource] = {}


def module_source(filename) -> _ModuleSource:
    ms = _SOURCES.get(filename)
    if ms is None:
        ms = _SOURCES[filename] = _ModuleSource(filename)
    return ms


def is_repo_function(fn) -> bool:
    return isinstance(fn, types.FunctionType) and (fn.__module__ or "").startswith("picosvg") and fn.__code__.co_filename.endswith(".py")


def is_repo_class(cls) -> bool:
    return isinstance(cls, type) and (cls.__module__ or "").startswith("picosvg")


def source_hash(fn) -> str:
    """sha256 of the text of a repo function as it is on disk now."""
    fn = inspect.unwrap(fn) if callable(fn) else fn
    if isinstance(fn, (staticmethod, classmethod)):
        fn = fn.__func__
    if isinstance(fn, property):
        fn = fn.fget
    if isinstance(fn, types.MethodType):
        fn = fn.__func__
    ms = module_source(fn.__code__.co_filename)
    node = ms.find(fn.__code__)
    return hashlib.sha256(ms.segment(node).encode()).hexdigest()[:16]


# --------------------------------------------------------------------------------------
# environments and closures
# --------------------------------------------------------------------------------------
class Env:
    __slots__ = ("vars", "parent", "globals")

    def __init__(self, vars, parent, globals_):
        self.vars = vars
        self.parent = parent
        self.globals = globals_

    def lookup(self, name):
        e = self
        while e is not None:
            if name in e.vars:
                return e.vars[name]
            e = e.parent
        if name in self.globals:
            return self.globals[name]
        if hasattr(builtins, name):
            return getattr(builtins, name)
        raise NameError(f"name '{name}' is not defined")


_RE_PATTERN = type(_re.compile(''))


class Closure:
    """A function whose body is interpreted.  Callable natively (re-enters the interpreter)."""

    def __init__(self, interp, node, env, defaults, kwdefaults, name, qualname, klass=None, origin=None):
        self.interp = interp
        self.node = node
        self.env = env
        self.defaults = defaults
        self.kwdefaults = kwdefaults
        self.__name__ = name
        self.__qualname__ = qualname
        self.klass = klass  # for zero-argument super()
        self.origin = origin  # real function object, if any
        body = node.body if isinstance(node.body, list) else [node.body]
        self.is_generator = any(_has_yield(s) for s in body)

    def __call__(self, *args, **kwargs):
        return self.interp.call_closure(self, args, kwargs)

    def __get__(self, obj, objtype=None):
        if obj is None:
            return self
        return functools.partial(self, obj)

    def __repr__(self):
        return f"<Closure {self.__qualname__}>"


def _has_yield(node) -> bool:
    for n in _walk_same_scope(node):
        if isinstance(n, (ast.Yield, ast.YieldFrom)):
            return True
    return False


def _walk_same_scope(node):
    todo = [node]
    first = True
    while todo:
        n = todo.pop()
        if not first and isinstance(n, (ast.FunctionDef, ast.Lambda, ast.ClassDef)):
            continue
        first = False
        yield n
        todo.extend(ast.iter_child_nodes(n))


class Frame:
    __slots__ = ("env", "yields", "klass", "closure")

    def __init__(self, env, yields, klass, closure):
        self.env = env
        self.yields = yields
        self.klass = klass
        self.closure = closure


_BINOPS = {
    ast.Add: (operator.add, "__add__", "__radd__"),
    ast.Sub: (operator.sub, "__sub__", "__rsub__"),
    ast.Mult: (operator.mul, "__mul__", "__rmul__"),
    ast.Div: (operator.truediv, "__truediv__", "__rtruediv__"),
    ast.FloorDiv: (operator.floordiv, "__floordiv__", "__rfloordiv__"),
    ast.Mod: (operator.mod, "__mod__", "__rmod__"),
    ast.Pow: (operator.pow, "__pow__", "__rpow__"),
    ast.MatMult: (operator.matmul, "__matmul__", "__rmatmul__"),
    ast.LShift: (operator.lshift, "__lshift__", "__rlshift__"),
    ast.RShift: (operator.rshift, "__rshift__", "__rrshift__"),
    ast.BitOr: (operator.or_, "__or__", "__ror__"),
    ast.BitAnd: (operator.and_, "__and__", "__rand__"),
    ast.BitXor: (operator.xor, "__xor__", "__rxor__"),
}
_INPLACE = {"__add__": "__iadd__", "__sub__": "__isub__", "__mul__": "__imul__", "__matmul__": "__imatmul__", "__truediv__": "__itruediv__"}


class Interp:
    MAX_STEPS = 2_000_000

    def __init__(self, ctx):
        self.ctx = ctx
        self.steps = 0
        self.frames: list[Frame] = []
        self.call_trace: list[str] = []  # qualnames of repo functions interpreted
        from . import models  # late import: models needs Interp

        self.models = models.build_models(self)

    # ------------------------------------------------------------------ functions
    def closure_of(self, fn) -> Closure:
        ms = module_source(fn.__code__.co_filename)
        node = ms.find(fn.__code__)
        parent = None
        klass = None
        if fn.__closure__:
            cellvars = {}
            for name, cell in zip(fn.__code__.co_freevars, fn.__closure__):
                try:
                    cellvars[name] = cell.cell_contents
                except ValueError:
                    pass
            klass = cellvars.get("__class__")
            parent = Env(cellvars, None, fn.__globals__)
        env = Env({}, parent, fn.__globals__)
        return Closure(self, node, env, fn.__defaults__ or (), fn.__kwdefaults__ or {}, fn.__name__, fn.__qualname__, klass=klass, origin=fn)

    def _bind(self, clo: Closure, args, kwargs) -> dict:
        a = clo.node.args
        params = [p.arg for p in a.posonlyargs + a.args]
        local = {}
        args = list(args)
        kwargs = dict(kwargs)
        n = len(params)
        for i, name in enumerate(params):
            if i < len(args):
                if name in kwargs:
                    raise TypeError(f"{clo.__name__}() got multiple values for argument '{name}'")
                local[name] = args[i]
            elif name in kwargs:
                local[name] = kwargs.pop(name)
            else:
                di = i - (n - len(clo.defaults))
                if di < 0:
                    raise TypeError(f"{clo.__name__}() missing required positional argument: '{name}'")
                local[name] = clo.defaults[di]
        extra = args[n:]
        if a.vararg:
            local[a.vararg.arg] = tuple(extra)
        elif extra:
            raise TypeError(f"{clo.__name__}() takes {n} positional arguments but {len(args)} were given")
        for p in a.kwonlyargs:
            if p.arg in kwargs:
                local[p.arg] = kwargs.pop(p.arg)
            elif p.arg in clo.kwdefaults:
                local[p.arg] = clo.kwdefaults[p.arg]
            else:
                raise TypeError(f"{clo.__name__}() missing keyword-only argument '{p.arg}'")
        if a.kwarg:
            local[a.kwarg.arg] = kwargs
        elif kwargs:
            raise TypeError(f"{clo.__name__}() got an unexpected keyword argument '{next(iter(kwargs))}'")
        return local

    def call_closure(self, clo: Closure, args, kwargs):
        local = self._bind(clo, args, kwargs)
        env = Env(local, clo.env, clo.env.globals)
        frame = Frame(env, [] if clo.is_generator else None, clo.klass, clo)
        self.frames.append(frame)
        if clo.origin is not None:
            self.call_trace.append(clo.__qualname__)
        if len(self.frames) > 200:
            raise RecursionError("maximum recursion depth exceeded (interpreted)")
        try:
            if isinstance(clo.node, ast.Lambda):
                return self.eval(clo.node.body, env)
            try:
                self.exec_block(clo.node.body, env)
                result = None
            except _Return as r:
                result = r.value
            if frame.yields is not None:
                return iter(frame.yields)
            return result
        finally:
            self.frames.pop()

    def call_value(self, f, args=(), kwargs=None):
        kwargs = kwargs or {}
        ov = self.ctx.override_for(f)
        if ov is not None:
            return ov(self, *args, **kwargs)
        if isinstance(f, Closure):
            return self.call_closure(f, args, kwargs)
        rs = getattr(self.ctx, "regex_stub", None)
        if rs is not None and isinstance(getattr(f, "__self__", None), _RE_PATTERN):
            # a method of a compiled pattern, answered by the pattern's contract (pyvc/rx.py decides that contract for all strings)
            r = rs(self, f.__self__, f.__name__, args, kwargs)
            if r is not NotImplemented:
                return r
        if isinstance(f, functools.partial):
            return self.call_value(f.func, tuple(f.args) + tuple(args), {**(f.keywords or {}), **kwargs})
        if isinstance(f, types.MethodType):
            if getattr(f.__self__, "__pyvc_abstract__", False):
                return f(*args, **kwargs)  # engine-side abstract object (AbsList, PathData ...)
            if getattr(f.__func__, "__name__", "") in ("_replace", "_asdict") and isinstance(f.__self__, tuple):
                return f(*args, **kwargs)  # NamedTuple plumbing generated by collections
            return self.call_value(f.__func__, (f.__self__,) + tuple(args), kwargs)
        if is_repo_function(f):
            return self.call_closure(self.closure_of(f), args, kwargs)
        if hasattr(f, "cache_clear") and is_repo_function(getattr(f, "__wrapped__", None)):
            # functools.lru_cache around a repo function: the body is interpreted every time (a cache is transparent as long
            # as it is cleared before the inputs change - the typestate rules of C15 cover the one cache picosvg has)
            note = "functools.lru_cache treated as transparent (body re-evaluated at every call)"
            if note not in self.ctx.notes:
                self.ctx.notes.append(note)
            return self.call_closure(self.closure_of(f.__wrapped__), args, kwargs)
        if not isinstance(f, type) and is_repo_class(type(f)):
            call = _static_lookup(type(f), "__call__")
            if call is not None and is_repo_function(call):
                return self.call_closure(self.closure_of(call), (f,) + tuple(args), kwargs)
        try:
            model = self.models.get(f)
        except TypeError:
            model = None
        if model is not None:
            return model(*args, **kwargs)
        if isinstance(f, type):
            return self.instantiate(f, args, kwargs)
        if getattr(f, "__name__", "") == "join" and isinstance(getattr(f, "__self__", None), str) and len(args) == 1:
            items = self.iterate_to_list(args[0])
            if any(getattr(x, "__pyvc_abstract__", False) for x in items):
                # sep.join(abstract strings): left-to-right concatenation through the objects' own "+" models
                acc = None
                for x in items:
                    if acc is None:
                        acc = x
                    else:
                        acc = self.binop(ast.Add(), self.binop(ast.Add(), acc, f.__self__), x)
                return "" if acc is None else acc
            return f.__self__.join(items)
        if getattr(getattr(f, "__self__", None), "__pyvc_abstract__", False):
            return f(*args, **kwargs)
        if getattr(f, "__pyvc_native__", False):
            return f(*args, **kwargs)
        # method-descriptor calls on concrete receivers (str.upper, list.append, dict.get ...)
        if contains_sym(args) or contains_sym(kwargs):
            recv = getattr(f, "__self__", None)
            if isinstance(recv, (list, dict, tuple, set, collections.deque)) and getattr(f, "__name__", "") in _PLUMBING_METHODS:
                return f(*args, **kwargs)
            if f in _PLUMBING_FUNCS:
                return f(*args, **kwargs)
            raise EngineError(f"unmodelled external {getattr(f, '__qualname__', f)!r} called with symbolic arguments")
        return f(*args, **kwargs)

    def instantiate(self, cls, args, kwargs):
        if is_repo_class(cls):
            if issubclass(cls, tuple) and hasattr(cls, "_fields"):
                return cls(*args, **kwargs)
            init = None
            for k in cls.__mro__:
                if "__init__" in k.__dict__:
                    init = k.__dict__["__init__"]
                    break
            if is_repo_function(init):
                obj = object.__new__(cls)
                self.call_value(init, (obj,) + tuple(args), kwargs)
                return obj
            if dataclasses.is_dataclass(cls):
                return self._dataclass_init(cls, args, kwargs)
            if contains_sym(args) or contains_sym(kwargs):
                raise EngineError(f"cannot instantiate {cls.__name__} with symbolic arguments")
            return cls(*args, **kwargs)
        model = self.models.get(cls)
        if model is not None:
            return model(*args, **kwargs)
        if contains_sym(args) or contains_sym(kwargs):
            if cls in (tuple, list, dict, zip, enumerate, reversed, range, functools.partial, collections.deque):
                return cls(*args, **kwargs)
            raise EngineError(f"unmodelled constructor {cls.__name__} with symbolic arguments")
        return cls(*args, **kwargs)

    def _dataclass_init(self, cls, args, kwargs):
        obj = object.__new__(cls)
        fields = [f for f in dataclasses.fields(cls) if f.init]
        args = list(args)
        kwargs = dict(kwargs)
        if len(args) > len(fields):
            raise TypeError(f"{cls.__name__}() takes {len(fields)} positional arguments but {len(args)} were given")
        for i, f in enumerate(fields):
            if i < len(args):
                v = args[i]
            elif f.name in kwargs:
                v = kwargs.pop(f.name)
            elif f.default is not dataclasses.MISSING:
                v = f.default
            elif f.default_factory is not dataclasses.MISSING:
                v = f.default_factory()
            else:
                raise TypeError(f"{cls.__name__}() missing required argument: '{f.name}'")
            object.__setattr__(obj, f.name, v)
        if kwargs:
            raise TypeError(f"{cls.__name__}() got an unexpected keyword argument '{next(iter(kwargs))}'")
        post = getattr(cls, "__post_init__", None)
        if post is not None:
            self.call_value(post, (obj,), {})
        return obj

    # ------------------------------------------------------------------ truth / compare
    def truth(self, v) -> bool:
        if isinstance(v, Sym):
            if isinstance(v, SBool):
                return self.ctx.decide(v.z)
            if isinstance(v, (SReal, SInt)):
                return self.ctx.decide((v != 0).z)
            if isinstance(v, SStr):
                return self.ctx.decide((v != "").z)
            raise EngineError(f"truth of {v!r}")
        t = getattr(v, "__pyvc_truth__", None)
        if t is not None:
            return t(self)
        return bool(v)

    def eq(self, a, b):
        if not (contains_sym(a) or contains_sym(b)):
            return a == b
        if isinstance(a, Sym):
            return a.__eq__(b)
        if isinstance(b, Sym):
            return b.__eq__(a)
        h = getattr(a, "__pyvc_eq__", None) or None
        if h is not None:
            return h(self, b)
        h = getattr(b, "__pyvc_eq__", None) or None
        if h is not None:
            return h(self, a)
        if isinstance(a, tuple) and isinstance(b, tuple) or isinstance(a, list) and isinstance(b, list):
            if len(a) != len(b):
                return False
            return And(*[self.eq(x, y) for x, y in zip(a, b)])
        if dataclasses.is_dataclass(a) and not isinstance(a, type) and type(a) is type(b):
            parts = []
            for f in dataclasses.fields(a):
                if f.compare:
                    parts.append(self.eq(getattr(a, f.name), getattr(b, f.name)))
            return And(*parts)
        if isinstance(a, dict) and isinstance(b, dict):
            if set(a.keys()) != set(b.keys()):
                return False
            return And(*[self.eq(a[k], b[k]) for k in a])
        if a is None or b is None:
            return a is b
        if type(a) is not type(b) and not (isinstance(a, (int, float)) and isinstance(b, (int, float))):
            if isinstance(a, (str, int, float, bool)) or isinstance(b, (str, int, float, bool)):
                return False
        raise EngineError(f"== between {type(a).__name__} and {type(b).__name__} with symbolic content")

    def contains(self, container, item):
        if hasattr(container, "__pyvc_contains__"):
            return container.__pyvc_contains__(self, item)
        if not (contains_sym(container) or contains_sym(item)):
            return item in container
        if isinstance(container, (dict, set, frozenset)) and not contains_sym(item) and not any(is_sym(k) for k in container):
            return item in container  # membership only looks at the (concrete) keys
        if isinstance(container, (tuple, list)):
            return Or(*[self.eq(x, item) for x in container]) if len(container) else False
        if isinstance(container, (set, frozenset, dict)) and not any(is_sym(k) for k in container) and is_sym(item):
            if isinstance(item, SStr):
                keys = [k for k in container if isinstance(k, str)]
            else:
                keys = [k for k in container if isinstance(k, (int, float)) and not isinstance(k, bool)]
            return Or(*[item == k for k in keys]) if keys else False
        raise EngineError(f"`in` on {type(container).__name__} with symbolic content")

    def compare(self, op, a, b):
        if isinstance(op, ast.Eq):
            return self.eq(a, b)
        if isinstance(op, ast.NotEq):
            return Not(self.eq(a, b))
        if isinstance(op, ast.Is):
            return a is b
        if isinstance(op, ast.IsNot):
            return a is not b
        if isinstance(op, ast.In):
            return self.contains(b, a)
        if isinstance(op, ast.NotIn):
            return Not(self.contains(b, a))
        f = {ast.Lt: operator.lt, ast.LtE: operator.le, ast.Gt: operator.gt, ast.GtE: operator.ge}[type(op)]
        if is_sym(a) or is_sym(b):
            r = f(a, b)
            if r is NotImplemented:
                raise EngineError(f"ordering between {a!r} and {b!r}")
            return r
        if contains_sym(a) or contains_sym(b):
            raise EngineError("ordering of containers with symbolic content")
        return f(a, b)

    # ------------------------------------------------------------------ arithmetic
    def binop(self, opnode, a, b, inplace=False):
        native, dunder, rdunder = _BINOPS[type(opnode)]
        # python protocol for repo classes (Point.__sub__, Vector.__mul__, Affine2D.__matmul__ ...)
        ta, tb = type(a), type(b)
        if is_repo_class(ta) or is_repo_class(tb):
            names = ([_INPLACE[dunder]] if inplace and dunder in _INPLACE else []) + [dunder]
            for nm in names:
                m = _static_lookup(ta, nm)
                if m is not None and is_repo_function(m):
                    r = self.call_value(m, (a, b), {})
                    if r is not NotImplemented:
                        return r
                    break
                if m is not None and not is_repo_class(ta):
                    break
            m = _static_lookup(tb, rdunder)
            if m is not None and is_repo_function(m):
                r = self.call_value(m, (b, a), {})
                if r is not NotImplemented:
                    return r
            if not (is_sym(a) or is_sym(b)):
                return native(a, b)  # e.g. tuple + NamedTuple
            raise TypeError(f"unsupported operand type(s): '{ta.__name__}' and '{tb.__name__}'")
        if is_sym(a) or is_sym(b):
            if isinstance(opnode, ast.Div):
                zb = b
                if is_sym(b):
                    if self.ctx.decide((b == 0).z):
                        raise ZeroDivisionError("float division by zero")
                elif b == 0:
                    raise ZeroDivisionError("float division by zero")
                return SReal(z3.simplify(real_z(a) / real_z(b)))
            if isinstance(opnode, ast.Pow):
                return self.models[pow](a, b)
            if isinstance(opnode, (ast.Mod, ast.FloorDiv)):
                return self._intdivmod(opnode, a, b)
            r = native(a, b)
            if r is NotImplemented:
                raise EngineError(f"binary op {dunder} on {a!r}, {b!r}")
            return r
        h = getattr(a, "__pyvc_binop__", None)
        if h is not None:
            return h(self, dunder, b)
        h = getattr(b, "__pyvc_rbinop__", None)
        if h is not None:
            return h(self, dunder, a)
        return native(a, b)

    def _intdivmod(self, opnode, a, b):
        if isinstance(a, (SInt, int)) and isinstance(b, (SInt, int)) and not isinstance(a, bool):
            za = a.z if isinstance(a, SInt) else z3.IntVal(a)
            zb = b.z if isinstance(b, SInt) else z3.IntVal(b)
            if isinstance(b, SInt):
                if self.ctx.decide((b == 0).z):
                    raise ZeroDivisionError("integer division or modulo by zero")
                raise EngineError("// or % by a symbolic divisor")
            if b == 0:
                raise ZeroDivisionError("integer division or modulo by zero")
            if b < 0:
                raise EngineError("// or % by a negative divisor")
            # z3 div/mod are euclidean; for positive divisors they coincide with Python's floor semantics
            return SInt(z3.simplify(za / zb if isinstance(opnode, ast.FloorDiv) else za % zb))
        # real floor division / modulo by a concrete non-zero number: a = b*k + r, k integer, r in [0, b) (sign of b)
        if isinstance(b, (int, float)) and not isinstance(b, bool) and b != 0 and isinstance(a, (SReal, SInt)):
            k = self.ctx.fresh_fn("floordiv", "int", a, b)
            za, zb = real_z(a), real_z(b)
            r = za - zb * z3.ToReal(k.z)
            self.ctx.axiom(z3.And(r >= 0, r < zb) if b > 0 else z3.And(r <= 0, r > zb), "floor_mod.def")
            return SReal(z3.ToReal(k.z)) if isinstance(opnode, ast.FloorDiv) else SReal(z3.simplify(r))
        raise EngineError("// or % with a symbolic divisor")

    def unary(self, opnode, v):
        if isinstance(opnode, ast.Not):
            return not self.truth(v)
        if isinstance(opnode, ast.USub):
            if is_repo_class(type(v)):
                m = _static_lookup(type(v), "__neg__")
                if m is not None and is_repo_function(m):
                    return self.call_value(m, (v,), {})
            return -v
        if isinstance(opnode, ast.UAdd):
            return +v
        if isinstance(opnode, ast.Invert):
            return ~v
        raise EngineError("unary op")

    # ------------------------------------------------------------------ attributes
    def getattr_(self, obj, name):
        if isinstance(obj, Sym):
            m = self.models.get(("symattr", type(obj), name))
            if m is None:
                raise EngineError(f"attribute {name!r} of symbolic {type(obj).__name__}")
            return _NativeBound(m, obj)
        cls = type(obj)
        if is_repo_class(cls):
            static = inspect.getattr_static(cls, name, MISSING)
            if isinstance(static, property):
                return self.call_value(static.fget, (obj,), {})
        return getattr(obj, name)

    def setattr_(self, obj, name, value):
        if hasattr(obj, "__pyvc_setattr__"):
            return obj.__pyvc_setattr__(self, name, value)
        setattr(obj, name, value)

    # ------------------------------------------------------------------ statements
    def exec_block(self, stmts, env):
        for s in stmts:
            self.exec_stmt(s, env)

    def _tick(self):
        self.steps += 1
        if self.steps > self.MAX_STEPS:
            raise EngineError("step budget exhausted (possible non-termination under symbolic condition)")

    def exec_stmt(self, node, env):
        self._tick()
        m = getattr(self, "s_" + type(node).__name__, None)
        if m is None:
            raise EngineError(f"unsupported statement {type(node).__name__} at line {node.lineno}")
        return m(node, env)

    def s_Expr(self, node, env):
        if isinstance(node.value, ast.Constant):
            return  # docstring
        self.eval(node.value, env)

    def s_Pass(self, node, env):
        pass

    def s_Return(self, node, env):
        raise _Return(self.eval(node.value, env) if node.value is not None else None)

    def s_Break(self, node, env):
        raise _Break()

    def s_Continue(self, node, env):
        raise _Continue()

    def s_Import(self, node, env):
        for a in node.names:
            mod = __import__(a.name)
            env.vars[(a.asname or a.name).split(".")[0]] = mod if a.asname is None else __import__(a.name, fromlist=["_"])

    def s_ImportFrom(self, node, env):
        mod = __import__(node.module, fromlist=[a.name for a in node.names])
        for a in node.names:
            env.vars[a.asname or a.name] = getattr(mod, a.name)

    def s_FunctionDef(self, node, env):
        defaults = tuple(self.eval(d, env) for d in node.args.defaults)
        kwdefaults = {a.arg: self.eval(d, env) for a, d in zip(node.args.kwonlyargs, node.args.kw_defaults) if d is not None}
        outer = self.frames[-1].closure.__qualname__ if self.frames and self.frames[-1].closure else ""
        clo = Closure(self, node, env, defaults, kwdefaults, node.name, f"{outer}.<locals>.{node.name}" if outer else node.name)
        if node.decorator_list:
            raise EngineError("decorated nested function")
        env.vars[node.name] = clo

    def s_Assign(self, node, env):
        v = self.eval(node.value, env)
        for t in node.targets:
            self.assign(t, v, env)

    def s_AnnAssign(self, node, env):
        if node.value is not None:
            self.assign(node.target, self.eval(node.value, env), env)

    def s_AugAssign(self, node, env):
        t = node.target
        if isinstance(t, ast.Name):
            cur = env.lookup(t.id)
            self.assign(t, self.binop(node.op, cur, self.eval(node.value, env), inplace=True), env)
        elif isinstance(t, ast.Attribute):
            obj = self.eval(t.value, env)
            cur = self.getattr_(obj, t.attr)
            self.setattr_(obj, t.attr, self.binop(node.op, cur, self.eval(node.value, env), inplace=True))
        elif isinstance(t, ast.Subscript):
            obj = self.eval(t.value, env)
            idx = self.eval_index(t.slice, env)
            cur = self.getitem(obj, idx)
            self.setitem(obj, idx, self.binop(node.op, cur, self.eval(node.value, env), inplace=True))
        else:
            raise EngineError("augmented assignment target")

    def assign(self, target, value, env):
        if isinstance(target, ast.Name):
            env.vars[target.id] = value
        elif isinstance(target, (ast.Tuple, ast.List)):
            items = self.iterate_to_list(value)
            star = [i for i, e in enumerate(target.elts) if isinstance(e, ast.Starred)]
            if star:
                si = star[0]
                after = len(target.elts) - si - 1
                if len(items) < len(target.elts) - 1:
                    raise ValueError(f"not enough values to unpack (expected at least {len(target.elts) - 1}, got {len(items)})")
                for e, v in zip(target.elts[:si], items[:si]):
                    self.assign(e, v, env)
                self.assign(target.elts[si].value, list(items[si : len(items) - after]), env)
                for e, v in zip(target.elts[si + 1 :], items[len(items) - after :]):
                    self.assign(e, v, env)
            else:
                if len(items) != len(target.elts):
                    if len(items) > len(target.elts):
                        raise ValueError(f"too many values to unpack (expected {len(target.elts)})")
                    raise ValueError(f"not enough values to unpack (expected {len(target.elts)}, got {len(items)})")
                for e, v in zip(target.elts, items):
                    self.assign(e, v, env)
        elif isinstance(target, ast.Attribute):
            self.setattr_(self.eval(target.value, env), target.attr, value)
        elif isinstance(target, ast.Subscript):
            self.setitem(self.eval(target.value, env), self.eval_index(target.slice, env), value)
        else:
            raise EngineError(f"assignment target {type(target).__name__}")

    def s_Delete(self, node, env):
        for t in node.targets:
            if isinstance(t, ast.Name):
                e = env
                while e is not None and t.id not in e.vars:
                    e = e.parent
                if e is None:
                    raise NameError(t.id)
                del e.vars[t.id]
            elif isinstance(t, ast.Subscript):
                obj = self.eval(t.value, env)
                idx = self.eval_index(t.slice, env)
                if hasattr(obj, "__pyvc_delitem__"):
                    obj.__pyvc_delitem__(self, idx)
                else:
                    del obj[idx]
            elif isinstance(t, ast.Attribute):
                delattr(self.eval(t.value, env), t.attr)
            else:
                raise EngineError("del target")

    def s_If(self, node, env):
        # if-conversion: `if c: x = <constant or name>` on numbers becomes x = ite(c, v, x) instead of a fork
        if (not node.orelse and len(node.body) == 1 and isinstance(node.body[0], ast.Assign) and len(node.body[0].targets) == 1
                and isinstance(node.body[0].targets[0], ast.Name) and isinstance(node.body[0].value, (ast.Constant, ast.Name))):
            cond = self.eval(node.test, env)
            if isinstance(cond, SBool) and getattr(self.ctx, "if_conversion", False):
                name = node.body[0].targets[0].id
                try:
                    old = env.lookup(name)
                    new = self.eval(node.body[0].value, env)
                except NameError:
                    old = new = None
                num = lambda v: isinstance(v, (SReal, SInt)) or (isinstance(v, (int, float)) and not isinstance(v, bool))
                if num(old) and num(new):
                    from .sym import Ite

                    env.vars[name] = Ite(cond, new, old)
                    return
            if self.truth(cond):
                self.exec_block(node.body, env)
            return
        if self.truth(self.eval(node.test, env)):
            self.exec_block(node.body, env)
        else:
            self.exec_block(node.orelse, env)

    def s_Assert(self, node, env):
        if not self.truth(self.eval(node.test, env)):
            msg = self.eval(node.msg, env) if node.msg is not None else None
            raise AssertionError(msg) if msg is not None else AssertionError()

    def s_Raise(self, node, env):
        if node.exc is None:
            raise  # re-raise inside except handler
        exc = self.eval(node.exc, env)
        if isinstance(exc, type):
            exc = exc()
        if node.cause is not None:
            raise exc from self.eval(node.cause, env)
        raise exc

    def s_Try(self, node, env):
        try:
            try:
                self.exec_block(node.body, env)
            except Exception as e:  # engine signals are BaseException and pass through
                for h in node.handlers:
                    if h.type is None:
                        match = True
                    else:
                        t = self.eval(h.type, env)
                        match = isinstance(e, t)
                    if match:
                        if h.name:
                            env.vars[h.name] = e
                        self.exec_block(h.body, env)
                        break
                else:
                    raise
            else:
                self.exec_block(node.orelse, env)
        finally:
            if node.finalbody:
                self.exec_block(node.finalbody, env)

    def s_While(self, node, env):
        hook = self.ctx.while_hook(self, node, env) if hasattr(self.ctx, "while_hook") else None
        if hook is not None:
            return hook()
        while True:
            self._tick()
            if not self.truth(self.eval(node.test, env)):
                self.exec_block(node.orelse, env)
                return
            try:
                self.exec_block(node.body, env)
            except _Break:
                return
            except _Continue:
                continue

    def s_For(self, node, env):
        it = self.eval(node.iter, env)
        hook = self.ctx.loop_hook(self, node, it, env)
        if hook is not None:
            return hook()
        for item in self.iterate(it):
            self._tick()
            self.assign(node.target, item, env)
            try:
                self.exec_block(node.body, env)
            except _Break:
                return
            except _Continue:
                continue
        self.exec_block(node.orelse, env)

    def s_With(self, node, env):
        raise EngineError("with statement")

    def s_Global(self, node, env):
        raise EngineError("global statement")

    def s_Nonlocal(self, node, env):
        raise EngineError("nonlocal statement")

    # ------------------------------------------------------------------ iteration
    def iterate(self, v):
        h = getattr(v, "__pyvc_iter__", None)
        if h is not None:
            return h(self)
        if is_repo_class(type(v)) and not isinstance(v, tuple):
            m = _static_lookup(type(v), "__iter__")
            if m is not None and is_repo_function(m):
                return self.iterate(self.call_value(m, (v,), {}))
        if isinstance(v, Sym):
            raise EngineError(f"iteration over symbolic {v!r}")
        return iter(v)

    def iterate_to_list(self, v):
        if isinstance(v, (tuple, list)):
            return list(v)
        return list(self.iterate(v))

    # ------------------------------------------------------------------ subscripts
    def eval_index(self, node, env):
        if isinstance(node, ast.Slice):
            return slice(
                self.eval(node.lower, env) if node.lower is not None else None,
                self.eval(node.upper, env) if node.upper is not None else None,
                self.eval(node.step, env) if node.step is not None else None,
            )
        return self.eval(node, env)

    def getitem(self, obj, idx):
        h = getattr(obj, "__pyvc_getitem__", None)
        if h is not None:
            return h(self, idx)
        if isinstance(idx, SInt) and isinstance(obj, (tuple, list)) and 0 < len(obj) <= 16:
            # symbolic position in a concrete sequence: one path per position (IndexError outside the range, as in Python)
            n = len(obj)
            for k in range(-n, n):
                if self.truth(idx == k):
                    return obj[k]
            raise IndexError(f"{type(obj).__name__} index out of range")
        if is_sym(idx) or (isinstance(idx, slice) and contains_sym((idx.start, idx.stop, idx.step))):
            raise EngineError(f"symbolic index into {type(obj).__name__}")
        if isinstance(obj, Sym):
            raise EngineError("subscript of symbolic value")
        return obj[idx]

    def setitem(self, obj, idx, value):
        h = getattr(obj, "__pyvc_setitem__", None)
        if h is not None:
            return h(self, idx, value)
        if is_sym(idx):
            raise EngineError("symbolic index in assignment")
        obj[idx] = value

    # ------------------------------------------------------------------ expressions
    def eval(self, node, env):
        self._tick()
        m = getattr(self, "e_" + type(node).__name__, None)
        if m is None:
            raise EngineError(f"unsupported expression {type(node).__name__} at line {getattr(node, 'lineno', '?')}")
        return m(node, env)

    def e_Constant(self, node, env):
        return node.value

    def e_Name(self, node, env):
        return env.lookup(node.id)

    def e_Tuple(self, node, env):
        return tuple(self._elts(node.elts, env))

    def e_List(self, node, env):
        return list(self._elts(node.elts, env))

    def e_Set(self, node, env):
        items = self._elts(node.elts, env)
        if contains_sym(items):
            raise EngineError("set literal with symbolic content")
        return set(items)

    def _elts(self, elts, env):
        out = []
        for e in elts:
            if isinstance(e, ast.Starred):
                out.extend(self.iterate_to_list(self.eval(e.value, env)))
            else:
                out.append(self.eval(e, env))
        return out

    def e_Dict(self, node, env):
        d = {}
        for k, v in zip(node.keys, node.values):
            if k is None:
                d.update(self.eval(v, env))
            else:
                kk = self.eval(k, env)
                if is_sym(kk):
                    raise EngineError("symbolic dict key")
                d[kk] = self.eval(v, env)
        return d

    def e_BinOp(self, node, env):
        return self.binop(node.op, self.eval(node.left, env), self.eval(node.right, env))

    def e_UnaryOp(self, node, env):
        return self.unary(node.op, self.eval(node.operand, env))

    def e_BoolOp(self, node, env):
        is_and = isinstance(node.op, ast.And)
        v = None
        for i, e in enumerate(node.values):
            v = self.eval(e, env)
            if i == len(node.values) - 1:
                return v
            t = self.truth(v)
            if is_and and not t:
                return v if not is_sym(v) else False
            if not is_and and t:
                return v if not is_sym(v) else True
        return v

    def e_Compare(self, node, env):
        left = self.eval(node.left, env)
        result = True
        for i, (op, rn) in enumerate(zip(node.ops, node.comparators)):
            right = self.eval(rn, env)
            result = self.compare(op, left, right)
            if i < len(node.ops) - 1:
                if not self.truth(result):
                    return False
            left = right
        return result

    def e_IfExp(self, node, env):
        return self.eval(node.body, env) if self.truth(self.eval(node.test, env)) else self.eval(node.orelse, env)

    def e_Attribute(self, node, env):
        return self.getattr_(self.eval(node.value, env), node.attr)

    def e_Subscript(self, node, env):
        return self.getitem(self.eval(node.value, env), self.eval_index(node.slice, env))

    def e_Starred(self, node, env):
        raise EngineError("starred expression outside call/display")

    def e_Lambda(self, node, env):
        defaults = tuple(self.eval(d, env) for d in node.args.defaults)
        kwdefaults = {a.arg: self.eval(d, env) for a, d in zip(node.args.kwonlyargs, node.args.kw_defaults) if d is not None}
        outer = self.frames[-1].closure.__qualname__ if self.frames and self.frames[-1].closure else ""
        return Closure(self, node, env, defaults, kwdefaults, "<lambda>", f"{outer}.<locals>.<lambda>")

    def e_JoinedStr(self, node, env):
        parts = []
        for v in node.values:
            if isinstance(v, ast.Constant):
                parts.append(str(v.value))
            else:
                val = self.eval(v.value, env)
                if contains_sym(val):
                    parts.append("<sym>")
                else:
                    spec = self.eval(v.format_spec, env) if v.format_spec is not None else ""
                    if v.conversion == ord("r"):
                        val = repr(val)
                    elif v.conversion == ord("s"):
                        val = str(val)
                    try:
                        parts.append(format(val, spec))
                    except Exception:
                        parts.append("<unformattable>")
        return "".join(parts)

    def e_FormattedValue(self, node, env):
        return format(self.eval(node.value, env))

    def e_Call(self, node, env):
        # zero-argument super()
        if isinstance(node.func, ast.Name) and node.func.id == "super" and not node.args and not node.keywords:
            fr = self.frames[-1]
            if fr.klass is None:
                raise EngineError("super() without __class__ cell")
            first = fr.closure.node.args.args[0].arg
            return _SuperProxy(self, fr.klass, fr.env.vars[first])
        f = self.eval(node.func, env)
        args = []
        for a in node.args:
            if isinstance(a, ast.Starred):
                args.extend(self.iterate_to_list(self.eval(a.value, env)))
            else:
                args.append(self.eval(a, env))
        kwargs = {}
        for k in node.keywords:
            if k.arg is None:
                kwargs.update(self.eval(k.value, env))
            else:
                kwargs[k.arg] = self.eval(k.value, env)
        return self.call_value(f, tuple(args), kwargs)

    def _comp(self, generators, env, emit):
        def rec(i, scope):
            if i == len(generators):
                emit(scope)
                return
            g = generators[i]
            for item in self.iterate(self.eval(g.iter, scope)):
                self._tick()
                self.assign(g.target, item, scope)
                if all(self.truth(self.eval(c, scope)) for c in g.ifs):
                    rec(i + 1, scope)

        rec(0, Env({}, env, env.globals))

    def e_ListComp(self, node, env):
        out = []
        self._comp(node.generators, env, lambda sc: out.append(self.eval(node.elt, sc)))
        return out

    def e_GeneratorExp(self, node, env):
        """Python semantics: the outermost iterable is evaluated now, everything else when the consumer asks for the next
        item (picosvg relies on this: _swap_elements(<genexp calling _unnest_svg>) inserts each result before the next
        _unnest_svg chooses its id)."""
        gens = node.generators
        first = self.iterate(self.eval(gens[0].iter, env))
        scope0 = Env({}, env, env.globals)

        def lazy():
            def rec(i, scope, it=None):
                g = gens[i]
                for item in (it if it is not None else self.iterate(self.eval(g.iter, scope))):
                    self._tick()
                    self.assign(g.target, item, scope)
                    if all(self.truth(self.eval(c, scope)) for c in g.ifs):
                        if i + 1 == len(gens):
                            yield self.eval(node.elt, scope)
                        else:
                            yield from rec(i + 1, scope)

            yield from rec(0, scope0, first)

        return lazy()

    def e_SetComp(self, node, env):
        out = []
        self._comp(node.generators, env, lambda sc: out.append(self.eval(node.elt, sc)))
        if contains_sym(out):
            raise EngineError("set comprehension with symbolic content")
        return set(out)

    def e_DictComp(self, node, env):
        out = {}

        def emit(sc):
            k = self.eval(node.key, sc)
            if is_sym(k):
                raise EngineError("symbolic dict key")
            out[k] = self.eval(node.value, sc)

        self._comp(node.generators, env, emit)
        return out

    def e_Yield(self, node, env):
        fr = self.frames[-1]
        fr.yields.append(self.eval(node.value, env) if node.value is not None else None)
        return None

    def e_YieldFrom(self, node, env):
        fr = self.frames[-1]
        fr.yields.extend(self.iterate_to_list(self.eval(node.value, env)))
        return None

    def e_NamedExpr(self, node, env):
        v = self.eval(node.value, env)
        env.vars[node.target.id] = v
        return v


class _NativeBound:
    """a model method bound to a symbolic receiver; called natively by the interpreter"""

    __pyvc_native__ = True

    def __init__(self, fn, obj):
        self.fn, self.obj = fn, obj

    def __call__(self, *a, **k):
        return self.fn(self.obj, *a, **k)


class _SuperProxy:
    __pyvc_abstract__ = False

    def __init__(self, interp, klass, obj):
        self._i = interp
        self._k = klass
        self._o = obj

    def __getattr__(self, name):
        mro = type(self._o).__mro__
        idx = mro.index(self._k)
        for k in mro[idx + 1 :]:
            if name in k.__dict__:
                v = k.__dict__[name]
                if isinstance(v, types.FunctionType):
                    return types.MethodType(v, self._o)
                return v.__get__(self._o, type(self._o))
        raise AttributeError(name)


def _static_lookup(cls, name):
    for k in cls.__mro__:
        if name in k.__dict__:
            return k.__dict__[name]
    return None


_PLUMBING_METHODS = {
    "append", "extend", "insert", "pop", "get", "items", "values", "keys", "update", "setdefault",
    "copy", "clear", "index", "count", "reverse", "__getitem__", "__setitem__", "popleft", "appendleft",
}
_PLUMBING_FUNCS = set()
