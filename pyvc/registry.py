"""Registry of obligations (deductive), static obligations and bounded stand-ins."""
from __future__ import annotations

from dataclasses import dataclass, field

OBLIGATIONS: list = []
COMPONENTS: list = []


@dataclass
class Ob:
    props: tuple
    name: str
    fn: object
    split: tuple | None = None  # (case name, options): one job per option
    tier: str = "quick"
    functions: tuple = ()  # dotted names of the repo functions this obligation puts under contract
    doc: str = ""
    any_of: tuple | None = None  # (case name, options): existential choice (e.g. role binding of loop variables)


def obligation(props, name, split=None, tier="quick", functions=(), any_of=None):
    if isinstance(props, str):
        props = (props,)

    def deco(fn):
        OBLIGATIONS.append(Ob(tuple(props), name, fn, split, tier, tuple(functions), (fn.__doc__ or "").strip(), any_of))
        return fn

    return deco


@dataclass
class Component:
    """A non-SMT part of a check: static obligation over the real AST, or a bounded stand-in."""

    props: tuple
    name: str
    kind: str  # "static" | "bounded"
    fn: object  # fn(tier, seed) -> ComponentResult
    tier: str = "quick"


@dataclass
class Finding:
    key: str  # stable identity of what fails (obligation + case / input)
    text: str
    replay: dict = field(default_factory=dict)
    confirmed: bool = True  # a failing input was run against the real code


@dataclass
class ComponentResult:
    obligations: int = 0
    discharged: int = 0
    evaluations: int = 0
    distinct_nontrivial: int = 0
    rule: str = ""
    samples: list = field(default_factory=list)
    findings: list = field(default_factory=list)  # list[Finding]
    undecided: list = field(default_factory=list)
    notes: list = field(default_factory=list)
    functions: list = field(default_factory=list)
    errors: list = field(default_factory=list)
    bound: str = ""
    backend: str = ""  # static components: which decision procedure discharged the obligations (default: the AST rules)


def component(props, name, kind, tier="quick"):
    if isinstance(props, str):
        props = (props,)

    def deco(fn):
        COMPONENTS.append(Component(tuple(props), name, kind, fn, tier))
        return fn

    return deco
