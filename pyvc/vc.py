"""Path contexts, the dual-mode harness and the path-exploration driver.

An *obligation* is a Python function ``ob(H)`` (a "path program"): it declares symbolic
inputs, calls real repository functions through ``H.call`` and states what must hold with
``H.prove``.  The driver re-executes it once per feasible path (decision oracle +
solver pruning).  The very same function runs natively on floats (``mode="concrete"``)
to replay counter-models against the real code and to cross-check the encoding.
"""
from __future__ import annotations

import math
import time
import traceback
import types
from dataclasses import dataclass, field

import z3

from . import solve
from .interp import Interp, is_repo_function
from .sym import (
    EngineError,
    SBool,
    SInt,
    SReal,
    SStr,
    StrSort,
    Sym,
    bool_z,
    contains_sym,
    is_sym,
    real_z,
)


def _is_zero(z):
    return z3.is_rational_value(z) and z.numerator_as_long() == 0


class PathInfeasible(BaseException):
    pass


class StopPath(BaseException):
    """Harness decided to stop exploring this path (e.g. after an expected exception)."""


@dataclass
class Instance:
    """One obligation instance = one H.prove on one path."""

    label: str
    cases: dict
    status: str  # proved | refuted | unknown | error | replay-pass | replay-fail
    backend: str = ""
    seconds: float = 0.0
    inputs: dict = field(default_factory=dict)
    detail: str = ""
    replay: dict | None = None


class PathCtx:
    def __init__(self, decisions, preset_cases=None):
        self.decisions = list(decisions)
        self.pos = 0
        self.pc: list = []
        self.axioms: list = []
        self.notes: list[str] = []
        self.new_work: list[list] = []
        self.trig_table = {}
        self.trig_args = {}
        self.fn_table = {}
        self.fn_args = {}
        self.inputs: dict[str, z3.ExprRef] = {}
        self.cases: dict[str, object] = {}
        self.preset_cases = dict(preset_cases or {})
        self.overrides: dict[int, object] = {}
        self.loop_hooks: list = []
        self.forks = 0
        from .sym import REAL2STR, STR2REAL

        self._str2real = STR2REAL
        self._real2str = REAL2STR

    # ---- branching -------------------------------------------------------------
    def all_facts(self):
        return self.axioms + self.pc

    def decide(self, cond) -> bool:
        cond = z3.simplify(cond)
        if z3.is_true(cond):
            return True
        if z3.is_false(cond):
            return False
        if self.pos < len(self.decisions):
            d = self.decisions[self.pos]
            self.pos += 1
            self.pc.append(cond if d else z3.Not(cond))
            return bool(d)
        facts = self.all_facts()
        can_t = solve.feasible(facts, [cond])
        can_f = solve.feasible(facts, [z3.Not(cond)])
        if not can_t and not can_f:
            raise PathInfeasible()
        if can_t and can_f:
            self.forks += 1
            self.new_work.append(self.decisions + [False])
            d = True
        else:
            d = can_t
        self.decisions.append(d)
        self.pos += 1
        self.pc.append(cond if d else z3.Not(cond))
        return d

    def case(self, name, options):
        options = list(options)
        if name in self.preset_cases:
            v = self.preset_cases[name]
            self.cases[name] = v
            return v
        if self.pos < len(self.decisions):
            i = self.decisions[self.pos]
            self.pos += 1
        else:
            i = 0
            for j in range(1, len(options)):
                self.new_work.append(self.decisions + [j])
            self.decisions.append(0)
            self.pos += 1
        self.cases[name] = options[i]
        return options[i]

    def assume(self, cond, note=None):
        if isinstance(cond, (bool, SBool)):
            cond = bool_z(cond)
        self.pc.append(cond)
        if note and note not in self.notes:
            self.notes.append(note)

    def axiom(self, cond, tag=""):
        self.axioms.append(cond)

    # ---- fresh symbols ---------------------------------------------------------
    def fresh_fn(self, name, sort, *args):
        """A function application f(args) as a constant, one per distinct (name, args)."""
        zargs = [z3.simplify(real_z(a)) for a in args]
        key = (name,) + tuple(z.sexpr() for z in zargs)
        hit = self.fn_table.get(key)
        if hit is not None:
            return hit
        # same arguments written differently: reuse the application when every difference simplifies to 0
        for (k2, zs2), v in self.fn_args.items():
            if k2 == name and len(zs2) == len(zargs):
                if all(_is_zero(z3.simplify(a - b, som=True)) for a, b in zip(zargs, zs2)):
                    self.fn_table[key] = v
                    return v
        n = len(self.fn_table)
        if sort == "int":
            v = SInt(z3.Int(f"{name}!{n}"))
        else:
            v = SReal(z3.Real(f"{name}!{n}"))
        self.fn_table[key] = v
        self.fn_args[(name, tuple(zargs))] = v
        return v

    def str_to_real(self, s: SStr) -> SReal:
        return SReal(self._str2real(s.z))

    def real_to_str(self, x) -> SStr:
        zx = real_z(x)
        s = SStr(self._real2str(zx))
        from .sym import str_const

        self.axiom(z3.And(self._str2real(s.z) == zx, s.z != str_const("")), "ntos.roundtrip_and_nonempty")
        return s

    def input(self, name, sort):
        if name in self.inputs:
            raise EngineError(f"duplicate input {name}")
        if sort == "real":
            c = z3.Real(name)
            v = SReal(c)
        elif sort == "int":
            c = z3.Int(name)
            v = SInt(c)
        elif sort == "bool":
            c = z3.Bool(name)
            v = SBool(c)
        elif sort == "str":
            c = z3.Const(name, StrSort)
            v = SStr(c)
        else:
            raise EngineError(sort)
        self.inputs[name] = c
        return v

    # ---- hooks -----------------------------------------------------------------
    def override_for(self, f):
        if not self.overrides:
            return None
        try:
            return self.overrides.get(id(f))
        except Exception:
            return None

    def while_hook(self, interp, node, env):
        for h in getattr(self, "while_hooks", ()):
            r = h(interp, node, env)
            if r is not None:
                return r
        return None

    def loop_hook(self, interp, node, it, env):
        for h in self.loop_hooks:
            r = h(interp, node, it, env)
            if r is not None:
                return r
        return None


def _close(a, b, tol=1e-7):
    if isinstance(a, (tuple, list)) and isinstance(b, (tuple, list)):
        return len(a) == len(b) and all(_close(x, y, tol) for x, y in zip(a, b))
    if isinstance(a, (int, float)) and isinstance(b, (int, float)) and not isinstance(a, bool) and not isinstance(b, bool):
        if math.isnan(a) or math.isnan(b):
            return False
        return abs(a - b) <= tol * (1 + max(abs(a), abs(b)))
    return a == b


def _positional(real, replacement):
    """A stand-in is written against the real function's signature; the real code may spell a call either way (a refactoring that
    switches a call site to keyword arguments, or back, must not change a verdict).  The call is put into ONE canonical form before the
    stand-in sees it: parameters without a default positionally, in order; parameters with a default by keyword."""
    import inspect

    try:
        sig = inspect.signature(real)
    except (TypeError, ValueError):
        return replacement
    params = list(sig.parameters.values())
    if any(p.kind in (p.VAR_POSITIONAL, p.VAR_KEYWORD) for p in params):
        return replacement

    def call(I, *args, **kwargs):
        try:
            ba = sig.bind(*args, **kwargs)
        except TypeError:
            return replacement(I, *args, **kwargs)  # let the stand-in (or Python) complain about the real mistake
        pos, kw, gap = [], {}, False
        for p in params:
            if p.name not in ba.arguments:
                gap = True
                continue
            v = ba.arguments[p.name]
            if p.kind is p.KEYWORD_ONLY or p.default is not p.empty or gap:
                kw[p.name] = v
            else:
                pos.append(v)
        try:
            return replacement(I, *pos, **kw)
        except TypeError as e:
            if "unexpected keyword argument" not in str(e):
                raise
            return replacement(I, *args, **kwargs)  # a stand-in with its own parameter names: hand the call over as it was spelled

    return call


class Harness:
    """What an obligation function sees.  mode: 'sym' or 'concrete'."""

    def __init__(self, mode, ctx=None, values=None, cases=None, sink=None):
        self.mode = mode
        self.ctx = ctx
        self.values = values or {}
        self.fixed_cases = cases or {}
        self.sink = sink if sink is not None else []
        self.interp = Interp(ctx) if mode == "sym" else None
        self.covered: set[str] = set()
        self.native_overrides: list = []
        self.used_inputs: dict = {}

    # ---- inputs ----------------------------------------------------------------
    def _inp(self, name, sort, default):
        if self.mode == "sym":
            return self.ctx.input(name, sort)
        v = self.values.get(name, default)
        self.used_inputs[name] = v
        return v

    def real(self, name):
        v = self._inp(name, "real", 0.0)
        return float(v) if self.mode == "concrete" else v

    def int(self, name):
        v = self._inp(name, "int", 0)
        return int(v) if self.mode == "concrete" else v

    def bool(self, name):
        v = self._inp(name, "bool", False)
        return bool(v) if self.mode == "concrete" else v

    def str(self, name):
        return self._inp(name, "str", "")

    def reals(self, prefix, n):
        return tuple(self.real(f"{prefix}{i}") for i in range(n))

    def case(self, name, options):
        options = list(options)
        if self.mode == "sym":
            return self.ctx.case(name, options)
        if name in self.fixed_cases:
            v = self.fixed_cases[name]
            # JSON round trips turn tuples into lists
            for o in options:
                if o == v or (isinstance(o, tuple) and list(o) == v):
                    return o
            return v
        return options[0]

    # ---- assumptions / obligations ------------------------------------------------
    def assume(self, cond, note=None):
        if self.mode == "sym":
            if isinstance(cond, bool):
                if not cond:
                    raise PathInfeasible()
                return
            self.ctx.assume(cond, note)
            if not solve.feasible(self.ctx.all_facts()):
                raise PathInfeasible()
        else:
            if not cond:
                raise PathInfeasible()

    def close(self, a, b, tol=1e-7):
        """Equality: exact on reals, tolerant on floats (native replay)."""
        if self.mode == "sym":
            return self.interp.eq(a, b)
        return _close(a, b, tol)

    def truth(self, v):
        """Fork on a (possibly symbolic) condition inside harness code."""
        if self.mode == "sym":
            return self.interp.truth(v)
        return bool(v)

    def cover(self, label):
        self.covered.add(label)

    def prove(self, cond, label, detail=""):
        self.cover(label)
        if self.mode == "concrete":
            ok = bool(cond)
            self.sink.append(Instance(label, dict(self.fixed_cases), "replay-pass" if ok else "replay-fail", detail=detail))
            return ok
        ctx = self.ctx
        if isinstance(cond, bool):
            if cond:
                self.sink.append(Instance(label, dict(ctx.cases), "proved", "trivial", 0.0))
                return True
            goal = z3.BoolVal(False)
        else:
            goal = bool_z(cond)
        solve.CURRENT_LABEL = label
        v = solve.prove(ctx.all_facts(), goal, generic_inputs=list(ctx.inputs.values()))
        inputs = {}
        if v.status == "refuted" and v.model is not None:
            for name, c in ctx.inputs.items():
                inputs[name] = solve.model_value(v.model, c)
        elif v.status == "unknown":
            inputs = {name: None for name in ctx.inputs}
        self.sink.append(
            Instance(label, dict(ctx.cases), v.status, v.backend, v.seconds, inputs, detail or (v.reason if v.status == "unknown" else ""))
        )
        return v.status == "proved"

    def prove_raw(self, facts, goal, label, detail=""):
        """Discharge a goal against an explicit fact list (used when a proof hides definitions on purpose:
        dropping facts only weakens the hypotheses, so a `proved` verdict stays sound)."""
        self.cover(label)
        solve.CURRENT_LABEL = label
        v = solve.prove(list(facts), bool_z(goal), generic_inputs=list(self.ctx.inputs.values()))
        inputs = {}
        if v.status == "refuted" and v.model is not None:
            for name, c in self.ctx.inputs.items():
                inputs[name] = solve.model_value(v.model, c)
        elif v.status == "unknown":
            inputs = {name: None for name in self.ctx.inputs}
        self.sink.append(Instance(label, dict(self.ctx.cases), v.status, v.backend, v.seconds, inputs, detail or (v.reason if v.status == "unknown" else "")))
        return v.status == "proved"

    def canary(self, cond, label):
        """Vacuity guard: `cond` must NOT be provable here (e.g. a bound tighter than the real one)."""
        if self.mode == "concrete":
            return True
        v = solve.prove(self.ctx.all_facts(), bool_z(cond), fallbacks=False)
        ok = v.status == "refuted"
        self.sink.append(Instance(label, dict(self.ctx.cases), "proved" if ok else "error", "canary:" + v.backend, v.seconds,
                                  detail="" if ok else f"canary was expected to be refutable but solver said {v.status}"))
        return ok

    def unreachable(self, label, detail=""):
        return self.prove(False, label, detail)

    # ---- running real code ------------------------------------------------------
    def call(self, fn, *args, **kwargs):
        if self.mode == "sym":
            return self.interp.call_value(fn, args, kwargs)
        return fn(*args, **kwargs)

    def catch(self, fn, *args, **kwargs):
        """-> (value, None) or (None, exception)."""
        try:
            return self.call(fn, *args, **kwargs), None
        except Exception as e:  # engine signals are BaseException
            return None, e

    def override(self, fn, replacement):
        """Modular call: while interpreting, calls of `fn` go to `replacement(interp, *args)`."""
        if self.mode == "sym":
            f = fn.__func__ if isinstance(fn, types.MethodType) else fn
            self.ctx.overrides[id(f)] = _positional(f, replacement)

    def capture_args(self, owner, name, run, result=None):
        """Run `run()` with `owner.name` replaced by a recorder; -> list of (args, kwargs) it was called with.

        Used to get hold of callbacks that the real code creates as nested functions (e.g. the
        closures handed to SVGPath.walk) so that they can be put under contract on their own."""
        calls = []
        target = owner.__dict__[name] if isinstance(owner, type) else getattr(owner, name)
        if self.mode == "sym":
            f = target.__func__ if isinstance(target, (staticmethod, classmethod)) else target

            def rec(I, *a, **k):
                calls.append((a, k))
                return result(*a, **k) if callable(result) else result

            self.ctx.overrides[id(f)] = rec
            try:
                run()
            finally:
                del self.ctx.overrides[id(f)]
        else:
            def rec(*a, **k):
                calls.append((a, k))
                return result(*a, **k) if callable(result) else result

            setattr(owner, name, rec)
            try:
                run()
            finally:
                setattr(owner, name, target)
        return calls

    def trig(self, x):
        if self.mode == "sym":
            return self.interp.trig(x)
        return (math.sin(x), math.cos(x))

    # sound axioms of real sin/cos, instantiated on request (DESIGN 3.2)
    def trig_sum(self, a, b):
        """relate trig(a+b) to trig(a), trig(b)"""
        if self.mode != "sym":
            return
        (sa, ca), (sb, cb), (ss, cs) = self.trig(a), self.trig(b), self.trig(a + b)
        self.ctx.axiom(z3.And(ss.z == sa.z * cb.z + ca.z * sb.z, cs.z == ca.z * cb.z - sa.z * sb.z), "trig.addition")

    def trig_neg(self, a):
        if self.mode != "sym":
            return
        (sa, ca), (sn, cn) = self.trig(a), self.trig(-a)
        self.ctx.axiom(z3.And(sn.z == -sa.z, cn.z == ca.z), "trig.negation")

    def trig_period(self, a, k=1):
        if self.mode != "sym":
            return
        from .sym import PI as _PI

        (sa, ca), (sp, cp) = self.trig(a), self.trig(a + SReal(2 * k * _PI))
        self.ctx.axiom(z3.And(sp.z == sa.z, cp.z == ca.z), "trig.period")

    @property
    def PI(self):
        from .sym import PI

        return SReal(PI) if self.mode == "sym" else math.pi


@dataclass
class ObligationReport:
    name: str
    prop: str
    instances: list
    paths: int = 0
    infeasible: int = 0
    errors: list = field(default_factory=list)
    notes: list = field(default_factory=list)
    functions: dict = field(default_factory=dict)
    covered: list = field(default_factory=list)
    seconds: float = 0.0


MAX_UNKNOWN_PER_JOB = 4


def explore(ob_fn, name, prop, preset_cases=None, max_paths=20000) -> ObligationReport:
    t0 = time.time()
    rep = ObligationReport(name, prop, [])
    work = [[]]
    covered = set()
    while work:
        decisions = work.pop()
        rep.paths += 1
        if rep.paths > max_paths:
            rep.errors.append(f"path budget {max_paths} exhausted")
            break
        ctx = PathCtx(decisions, preset_cases)
        H = None
        try:
            H = Harness("sym", ctx, sink=rep.instances)
            ob_fn(H)
        except PathInfeasible:
            rep.infeasible += 1
        except StopPath:
            pass
        except EngineError as e:
            rep.errors.append(f"EngineError on cases={ctx.cases}: {e}")
        except z3.Z3Exception as e:
            rep.errors.append(f"Z3Exception on cases={ctx.cases}: {e}")
        except Exception as e:
            # an exception escaping the harness itself (not caught by H.catch) is an engine/harness error
            tb = traceback.format_exc(limit=6)
            rep.errors.append(f"uncaught {type(e).__name__} on cases={ctx.cases}: {e}\n{tb}")
        work.extend(ctx.new_work)
        if sum(1 for i in rep.instances if i.status == "unknown") > MAX_UNKNOWN_PER_JOB:
            rep.instances.append(Instance("exploration.stopped", {}, "unknown", detail=f"more than {MAX_UNKNOWN_PER_JOB} undecided obligations in this job: exploration stopped (undecided, not a verdict)"))
            break
        for n in ctx.notes:
            if n not in rep.notes:
                rep.notes.append(n)
        if H is not None:
            covered |= H.covered
            if H.interp is not None:
                for q in H.interp.call_trace:
                    rep.functions[q] = rep.functions.get(q, 0) + 1
    rep.covered = sorted(covered)
    rep.seconds = time.time() - t0
    return rep


def replay_native(ob_fn, inst: Instance):
    """Run the harness natively on the counter-model; -> (reproduced?, detail)."""
    sink = []
    H = Harness("concrete", None, values=inst.inputs, cases=inst.cases, sink=sink)
    try:
        ob_fn(H)
    except PathInfeasible:
        return False, "model does not satisfy the harness assumptions natively"
    except StopPath:
        pass
    except Exception as e:
        return False, f"native run raised {type(e).__name__}: {e}"
    for r in sink:
        if r.label == inst.label and r.status == "replay-fail":
            return True, r.detail
    return False, "obligation holds natively on this model (float gap or spurious model)"


def falsify_natively(ob_fn, inst: Instance, seed=0, tries=60):
    """An obligation the solvers left undecided: look for a failing input by running the harness natively on sampled
    inputs (same case choices).  A hit is a violation confirmed on the real code; a miss leaves it undecided."""
    import random

    rnd = random.Random(f"{seed}:{inst.label}:{sorted(inst.cases.items(), key=str)}")
    names = list(inst.inputs)
    for t in range(tries):
        vals = {}
        for n in names:
            kind = rnd.random()
            if kind < 0.1:
                v = rnd.choice([1e-7, 3e-9, -2e-8, 1e-05, 5e-10])
            elif kind < 0.35:
                v = float(rnd.randint(-9, 9))
            elif kind < 0.7:
                v = rnd.choice([-1, 1]) * rnd.choice([0.25, 0.5, 1.5, 2.75, 7.0, 12.5, 33.0, 100.0, 181.0, 275.0, 359.5, 400.0])
            else:
                v = rnd.uniform(-400, 400)
            vals[n] = v
        probe = Instance(inst.label, inst.cases, "refuted", inputs=vals)
        ok, detail = replay_native(ob_fn, probe)
        if ok:
            return vals, detail
    return None, ""


class _Sampler(dict):
    """input values for a native run, drawn when the harness asks for them"""

    def __init__(self, rnd):
        super().__init__()
        self.rnd = rnd

    def get(self, name, default=None):
        if name not in self:
            r, kind = self.rnd, self.rnd.random()
            if isinstance(default, bool):
                v = r.random() < 0.5
            elif isinstance(default, int) and not isinstance(default, bool):
                v = r.choice([0, 1, 2, 3, 6, 9])
            elif isinstance(default, str):
                v = default
            elif kind < 0.1:
                v = r.choice([1e-7, 3e-9, -2e-8, 1e-05, 5e-10, 1e-10])
            elif kind < 0.35:
                v = float(r.randint(-9, 9))
            elif kind < 0.7:
                v = r.choice([-1, 1]) * r.choice([0.25, 0.5, 1.5, 2.75, 7.0, 12.5, 33.0, 100.0, 181.0, 275.0, 359.5, 400.0, 1000.0])
            else:
                v = r.uniform(-400, 400)
            self[name] = v
        return self[name]


def native_fallback(ob_fn, case_sets, seed=0, tries=40):
    """The interpreter could not execute the code (a construct it does not model).  Run the harness natively instead, on sampled
    inputs, for the given case combinations: a failing `prove` is a violation witnessed on the real code; finding none decides
    nothing.  -> list of (label, cases, inputs, detail)"""
    import random

    hits, seen = [], set()
    for cases in case_sets or [{}]:
        rnd = random.Random(f"{seed}:{sorted(cases.items(), key=str)}")
        for _ in range(tries):
            sink, vals = [], _Sampler(rnd)
            H = Harness("concrete", None, values=vals, cases=cases, sink=sink)
            try:
                ob_fn(H)
            except (PathInfeasible, StopPath):
                pass
            except Exception:  # noqa - a native crash of the harness is not a verdict
                break
            for r in sink:
                if r.status == "replay-fail" and (r.label, str(sorted(cases.items(), key=str))) not in seen:
                    seen.add((r.label, str(sorted(cases.items(), key=str))))
                    hits.append((r.label, dict(cases), dict(vals), r.detail))
            if hits and len(seen) >= 3:
                break
    return hits
