"""Models of builtins / stdlib functions for symbolic arguments (assumed contracts 3.1, 3.2).

With concrete arguments every function here falls back to the native implementation.
"""
from __future__ import annotations

import copy
import dataclasses
import functools
import itertools
import math
import numbers
import operator

import z3

from .sym import (
    EngineError,
    PI,
    SBool,
    SInt,
    SReal,
    SStr,
    Sym,
    Ite,
    contains_sym,
    is_sym,
    real_z,
    smax,
)


def _key(z):
    return z3.simplify(z).sexpr()


def build_models(I):
    ctx = I.ctx
    M = {}

    def sym_any(*xs):
        return any(is_sym(x) for x in xs)

    # ---------------------------------------------------------------- numbers
    def m_abs(x):
        if is_sym(x):
            return abs(x)
        return abs(x)

    def m_max(*args, **kw):
        return _minmax(args, kw, True)

    def m_min(*args, **kw):
        return _minmax(args, kw, False)

    def _minmax(args, kw, is_max):
        if len(args) == 1:
            args = tuple(I.iterate_to_list(args[0]))
        if not contains_sym(args):
            return (max if is_max else min)(*args, **kw)
        if kw:
            raise EngineError("max/min with key on symbolic values")
        if not args:
            raise ValueError("max()/min() arg is an empty sequence")
        r = args[0]
        for a in args[1:]:
            if is_max:
                c = a > r  # python: later element wins only if strictly greater
            else:
                c = a < r
            if isinstance(c, bool):
                r = a if c else r
            else:
                r = Ite(c, a, r)
        return r

    def m_round(x, ndigits=None):
        if not sym_any(x, ndigits):
            return round(x, ndigits) if ndigits is not None else round(x)
        if is_sym(ndigits):
            raise EngineError("round() with symbolic ndigits: case-split it in the harness")
        if isinstance(x, SInt):
            return x
        if ndigits is None:
            k = ctx.fresh_fn("round0", "int", x)
            ctx.axiom(z3.And(z3.ToReal(k.z) - real_z(x) <= z3.RealVal("1/2"), real_z(x) - z3.ToReal(k.z) <= z3.RealVal("1/2")), "round.nearest")
            return k
        u = z3.RealVal(10) ** (-ndigits) if ndigits < 0 else z3.RealVal(f"1/{10 ** ndigits}")
        r = ctx.fresh_fn(f"round{ndigits}", "real", x)
        k = ctx.fresh_fn(f"roundk{ndigits}", "int", x)
        ctx.axiom(
            z3.And(r.z == z3.ToReal(k.z) * u, r.z - real_z(x) <= u / 2, real_z(x) - r.z <= u / 2),
            "round.nearest_on_grid",
        )
        return r

    def m_float(x=0.0):
        if isinstance(x, SReal):
            return x
        if isinstance(x, SInt):
            return SReal(z3.ToReal(x.z))
        if isinstance(x, SBool):
            return SReal(real_z(x))
        if isinstance(x, SStr):
            return ctx.str_to_real(x)
        h = getattr(x, "__pyvc_float__", None)
        if h is not None:
            return h(I)
        return float(x)

    def m_int(x=0, *a):
        if isinstance(x, SInt):
            return x
        if isinstance(x, SBool):
            return SInt(z3.If(x.z, z3.IntVal(1), z3.IntVal(0)))
        if isinstance(x, SReal):
            # truncation toward zero
            k = ctx.fresh_fn("trunc", "int", x)
            zx = x.z
            ctx.axiom(
                z3.And(
                    z3.Implies(zx >= 0, z3.And(z3.ToReal(k.z) <= zx, zx < z3.ToReal(k.z) + 1)),
                    z3.Implies(zx < 0, z3.And(z3.ToReal(k.z) >= zx, zx > z3.ToReal(k.z) - 1)),
                ),
                "int.trunc",
            )
            return k
        if isinstance(x, SStr):
            raise EngineError("int() of symbolic string")
        h = getattr(x, "__pyvc_int__", None)
        if h is not None:
            return h(I)
        return int(x, *a)

    def m_bool(x=False):
        return I.truth(x)

    def m_str(x=""):
        if is_sym(x):
            if isinstance(x, SStr):
                return x
            raise EngineError("str() of a symbolic number (model ntos instead)")
        h = getattr(x, "__pyvc_str__", None)
        if h is not None:
            return h(I)
        if contains_sym(x):
            raise EngineError(f"str() of {type(x).__name__} with symbolic content")
        return str(x)

    def m_pow(x, n, *a):
        if not sym_any(x, n):
            return pow(x, n, *a)
        if is_sym(n) or not isinstance(n, int) or n < 0:
            raise EngineError("pow with symbolic/negative/non-integer exponent")
        r = 1
        for _ in range(n):
            r = r * x
        return r

    M[abs] = m_abs
    M[max] = m_max
    M[min] = m_min
    M[round] = m_round
    M[float] = m_float
    M[int] = m_int
    M[bool] = m_bool
    M[str] = m_str
    M[pow] = m_pow
    M[math.pow] = m_pow

    # ---------------------------------------------------------------- math
    def trig(x):
        """(sin x, cos x) as a pair of reals tied by the Pythagorean identity and sign facts."""
        zx = z3.simplify(real_z(x))
        k = _key(zx)
        hit = ctx.trig_table.get(k)
        if hit is not None:
            return hit
        # the same angle written differently (e.g. a + (i+1)*d - ... ): reuse the symbols when the difference
        # simplifies to 0, so that spec and code talk about the same sin/cos
        for k2, arg in ctx.trig_args.items():
            diff = z3.simplify(arg - zx, som=True)
            if z3.is_rational_value(diff) and diff.numerator_as_long() == 0:
                ctx.trig_table[k] = ctx.trig_table[k2]
                return ctx.trig_table[k2]
        n = len(ctx.trig_table)
        n = len(ctx.trig_args)
        s = z3.Real(f"sin!{n}")
        c = z3.Real(f"cos!{n}")
        ctx.trig_table[k] = (SReal(s), SReal(c))
        ctx.trig_args[k] = zx
        ax = [s * s + c * c == 1]
        if z3.is_rational_value(zx):
            if zx.numerator_as_long() == 0:
                ax += [s == 0, c == 1]
        ax += [
            z3.Implies(zx == 0, z3.And(s == 0, c == 1)),
            z3.Implies(z3.And(zx > 0, zx < PI), s > 0),
            z3.Implies(z3.And(zx < 0, zx > -PI), s < 0),
            z3.Implies(z3.And(zx > PI, zx < 2 * PI), s < 0),
            z3.Implies(z3.And(zx < -PI, zx > -2 * PI), s > 0),
            z3.Implies(z3.And(zx > -PI / 2, zx < PI / 2), c > 0),
            z3.Implies(z3.Or(z3.And(zx > PI / 2, zx < 3 * PI / 2), z3.And(zx < -PI / 2, zx > -3 * PI / 2)), c < 0),
            z3.Implies(z3.Or(zx == PI / 2), z3.And(s == 1, c == 0)),
            z3.Implies(z3.Or(zx == -PI / 2), z3.And(s == -1, c == 0)),
            z3.Implies(z3.Or(zx == PI, zx == -PI), z3.And(s == 0, c == -1)),
        ]
        ctx.axiom(z3.And(*ax), "trig.pythagoras_and_signs")
        return ctx.trig_table[k]

    I.trig = trig

    def m_sin(x):
        return trig(x)[0] if is_sym(x) else math.sin(x)

    def m_cos(x):
        return trig(x)[1] if is_sym(x) else math.cos(x)

    def m_tan(x):
        if not is_sym(x):
            return math.tan(x)
        s, c = trig(x)
        t = ctx.fresh_fn("tan", "real", x)
        # tan is defined where cos != 0; CPython returns a huge float there instead of failing
        ctx.assume(c.z != 0, note="math.tan argument is not an odd multiple of pi/2 (reals: undefined there)")
        ctx.axiom(t.z * c.z == s.z, "tan.def")
        return t

    def m_sqrt(x):
        if not is_sym(x):
            return math.sqrt(x)
        if ctx.decide((x < 0).z):
            raise ValueError("math domain error")
        r = ctx.fresh_fn("sqrt", "real", x)
        ctx.axiom(z3.And(r.z >= 0, r.z * r.z == real_z(x)), "sqrt.def")
        return r

    def m_hypot(*xs):
        if not sym_any(*xs):
            return math.hypot(*xs)
        sq = None
        for x in xs:
            sq = x * x if sq is None else sq + x * x
        r = ctx.fresh_fn("sqrt", "real", sq)
        ctx.axiom(z3.And(r.z >= 0, r.z * r.z == real_z(sq)), "hypot.def")
        return r

    def m_atan2(y, x):
        if not sym_any(x, y):
            return math.atan2(y, x)
        th = ctx.fresh_fn("atan2", "real", y, x)
        rho = ctx.fresh_fn("atan2rho", "real", y, x)
        s, c = trig(th)
        zx, zy = real_z(x), real_z(y)
        zero = z3.And(zx == 0, zy == 0)
        ctx.axiom(
            z3.And(
                th.z > -PI,
                th.z <= PI,
                z3.Implies(zero, th.z == 0),
                z3.Implies(z3.Not(zero), z3.And(rho.z > 0, zx == rho.z * c.z, zy == rho.z * s.z, rho.z * rho.z == zx * zx + zy * zy)),
            ),
            "atan2.def",
        )
        return th

    def m_radians(x):
        if not is_sym(x):
            return math.radians(x)
        return SReal(z3.simplify(real_z(x) * PI / 180))

    def m_degrees(x):
        if not is_sym(x):
            return math.degrees(x)
        return SReal(z3.simplify(real_z(x) * 180 / PI))

    def m_fabs(x):
        if not is_sym(x):
            return math.fabs(x)
        return abs(SReal(real_z(x)))

    def m_ceil(x):
        if not is_sym(x):
            return math.ceil(x)
        if isinstance(x, SInt):
            return x
        k = ctx.fresh_fn("ceil", "int", x)
        ctx.axiom(z3.And(z3.ToReal(k.z) - 1 < x.z, x.z <= z3.ToReal(k.z)), "ceil.def")
        return k

    def m_floor(x):
        if not is_sym(x):
            return math.floor(x)
        if isinstance(x, SInt):
            return x
        k = ctx.fresh_fn("floor", "int", x)
        ctx.axiom(z3.And(z3.ToReal(k.z) <= x.z, x.z < z3.ToReal(k.z) + 1), "floor.def")
        return k

    def m_isfinite(x):
        if not is_sym(x):
            return math.isfinite(x)
        return True  # reals are finite (2.2)

    M[math.sin] = m_sin
    M[math.cos] = m_cos
    M[math.tan] = m_tan
    M[math.sqrt] = m_sqrt
    M[math.hypot] = m_hypot
    M[math.atan2] = m_atan2
    M[math.radians] = m_radians
    M[math.degrees] = m_degrees
    M[math.fabs] = m_fabs
    M[math.ceil] = m_ceil
    M[math.floor] = m_floor
    M[math.isfinite] = m_isfinite

    def m_isclose(a, b, *, rel_tol=1e-09, abs_tol=0.0):
        """math.isclose: |a - b| <= max(rel_tol * max(|a|, |b|), abs_tol)"""
        if not sym_any(a, b, rel_tol, abs_tol):
            return math.isclose(a, b, rel_tol=rel_tol, abs_tol=abs_tol)
        d, ma, mb = m_fabs(a - b), m_fabs(a), m_fabs(b)
        big = smax(ma, mb)
        return d <= smax(rel_tol * big, abs_tol)

    M[math.isclose] = m_isclose

    # ---------------------------------------------------------------- reflection
    def m_isinstance(v, T):
        Ts = T if isinstance(T, tuple) else (T,)
        if isinstance(v, Sym):
            for t in Ts:
                if isinstance(v, SReal) and t in (float, numbers.Number, numbers.Real, numbers.Complex, object):
                    return True
                if isinstance(v, SInt) and t in (int, numbers.Number, numbers.Real, numbers.Integral, numbers.Rational, numbers.Complex, object):
                    return True
                if isinstance(v, SBool) and t in (bool, int, numbers.Number, object):
                    return True
                if isinstance(v, SStr) and t in (str, object):
                    return True
            return False
        h = getattr(v, "__pyvc_isinstance__", None)
        if h is not None:
            r = h(Ts)
            if r is not None:
                return r
        return isinstance(v, T)

    def m_getattr(obj, name, *default):
        try:
            return I.getattr_(obj, name)
        except AttributeError:
            if default:
                return default[0]
            raise

    def m_setattr(obj, name, value):
        I.setattr_(obj, name, value)

    def m_hasattr(obj, name):
        try:
            I.getattr_(obj, name)
            return True
        except AttributeError:
            return False

    def m_len(x):
        h = getattr(x, "__pyvc_len__", None)
        if h is not None:
            return h(I)
        if is_sym(x):
            raise EngineError("len() of symbolic value")
        return len(x)

    M[isinstance] = m_isinstance
    M[getattr] = m_getattr
    M[setattr] = m_setattr
    M[hasattr] = m_hasattr
    M[len] = m_len
    M[callable] = lambda f: True if hasattr(f, "node") else callable(f)

    # ---------------------------------------------------------------- iteration plumbing
    def _it(x):
        if isinstance(x, (list, tuple, dict, str, range)):
            return x
        if _is_repo_iterable(x):
            x = I.call_value(type(x).__iter__, (x,), {})
        if getattr(x, "__pyvc_absseq__", False):
            return x  # abstract sequence: only a loop with a contract may consume it
        if hasattr(x, "__pyvc_iter__"):
            return I.iterate_to_list(x)
        return x

    def _is_repo_iterable(x):
        return type(x).__module__.startswith("picosvg") and not isinstance(x, tuple) and hasattr(type(x), "__iter__")

    M[tuple] = lambda x=(): tuple(_it(x))
    M[list] = lambda x=(): list(_it(x))
    M[iter] = lambda x, *a: iter(_it(x), *a)
    M[zip] = lambda *xs, **kw: zip(*[_it(x) for x in xs], **kw)
    M[enumerate] = lambda x, start=0: enumerate(_it(x), start)
    M[reversed] = lambda x: reversed(_it(x) if isinstance(_it(x), (list, tuple, range, dict)) else list(_it(x)))
    M[itertools.zip_longest] = lambda *xs, **kw: itertools.zip_longest(*[_it(x) for x in xs], **kw)
    M[itertools.islice] = lambda x, *a: itertools.islice(_it(x), *a)
    M[itertools.chain] = lambda *xs: itertools.chain(*[_it(x) for x in xs])

    def m_next(it, *default):
        return next(it, *default)

    M[next] = m_next

    def m_any(xs):
        for x in I.iterate(_it(xs)):
            if I.truth(x):
                return True
        return False

    def m_all(xs):
        for x in I.iterate(_it(xs)):
            if not I.truth(x):
                return False
        return True

    def m_sum(xs, start=0):
        import ast as _ast

        acc = start
        for x in I.iterate(_it(xs)):
            acc = I.binop(_ast.Add(), acc, x)
        return acc

    def m_sorted(xs, **kw):
        xs = list(I.iterate(_it(xs)))
        key = kw.get("key")
        if key is not None:
            # the order depends on the keys only: evaluate them through the interpreter; concrete keys give a concrete order
            keys = [I.call_value(key, (x,), {}) for x in xs]
            if contains_sym(keys):
                raise EngineError("sorted() with symbolic keys")
            order = sorted(range(len(xs)), key=lambda i: keys[i], reverse=bool(kw.get("reverse", False)))
            return [xs[i] for i in order]
        if contains_sym(xs):
            raise EngineError("sorted() on symbolic values")
        return sorted(xs, **kw)

    def m_reduce(fn, xs, *init):
        it = iter(I.iterate_to_list(_it(xs)))
        if init:
            acc = init[0]
        else:
            try:
                acc = next(it)
            except StopIteration:
                raise TypeError("reduce() of empty iterable with no initial value")
        for x in it:
            acc = I.call_value(fn, (acc, x), {})
        return acc

    def m_map(fn, *xs):
        return iter([I.call_value(fn, tuple(a), {}) for a in zip(*[I.iterate_to_list(_it(x)) for x in xs])])

    def m_filter(fn, xs):
        return iter([x for x in I.iterate_to_list(_it(xs)) if I.truth(x if fn is None else I.call_value(fn, (x,), {}))])

    M[any] = m_any
    M[all] = m_all
    M[sum] = m_sum
    M[sorted] = m_sorted
    M[functools.reduce] = m_reduce
    M[map] = m_map
    M[filter] = m_filter

    import ast as _ast

    M[operator.matmul] = lambda a, b: I.binop(_ast.MatMult(), a, b)
    M[operator.add] = lambda a, b: I.binop(_ast.Add(), a, b)
    M[operator.sub] = lambda a, b: I.binop(_ast.Sub(), a, b)
    M[operator.mul] = lambda a, b: I.binop(_ast.Mult(), a, b)

    # ---------------------------------------------------------------- copying / dataclasses
    def deep(v, memo=None):
        if memo is None:
            memo = {}
        if isinstance(v, (Sym, str, bytes, int, float, bool, type(None), type)) or callable(v) and not hasattr(v, "__dict__"):
            return v
        if id(v) in memo:
            return memo[id(v)]
        h = getattr(v, "__pyvc_copy__", None)
        if h is not None:
            r = h()
        elif isinstance(v, tuple):
            items = [deep(x, memo) for x in v]
            r = type(v)(*items) if hasattr(v, "_fields") else tuple(items)
        elif isinstance(v, list):
            r = []
            memo[id(v)] = r
            r.extend(deep(x, memo) for x in v)
        elif isinstance(v, dict):
            r = {}
            memo[id(v)] = r
            for k, x in v.items():
                r[k] = deep(x, memo)
        elif isinstance(v, (set, frozenset)):
            r = type(v)(v)
        elif type(v).__module__.startswith("picosvg") and hasattr(v, "__dict__"):
            r = object.__new__(type(v))
            memo[id(v)] = r
            for k, x in v.__dict__.items():
                object.__setattr__(r, k, deep(x, memo))
        else:
            if contains_sym(v):
                raise EngineError(f"deepcopy of {type(v).__name__} with symbolic content")
            r = copy.deepcopy(v)
        memo[id(v)] = r
        return r

    M[copy.deepcopy] = lambda v, memo=None: deep(v)
    I.deepcopy = deep

    def m_copy(v):
        if isinstance(v, dict):
            return dict(v)
        if isinstance(v, list):
            return list(v)
        if contains_sym(v):
            return deep(v)
        return copy.copy(v)

    M[copy.copy] = m_copy

    def m_astuple(obj):
        return tuple(getattr(obj, f.name) for f in dataclasses.fields(obj))

    def m_replace(obj, **changes):
        for f in dataclasses.fields(obj):
            if f.init and f.name not in changes:
                changes[f.name] = getattr(obj, f.name)
        return I.instantiate(type(obj), (), changes)

    M[dataclasses.astuple] = m_astuple
    M[dataclasses.replace] = m_replace
    M[dataclasses.fields] = dataclasses.fields
    M[dataclasses.is_dataclass] = dataclasses.is_dataclass
    M[type] = lambda *a: type(*a) if len(a) != 1 else (a[0].__pyvc_type__ if hasattr(a[0], "__pyvc_type__") else type(a[0]))
    M[id] = id
    M[print] = lambda *a, **k: None

    return M
