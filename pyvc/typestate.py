"""C15 typestate obligations for picosvg.svg.SVG over the real AST (DESIGN appendix B).

Abstract document A(S) = tree with every cached entry replaced by to_element(shapes).
Cache state: SYNCED (nothing cached) / CLEAN (loaded, unedited) / DIRTY (may hold edits).
Every public method is analysed from entry state DIRTY, all CFG paths, helpers by summary.

Obligations (named, one instance per method and rule):
  flush-before-tree   a method that writes the tree touches it (read or write) only when not DIRTY
  invalidate-after    a structural tree write while the cache is loaded is followed by `self.elements = None`
                      before the method returns or loads the cache again
  clone-flushed       the tree is deep-copied only when not DIRTY
  returns-self        every return of an in-place region returns `self`
  returns-copy        the copy region returns the object it operated on and never touches `self`'s tree
"""
from __future__ import annotations

import ast
from dataclasses import dataclass, field

SYNCED, CLEAN, DIRTY = "SYNCED", "CLEAN", "DIRTY"

# calls that structurally change the tree when applied to tree nodes
_TREE_WRITE_METHODS = {"remove", "append", "insert", "replace", "addnext", "addprevious", "extend", "clear"}
_TREE_WRITE_FUNCS = {"_safe_remove", "_replace_el", "_try_remove_group", "_del_attrs", "_inherit_attrib", "_copy_new_nsmap", "_fix_xlink_ns"}
_SELF_TREE_WRITE = {"_swap_elements", "_apply_styles", "_add_to_defs", "_apply_gradient_translation", "_apply_gradient_template", "_transformed_gradient", "_unnest_svg"}
_SELF_TREE_READ = {"xpath", "xpath_one", "resolve_url", "depth_first", "breadth_first", "_traverse", "view_box", "_select_gradients", "_new_id", "_iter_nested_svgs", "_resolve_clip_path", "_default_tolerance"}
_PURE_QUERIES = {"xpath", "xpath_one", "resolve_url", "depth_first", "breadth_first", "_traverse", "view_box", "_default_tolerance", "tolerance", "_select_gradients", "_new_id", "_iter_nested_svgs"}


@dataclass
class Failure:
    method: str
    rule: str
    line: int
    text: str


@dataclass
class Summary:
    requires_not_dirty: bool = False  # touches the tree before any flush
    flushes_first: bool = False
    exit_states: frozenset = frozenset()
    writes_tree: bool = False
    reads_tree: bool = False
    loads: bool = False
    edits: bool = False


@dataclass
class _Ctx:
    method: str
    failures: list
    writes_tree: bool
    summaries: dict
    obligations: list = field(default_factory=list)


def _is_self_attr(node, name=None):
    return isinstance(node, ast.Attribute) and isinstance(node.value, ast.Name) and node.value.id == "self" and (name is None or node.attr == name)


def _calls(node):
    for n in ast.walk(node):
        if isinstance(n, ast.Call):
            yield n


class Analyzer:
    def __init__(self, class_node: ast.ClassDef):
        self.cls = class_node
        self.methods = {n.name: n for n in class_node.body if isinstance(n, ast.FunctionDef)}
        self.summaries: dict[str, Summary] = {}
        self._in_progress = set()

    # ---------------------------------------------------------------- summaries of helpers
    def summary(self, name) -> Summary:
        if name in self.summaries:
            return self.summaries[name]
        if name in self._in_progress or name not in self.methods:
            return Summary()
        self._in_progress.add(name)
        node = self.methods[name]
        s = Summary()
        fails = []
        ctx = _Ctx(name, fails, True, self.summaries)
        # summarise from every entry state to learn what it does
        events = self._events_linear(node)
        s.writes_tree = any(e[0] == "W" for e in events)
        s.reads_tree = any(e[0] in ("R", "W", "COPY") for e in events)
        s.loads = any(e[0] == "LOAD" for e in events)
        s.edits = any(e[0] == "EDIT" for e in events)
        first = next((e[0] for e in events if e[0] in ("R", "W", "COPY", "FLUSH", "LOAD", "EDIT")), None)
        s.flushes_first = first == "FLUSH"
        s.requires_not_dirty = first in ("R", "W", "COPY")
        self._in_progress.discard(name)
        self.summaries[name] = s
        return s

    def _events_linear(self, node):
        """flat, order-preserving list of events in a function body (for summaries)"""
        out = []
        for stmt in node.body:
            self._collect(stmt, out, set())
        return out

    # ---------------------------------------------------------------- event extraction for one statement/expression
    def _collect(self, node, out, cached_names):
        """append events of `node` in evaluation order (approximate: pre-order of calls)"""
        if isinstance(node, (ast.FunctionDef, ast.Lambda, ast.ClassDef)):
            return
        if isinstance(node, ast.Assign):
            self._collect(node.value, out, cached_names)
            for t in node.targets:
                self._target(t, node, out, cached_names)
            return
        if isinstance(node, ast.AugAssign):
            self._collect(node.value, out, cached_names)
            self._target(node.target, node, out, cached_names)
            return
        if isinstance(node, ast.Delete):
            for t in node.targets:
                self._target(t, node, out, cached_names)
            return
        if isinstance(node, ast.Call):
            for a in list(node.args) + [k.value for k in node.keywords]:
                self._collect(a, out, cached_names)
            if isinstance(node.func, ast.Attribute):
                self._collect(node.func.value, out, cached_names)
            self._call(node, out, cached_names)
            return
        if _is_self_attr(node, "svg_root"):
            out.append(("R", node.lineno, "self.svg_root"))
            return
        for child in ast.iter_child_nodes(node):
            self._collect(child, out, cached_names)

    def _target(self, t, stmt, out, cached_names):
        if _is_self_attr(t, "elements"):
            v = getattr(stmt, "value", None)
            if isinstance(v, ast.Constant) and v.value is None:
                out.append(("INVALIDATE", stmt.lineno, "self.elements = None"))
            else:
                out.append(("SETCACHE", stmt.lineno, "self.elements = ..."))
        elif _is_self_attr(t, "svg_root"):
            out.append(("W", stmt.lineno, "self.svg_root = ..."))
        elif isinstance(t, ast.Subscript):
            if _is_self_attr(t.value, "elements"):
                out.append(("EDIT", stmt.lineno, "self.elements[i] = ..."))
            elif isinstance(t.value, ast.Attribute) and t.value.attr == "attrib":
                root_only = _is_self_attr(t.value.value, "svg_root")
                out.append(("Wattr" if root_only else "W", stmt.lineno, "attrib[...] write"))
            else:
                self._collect(t.value, out, cached_names)
        elif isinstance(t, (ast.Tuple, ast.List)):
            for e in t.elts:
                self._target(e, stmt, out, cached_names)

    def _call(self, node, out, cached_names):
        f = node.func
        ln = node.lineno
        if isinstance(f, ast.Attribute) and isinstance(f.value, ast.Name) and f.value.id == "self":
            name = f.attr
            if name == "_update_etree":
                out.append(("FLUSH", ln, "self._update_etree()"))
            elif name in ("_elements", "shapes"):
                out.append(("LOAD", ln, f"self.{name}()"))
            elif name == "_set_element":
                out.append(("EDIT", ln, "self._set_element(...)"))
            elif name == "_clone":
                out.append(("CLONE", ln, "self._clone()"))
            elif name in _SELF_TREE_WRITE:
                out.append(("W", ln, f"self.{name}(...)"))
            elif name in _SELF_TREE_READ:
                out.append(("R", ln, f"self.{name}(...)"))
            elif name in self.methods:
                inplace_true = any(k.arg == "inplace" and isinstance(k.value, ast.Constant) and k.value.value is True for k in node.keywords)
                out.append(("CALL", ln, name, inplace_true))
            return
        if isinstance(f, ast.Attribute):
            # copy.deepcopy(self.svg_root)
            if f.attr == "deepcopy" and any(_is_self_attr(a, "svg_root") for a in node.args):
                out.append(("COPY", ln, "copy.deepcopy(self.svg_root)"))
                return
            if f.attr in _TREE_WRITE_METHODS and not (isinstance(f.value, ast.Name) and f.value.id in ("self",)):
                # list.append etc. on plain local lists are not tree writes: only count receivers that look like nodes
                recv = f.value
                looks_like_list = isinstance(recv, ast.Name) and recv.id in ("remove", "updates", "swaps", "errors", "el_to_rm", "attr_to_rm", "elements", "new_entries", "frontier", "parents", "unparsed", "result", "new_cmds", "subpaths", "cmds", "combined_args")
                is_call_getparent = isinstance(recv, ast.Call) and isinstance(recv.func, ast.Attribute) and recv.func.attr in ("getparent", "xpath_one")
                if is_call_getparent or (not looks_like_list and f.attr in ("remove", "replace", "addnext", "insert") and not isinstance(recv, ast.Name)) or (isinstance(recv, ast.Attribute) and recv.attr == "attrib"):
                    out.append(("W", ln, f".{f.attr}(...) on a tree node"))
                return
            # inplace shape edits on cached shapes
            if any(k.arg == "inplace" and isinstance(k.value, ast.Constant) and k.value.value is True for k in node.keywords) and isinstance(f.value, ast.Name) and f.value.id != "self" and f.value.id in cached_names:
                out.append(("EDIT", ln, f"{f.value.id}.{f.attr}(inplace=True) on a cached shape"))
            return
        if isinstance(f, ast.Name):
            if f.id in _TREE_WRITE_FUNCS:
                out.append(("W", ln, f"{f.id}(...)"))

    # ---------------------------------------------------------------- the flow analysis proper
    def analyse_method(self, name):
        node = self.methods[name]
        fails, obligations = [], []
        has_inplace = any(a.arg == "inplace" for a in node.args.args + node.args.kwonlyargs)
        body = list(node.body)
        copy_region, inplace_region = [], body
        if has_inplace and body:
            # find `if not inplace:` at top level
            for i, st in enumerate(body):
                if isinstance(st, ast.If) and isinstance(st.test, ast.UnaryOp) and isinstance(st.test.op, ast.Not) and isinstance(st.test.operand, ast.Name) and st.test.operand.id == "inplace":
                    copy_region = st.body
                    inplace_region = body[:i] + st.orelse + body[i + 1:]
                    break
        events_all = []
        for st in inplace_region:
            self._collect(st, events_all, set())
        writes = any(e[0] == "W" for e in events_all) or any(e[0] == "CALL" and self.summary(e[2]).writes_tree for e in events_all)

        def run(stmts, states, cached, pending):
            """-> (states, pending) after stmts; records failures"""
            for st in stmts:
                states, pending = step(st, states, cached, pending)
            return states, pending

        def apply(events, states, pending, cached):
            for ev in events:
                kind, ln = ev[0], ev[1]
                if kind == "FLUSH":
                    states = {SYNCED}
                    pending = False
                elif kind == "LOAD":
                    obligations.append((name, "invalidate-after", ln))
                    if pending:
                        fails.append(Failure(name, "invalidate-after", ln, f"{ev[2]} reloads the cache after a structural tree write without `self.elements = None` in between"))
                    states = {CLEAN if s == SYNCED else s for s in states}
                elif kind in ("EDIT", "SETCACHE"):
                    states = {DIRTY}
                elif kind == "INVALIDATE":
                    states = {SYNCED}
                    pending = False
                elif kind in ("R", "W", "COPY", "Wattr"):
                    if kind == "R" and not writes:
                        continue  # pure queries cannot change A(S)
                    if kind == "Wattr":
                        continue  # attributes of the root itself are never cached
                    rule = "clone-flushed" if kind == "COPY" else "flush-before-tree"
                    obligations.append((name, rule, ln))
                    if DIRTY in states:
                        fails.append(Failure(name, rule, ln, f"{ev[2]} while the shape cache may hold unflushed edits"))
                        states = states - {DIRTY} or {SYNCED}  # report once
                    if kind == "W" and CLEAN in states:
                        pending = True
                elif kind == "CLONE":
                    s = self.summary("_clone")
                    obligations.append((name, "clone-flushed", ln))
                    if DIRTY in states and not s.flushes_first:
                        fails.append(Failure(name, "clone-flushed", ln, "self._clone() copies the tree while the shape cache may hold unflushed edits (and _clone does not flush)"))
                elif kind == "CALL":
                    callee, inplace_true = ev[2], ev[3]
                    s = self.summary(callee)
                    if s.flushes_first:
                        states = {SYNCED}
                        pending = False
                    elif s.requires_not_dirty and (s.writes_tree or writes):
                        obligations.append((name, "flush-before-tree", ln))
                        if DIRTY in states:
                            fails.append(Failure(name, "flush-before-tree", ln, f"self.{callee}() touches the tree while the shape cache may hold unflushed edits"))
                            states = states - {DIRTY} or {SYNCED}
                    if s.writes_tree and CLEAN in states and not s.flushes_first:
                        pending = True
                    if s.loads and not s.flushes_first:
                        states = {CLEAN if x == SYNCED else x for x in states}
                    if s.edits:
                        states = {DIRTY}
                    # helpers that end by invalidating
                    body_c = self.methods.get(callee)
                    if body_c is not None and body_c.body:
                        ev_c = self._events_linear(body_c)
                        tail = [e[0] for e in ev_c if e[0] in ("INVALIDATE", "LOAD", "EDIT", "W", "FLUSH", "SETCACHE")]
                        if tail and tail[-1] in ("INVALIDATE",):
                            states = {SYNCED}
                            pending = False
            return states, pending

        def step(st, states, cached, pending):
            if isinstance(st, ast.If):
                ev = []
                self._collect(st.test, ev, cached)
                states, pending = apply(ev, states, pending, cached)
                t_states, f_states = set(states), set(states)
                # refinement: `if self.elements:` / `if not self.elements:`
                test = st.test
                neg = False
                if isinstance(test, ast.UnaryOp) and isinstance(test.op, ast.Not):
                    test, neg = test.operand, True
                if _is_self_attr(test, "elements"):
                    falsy = {SYNCED}
                    truthy = {s for s in states if s != SYNCED} or {CLEAN}
                    t_states, f_states = (falsy, truthy) if neg else (truthy, falsy)
                a, pa = run(st.body, t_states, cached, pending)
                b, pb = run(st.orelse, f_states, cached, pending)
                ra = _always_returns(st.body)
                rb = _always_returns(st.orelse) if st.orelse else False
                if ra and not rb:
                    return b, pb
                if rb and not ra:
                    return a, pa
                return a | b, pa or pb
            if isinstance(st, (ast.For, ast.While)):
                ev = []
                it = st.iter if isinstance(st, ast.For) else st.test
                self._collect(it, ev, cached)
                states, pending = apply(ev, states, pending, cached)
                cached2 = set(cached)
                if isinstance(st, ast.For) and any(e[0] == "LOAD" for e in ev):
                    for n in ast.walk(st.target):
                        if isinstance(n, ast.Name):
                            cached2.add(n.id)
                for _ in range(2):
                    s2, p2 = run(st.body, set(states), cached2, pending)
                    states, pending = states | s2, pending or p2
                return run(st.orelse, states, cached, pending)
            if isinstance(st, ast.Try):
                s1, p1 = run(st.body, states, cached, pending)
                for h in st.handlers:
                    s2, p2 = run(h.body, states | s1, cached, pending or p1)
                    s1, p1 = s1 | s2, p1 or p2
                s1, p1 = run(st.orelse, s1, cached, p1)
                return run(st.finalbody, s1, cached, p1)
            if isinstance(st, ast.Return):
                ev = []
                if st.value is not None:
                    self._collect(st.value, ev, cached)
                states, pending = apply(ev, states, pending, cached)
                obligations.append((name, "invalidate-after", st.lineno))
                if pending:
                    fails.append(Failure(name, "invalidate-after", st.lineno, "returns after a structural tree write with the stale shape cache still loaded (no `self.elements = None`)"))
                return states, False
            ev = []
            self._collect(st, ev, cached)
            return apply(ev, states, pending, cached)

        entry = {DIRTY}
        states, pending = run(inplace_region, entry, set(), False)
        obligations.append((name, "invalidate-after", node.end_lineno))
        if pending and not _always_returns(inplace_region):
            fails.append(Failure(name, "invalidate-after", node.end_lineno, "falls off the end after a structural tree write with the stale shape cache still loaded"))
        # return-value rules
        if has_inplace:
            for r in _returns(inplace_region):
                obligations.append((name, "returns-self", r.lineno))
                if not (isinstance(r.value, ast.Name) and r.value.id == "self"):
                    fails.append(Failure(name, "returns-self", r.lineno, "the in-place form must return the receiver on every path"))
            if not _always_returns(inplace_region):
                obligations.append((name, "returns-self", node.end_lineno))
                fails.append(Failure(name, "returns-self", node.end_lineno, "the in-place form can fall off the end without returning the receiver"))
            # copy region: clone, call in place on the clone, return the clone; never touch self's tree
            if copy_region:
                obligations.append((name, "returns-copy", copy_region[0].lineno))
                ev = []
                for st in copy_region:
                    self._collect(st, ev, set())
                cloned = None
                for st in copy_region:
                    if isinstance(st, ast.Assign) and isinstance(st.value, ast.Call):
                        fn = st.value.func
                        if _is_self_attr(fn, "_clone") and isinstance(st.targets[0], ast.Name):
                            cloned = st.targets[0].id
                        elif isinstance(fn, ast.Name) and fn.id == "SVG" and any(isinstance(a, ast.Call) and getattr(a.func, "attr", "") == "deepcopy" for a in st.value.args):
                            cloned = st.targets[0].id
                            obligations.append((name, "clone-flushed", st.lineno))
                            fails.append(Failure(name, "clone-flushed", st.lineno, "copies self.svg_root directly instead of going through _clone(): cached edits are left behind"))
                rets = _returns(copy_region)
                ok = cloned is not None and rets and all(isinstance(r.value, ast.Name) and r.value.id == cloned for r in rets) and _always_returns(copy_region)
                same_op = any(isinstance(c.func, ast.Attribute) and isinstance(c.func.value, ast.Name) and c.func.value.id == cloned and c.func.attr == name
                              and any(k.arg == "inplace" and isinstance(k.value, ast.Constant) and k.value.value is True for k in c.keywords)
                              for st in copy_region for c in _calls(st))
                if not (ok and same_op):
                    fails.append(Failure(name, "returns-copy", copy_region[0].lineno, "the copying form must clone, run the same operation in place on the clone and return the clone"))
                if any(e[0] in ("W", "EDIT", "INVALIDATE", "SETCACHE") for e in ev):
                    fails.append(Failure(name, "returns-copy", copy_region[0].lineno, "the copying form modifies the receiver"))
        return obligations, fails


def _always_returns(stmts):
    for st in stmts:
        if isinstance(st, (ast.Return, ast.Raise)):
            return True
        if isinstance(st, ast.If) and st.orelse and _always_returns(st.body) and _always_returns(st.orelse):
            return True
    return False


def _returns(stmts):
    out = []
    for st in stmts:
        for n in ast.walk(st):
            if isinstance(n, (ast.FunctionDef, ast.Lambda)):
                continue
            if isinstance(n, ast.Return):
                out.append(n)
    return out


def analyse_svg_class(path=None):
    import os

    path = path or os.environ.get("PYVC_REPO", "/repo") + "/src/picosvg/svg.py"
    tree = ast.parse(open(path).read(), path)
    cls = next(n for n in tree.body if isinstance(n, ast.ClassDef) and n.name == "SVG")
    an = Analyzer(cls)
    all_obl, all_fail = [], []
    skip = {"__init__", "fromstring", "parse", "_swap_elements"}
    public = [m for m in an.methods if m not in skip and (not m.startswith("_") or m in ("_clone", "_update_etree"))]
    for m in public:
        if m in _PURE_QUERIES or m in ("toetree", "tostring", "shapes", "bounding_box", "tolerance"):
            # queries: only the flush rule for tree copies applies
            pass
        ob, fl = an.analyse_method(m)
        all_obl += ob
        all_fail += fl
    # _clone itself: must flush before copying
    return an, public, all_obl, all_fail
