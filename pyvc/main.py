from __future__ import annotations

import argparse
import os
import sys

ROOT = os.path.dirname(os.path.dirname(os.path.abspath(__file__)))
sys.path.insert(0, ROOT)


def main():
    ap = argparse.ArgumentParser()
    ap.add_argument("prop")
    ap.add_argument("--tier", default=os.environ.get("VERIF_TIER", "quick"), choices=["quick", "thorough"])
    ap.add_argument("--replay")
    ap.add_argument("--workers", type=int, default=None)
    a = ap.parse_args()
    seed = int(os.environ.get("VERIF_SEED", "0") or 0)
    from pyvc import runner
    from contracts import PROPERTIES

    if a.replay:
        sys.exit(runner.replay_file(a.prop, a.replay))
    meta = PROPERTIES[a.prop]
    try:
        rc = runner.run_property(a.prop, a.tier, seed, meta["level"], meta["explanation"], meta["trusted_base"], workers=a.workers)
    except BaseException as e:  # noqa
        import traceback

        traceback.print_exc()
        print(f"CHECKER-ERROR {type(e).__name__}: {e}")
        rc = 3
    sys.exit(rc)


if __name__ == "__main__":
    main()
