"""Solver orchestration: z3 (python API) first, cvc5 and /usr/bin/z3 4.8 on `unknown`."""
from __future__ import annotations

import os
import subprocess
import tempfile
import time
from dataclasses import dataclass, field

import z3

from .sym import PI_AXIOMS, str_distinct_axioms

CURRENT_LABEL = ""
RLIMIT_FEAS = int(os.environ.get("PYVC_RLIMIT_FEAS", "2000000"))
RLIMIT_PROVE = int(os.environ.get("PYVC_RLIMIT_PROVE", "8000000"))
TIMEOUT_MS = int(os.environ.get("PYVC_TIMEOUT_MS", "20000"))
FALLBACK_S = int(os.environ.get("PYVC_FALLBACK_S", "10"))


@dataclass
class Verdict:
    status: str  # proved | refuted | unknown
    backend: str = ""
    seconds: float = 0.0
    model: object = None
    reason: str = ""
    tried: list = field(default_factory=list)


def _mk_solver(rlimit, timeout_ms):
    s = z3.Solver()
    s.set("rlimit", rlimit)
    if timeout_ms:
        s.set("timeout", timeout_ms)
    return s


def base_axioms():
    return list(PI_AXIOMS) + str_distinct_axioms()


def feasible(pc, extra=()) -> bool:
    """May pc /\\ extra hold?  `unknown` counts as feasible (sound: the path is explored)."""
    s = _mk_solver(RLIMIT_FEAS, 0)  # resource limit only: the verdict must not depend on machine load
    s.add(*base_axioms())
    s.add(*pc)
    s.add(*extra)
    t0 = time.time()
    r = s.check()
    if os.environ.get("PYVC_TRACE_SLOW") and time.time() - t0 > 3:
        import sys

        print(f"[slow feasible {time.time() - t0:.1f}s {r} pc={len(pc)} pid={os.getpid()}]", file=sys.stderr, flush=True)
    return r != z3.unsat


def _external(smt2: str, cmd: list[str], timeout_s: int) -> str:
    with tempfile.NamedTemporaryFile("w", suffix=".smt2", delete=False) as f:
        f.write(smt2)
        path = f.name
    try:
        out = subprocess.run(cmd + [path], capture_output=True, text=True, timeout=timeout_s)
        first = (out.stdout.strip().splitlines() or [""])[0].strip()
        return first if first in ("sat", "unsat", "unknown") else "unknown"
    except subprocess.TimeoutExpired:
        return "unknown"
    finally:
        os.unlink(path)


_PRIMES = [3, 5, 7, 11, 13, 17, 19, 23, 29, 31, 37, 41, 43, 47, 53, 59, 61, 67, 71, 73, 79, 83, 89, 97, 101, 103, 107, 109, 113]


def _generic_model(s, inputs):
    """The first model of a refuted goal is often degenerate (zeros, differences of 1e-9) and then does not
    survive float replay.  Look for a counter-model at generic, well separated input values."""
    reals = [c for c in inputs if z3.is_real(c)]
    s.set("timeout", 1500)
    budget = time.time() + 8
    patterns = [
        lambda i: _PRIMES[i % len(_PRIMES)],
        lambda i: _PRIMES[i % len(_PRIMES)] * (1 if i % 2 == 0 else -1),
        lambda i: z3.RealVal(f"{_PRIMES[(i * 7 + 3) % len(_PRIMES)]}/4"),
        lambda i: z3.RealVal(f"{_PRIMES[i % len(_PRIMES)]}/16") * (1 if i % 3 else -1),
    ]
    for keep in (len(reals), max(1, len(reals) // 2), max(1, len(reals) // 4)):
        for pat in patterns:
            if time.time() > budget:
                return None
            s.push()
            try:
                for i, c in enumerate(reals[:keep]):
                    s.add(c == pat(i))
                if s.check() == z3.sat:
                    return s.model()
            finally:
                s.pop()
    return None


def prove(assumptions, goal, *, want_model=True, fallbacks=True, generic_inputs=()) -> Verdict:
    """Is  /\\assumptions => goal  valid?"""
    t0 = time.time()
    s = _mk_solver(RLIMIT_PROVE, TIMEOUT_MS)
    s.add(*base_axioms())
    s.add(*assumptions)
    s.add(z3.Not(goal))
    r = s.check()
    if os.environ.get("PYVC_TRACE_SLOW") and time.time() - t0 > 3:
        import sys

        print(f"[slow prove {time.time() - t0:.1f}s {r} {CURRENT_LABEL} facts={len(assumptions)} pid={os.getpid()}]", file=sys.stderr, flush=True)
    tried = ["z3-" + z3.get_version_string()]
    if r == z3.unsat:
        return Verdict("proved", tried[0], time.time() - t0, tried=tried)
    if r == z3.sat:
        model = s.model() if want_model else None
        if want_model and generic_inputs:
            better = _generic_model(s, generic_inputs)
            if better is not None:
                model = better
        return Verdict("refuted", tried[0], time.time() - t0, model=model, tried=tried)
    reason = s.reason_unknown()
    if fallbacks:
        smt2 = "(set-logic ALL)\n" + s.to_smt2()
        for name, cmd in (
            ("cvc5-1.0.3", ["/usr/bin/cvc5", "--lang=smt2", f"--tlimit={FALLBACK_S * 1000}", "--nl-cov"]),
            ("z3-4.8.12", ["/usr/bin/z3", f"-T:{FALLBACK_S}"]),
        ):
            if not os.path.exists(cmd[0]):
                continue
            tried.append(name)
            res = _external(smt2, cmd, FALLBACK_S + 10)
            if res == "unsat":
                return Verdict("proved", name, time.time() - t0, tried=tried)
            if res == "sat":
                # no model extraction from the CLI back ends: report as refuted without model
                return Verdict("refuted", name, time.time() - t0, model=None, tried=tried)
    return Verdict("unknown", ",".join(tried), time.time() - t0, reason=reason, tried=tried)


def model_value(model, const):
    """Concrete python value of a z3 constant in a model (float / int / bool / None)."""
    if model is None:
        return None
    v = model.eval(const, model_completion=True)
    if z3.is_rational_value(v):
        return float(v.numerator_as_long()) / float(v.denominator_as_long())
    if z3.is_int_value(v):
        return v.as_long()
    if z3.is_true(v):
        return True
    if z3.is_false(v):
        return False
    if z3.is_algebraic_value(v):
        a = v.approx(20)
        return float(a.numerator_as_long()) / float(a.denominator_as_long())
    return None
