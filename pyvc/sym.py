"""Symbolic value layer of pyvc.

Sym values wrap z3 terms.  They overload arithmetic and comparison so that *contract
code* (spec functions, postconditions) can be written as ordinary Python expressions
that work both on floats (native replay, cross-check) and on symbolic terms.  They
deliberately refuse ``bool()``: repository code never runs natively on Sym values, it is
executed by the AST interpreter (interp.py) which forks on symbolic conditions.  A
``SymbolicBoolError`` therefore always means an engine bug or an unmodelled external,
never a verdict.
"""
from __future__ import annotations

import math
from fractions import Fraction

import z3


class EngineError(BaseException):
    """Out-of-subset construct or internal error: exit 3, never a verdict."""


class SymbolicBoolError(EngineError):
    pass


PI = z3.Real("PI")
PI_AXIOMS = [PI > z3.RealVal("3.14159265"), PI < z3.RealVal("3.14159266")]
_PI_MULTIPLES = {
    math.pi: lambda: PI,
    2 * math.pi: lambda: 2 * PI,
    0.5 * math.pi: lambda: PI / 2,
    0.25 * math.pi: lambda: PI / 4,
    -math.pi: lambda: -PI,
}


def _rv(x):
    """Python number -> z3 real.

    Floats are read as the real number they were written as (section 2.2 of DESIGN.md):
    a float equal to a small rational (4/3, 0.25, 0.1) is that rational, a multiple of
    math.pi is that multiple of the symbolic constant PI, anything else is its shortest
    decimal representation.
    """
    if isinstance(x, bool):
        return z3.RealVal(1 if x else 0)
    if isinstance(x, int):
        return z3.RealVal(x)
    if isinstance(x, float):
        if not math.isfinite(x):
            raise EngineError(f"non-finite float constant {x!r} in symbolic arithmetic")
        mk = _PI_MULTIPLES.get(x)
        if mk is not None:
            return mk()
        fr = Fraction(x).limit_denominator(4096)
        if float(fr) != x:
            fr = Fraction(repr(x))
        return z3.RealVal(f"{fr.numerator}/{fr.denominator}")
    if isinstance(x, Fraction):
        return z3.RealVal(f"{x.numerator}/{x.denominator}")
    raise EngineError(f"cannot lift {type(x).__name__} to Real")


class Sym:
    __slots__ = ("z",)

    def __init__(self, z):
        self.z = z

    def __bool__(self):
        raise SymbolicBoolError(f"bool() of symbolic value {self.z}")

    def __hash__(self):
        return hash(self.z)

    def __repr__(self):
        return f"<{type(self).__name__} {self.z}>"

    def __deepcopy__(self, memo):
        return self

    def __copy__(self):
        return self


def real_z(x):
    """z3 real term of a python number / SReal / SInt."""
    if isinstance(x, SReal):
        return x.z
    if isinstance(x, SInt):
        return z3.ToReal(x.z)
    if isinstance(x, SBool):
        return z3.If(x.z, z3.RealVal(1), z3.RealVal(0))
    if isinstance(x, (int, float, Fraction)):
        return _rv(x)
    raise EngineError(f"not a number: {x!r}")


def is_num(x):
    return isinstance(x, (int, float, Fraction, SReal, SInt)) and not isinstance(x, bool) or isinstance(x, bool)


class SReal(Sym):
    """A Python float (or float-valued number) as a mathematical real."""

    __slots__ = ()

    # arithmetic -----------------------------------------------------------
    def _bin(self, other, f):
        if isinstance(other, (int, float, Fraction, SReal, SInt, SBool)):
            return SReal(z3.simplify(f(self.z, real_z(other))))
        return NotImplemented

    def _rbin(self, other, f):
        if isinstance(other, (int, float, Fraction, SReal, SInt, SBool)):
            return SReal(z3.simplify(f(real_z(other), self.z)))
        return NotImplemented

    def __add__(self, o):
        return self._bin(o, lambda a, b: a + b)

    def __radd__(self, o):
        return self._rbin(o, lambda a, b: a + b)

    def __sub__(self, o):
        return self._bin(o, lambda a, b: a - b)

    def __rsub__(self, o):
        return self._rbin(o, lambda a, b: a - b)

    def __mul__(self, o):
        return self._bin(o, lambda a, b: a * b)

    def __rmul__(self, o):
        return self._rbin(o, lambda a, b: a * b)

    def __truediv__(self, o):
        # contract code only; the interpreter guards division itself
        return self._bin(o, lambda a, b: a / b)

    def __rtruediv__(self, o):
        return self._rbin(o, lambda a, b: a / b)

    def __neg__(self):
        return SReal(z3.simplify(-self.z))

    def __pos__(self):
        return self

    def __abs__(self):
        return SReal(z3.simplify(z3.If(self.z >= 0, self.z, -self.z)))

    def __pow__(self, n):
        if isinstance(n, int) and 0 <= n <= 8:
            r = z3.RealVal(1)
            for _ in range(n):
                r = r * self.z
            return SReal(z3.simplify(r))
        return NotImplemented

    # comparisons ----------------------------------------------------------
    def _cmp(self, other, f):
        if isinstance(other, (int, float, Fraction, SReal, SInt, SBool)):
            return SBool(z3.simplify(f(self.z, real_z(other))))
        return NotImplemented

    def __eq__(self, o):
        r = self._cmp(o, lambda a, b: a == b)
        return SBool(z3.BoolVal(False)) if r is NotImplemented else r

    def __ne__(self, o):
        r = self._cmp(o, lambda a, b: a != b)
        return SBool(z3.BoolVal(True)) if r is NotImplemented else r

    def __lt__(self, o):
        return self._cmp(o, lambda a, b: a < b)

    def __le__(self, o):
        return self._cmp(o, lambda a, b: a <= b)

    def __gt__(self, o):
        return self._cmp(o, lambda a, b: a > b)

    def __ge__(self, o):
        return self._cmp(o, lambda a, b: a >= b)

    __hash__ = Sym.__hash__


class SInt(Sym):
    """A Python int as a mathematical integer."""

    __slots__ = ()

    def _bin(self, other, fi, fr):
        if isinstance(other, bool):
            other = int(other)
        if isinstance(other, int):
            return SInt(z3.simplify(fi(self.z, z3.IntVal(other))))
        if isinstance(other, SInt):
            return SInt(z3.simplify(fi(self.z, other.z)))
        if isinstance(other, (float, Fraction, SReal)):
            return SReal(z3.simplify(fr(z3.ToReal(self.z), real_z(other))))
        return NotImplemented

    def _rbin(self, other, fi, fr):
        if isinstance(other, bool):
            other = int(other)
        if isinstance(other, int):
            return SInt(z3.simplify(fi(z3.IntVal(other), self.z)))
        if isinstance(other, (float, Fraction, SReal)):
            return SReal(z3.simplify(fr(real_z(other), z3.ToReal(self.z))))
        return NotImplemented

    def __add__(self, o):
        return self._bin(o, lambda a, b: a + b, lambda a, b: a + b)

    def __radd__(self, o):
        return self._rbin(o, lambda a, b: a + b, lambda a, b: a + b)

    def __sub__(self, o):
        return self._bin(o, lambda a, b: a - b, lambda a, b: a - b)

    def __rsub__(self, o):
        return self._rbin(o, lambda a, b: a - b, lambda a, b: a - b)

    def __mul__(self, o):
        return self._bin(o, lambda a, b: a * b, lambda a, b: a * b)

    def __rmul__(self, o):
        return self._rbin(o, lambda a, b: a * b, lambda a, b: a * b)

    def __truediv__(self, o):
        return SReal(z3.ToReal(self.z)).__truediv__(o)

    def __rtruediv__(self, o):
        return SReal(z3.ToReal(self.z)).__rtruediv__(o)

    def __neg__(self):
        return SInt(z3.simplify(-self.z))

    def __mod__(self, o):
        # Python's % takes the sign of the divisor, SMT-LIB's mod is non-negative: they agree for a positive divisor
        if isinstance(o, int) and not isinstance(o, bool) and o > 0:
            return SInt(z3.simplify(self.z % z3.IntVal(o)))
        raise EngineError("symbolic % with a divisor that is not a positive literal")

    def __floordiv__(self, o):
        if isinstance(o, int) and not isinstance(o, bool) and o > 0:
            return SInt(z3.simplify(self.z / z3.IntVal(o)))
        raise EngineError("symbolic // with a divisor that is not a positive literal")

    def __abs__(self):
        return SInt(z3.simplify(z3.If(self.z >= 0, self.z, -self.z)))

    def _cmp(self, other, f):
        if isinstance(other, bool):
            other = int(other)
        if isinstance(other, int):
            return SBool(z3.simplify(f(self.z, z3.IntVal(other))))
        if isinstance(other, SInt):
            return SBool(z3.simplify(f(self.z, other.z)))
        if isinstance(other, (float, Fraction, SReal)):
            return SBool(z3.simplify(f(z3.ToReal(self.z), real_z(other))))
        return NotImplemented

    def __eq__(self, o):
        r = self._cmp(o, lambda a, b: a == b)
        return SBool(z3.BoolVal(False)) if r is NotImplemented else r

    def __ne__(self, o):
        r = self._cmp(o, lambda a, b: a != b)
        return SBool(z3.BoolVal(True)) if r is NotImplemented else r

    def __lt__(self, o):
        return self._cmp(o, lambda a, b: a < b)

    def __le__(self, o):
        return self._cmp(o, lambda a, b: a <= b)

    def __gt__(self, o):
        return self._cmp(o, lambda a, b: a > b)

    def __ge__(self, o):
        return self._cmp(o, lambda a, b: a >= b)

    __hash__ = Sym.__hash__


class SBool(Sym):
    __slots__ = ()

    def __and__(self, o):
        return SBool(z3.simplify(z3.And(self.z, bool_z(o))))

    __rand__ = __and__

    def __or__(self, o):
        return SBool(z3.simplify(z3.Or(self.z, bool_z(o))))

    __ror__ = __or__

    def __invert__(self):
        return SBool(z3.simplify(z3.Not(self.z)))

    def __eq__(self, o):
        if isinstance(o, (bool, SBool)):
            return SBool(z3.simplify(self.z == bool_z(o)))
        return SBool(z3.BoolVal(False))

    def __ne__(self, o):
        return ~self.__eq__(o)

    __hash__ = Sym.__hash__


class SStr(Sym):
    """A string over an uninterpreted sort: equality only (plus declared functions)."""

    __slots__ = ()

    def __eq__(self, o):
        if isinstance(o, SStr):
            return SBool(z3.simplify(self.z == o.z))
        if isinstance(o, str):
            return SBool(z3.simplify(self.z == str_const(o)))
        return SBool(z3.BoolVal(False))

    def __ne__(self, o):
        return ~self.__eq__(o)

    __hash__ = Sym.__hash__


StrSort = z3.DeclareSort("Str")
_STR_CONSTS: dict[str, z3.ExprRef] = {}


def str_const(s: str):
    c = _STR_CONSTS.get(s)
    if c is None:
        c = z3.Const(f"str!{len(_STR_CONSTS)}!{s[:12]}", StrSort)
        _STR_CONSTS[s] = c
    return c


STR2REAL = z3.Function("str_to_real", StrSort, z3.RealSort())  # float(s)
REAL2STR = z3.Function("real_to_str", z3.RealSort(), StrSort)  # ntos(x)


def _ntos(n: float) -> str:
    return str(int(n)) if isinstance(n, float) and n.is_integer() else str(n)


def str_distinct_axioms():
    """string literals are pairwise distinct; numeric literals denote their value (float(s)) and canonical numerals
    are what ntos prints for that value (DESIGN 3.1: float/str round trip)"""
    cs = list(_STR_CONSTS.values())
    ax = [z3.Distinct(*cs)] if len(cs) > 1 else []
    for lit, c in _STR_CONSTS.items():
        try:
            v = float(lit)
        except ValueError:
            continue
        if not math.isfinite(v) or lit != lit.strip():
            continue
        ax.append(STR2REAL(c) == _rv(v))
        if _ntos(v) == lit:
            ax.append(REAL2STR(_rv(v)) == c)
    return ax


def str_literal_of(c) -> str | None:
    for s, k in _STR_CONSTS.items():
        if k.eq(c):
            return s
    return None


def bool_z(x):
    if isinstance(x, SBool):
        return x.z
    if isinstance(x, bool):
        return z3.BoolVal(x)
    if isinstance(x, z3.BoolRef):
        return x
    raise EngineError(f"not a boolean: {x!r}")


def is_sym(x):
    return isinstance(x, Sym)


# --- helpers usable from contract code on both floats and Sym values -------------

def And(*xs):
    xs = [x for x in _flat(xs)]
    if all(isinstance(x, bool) for x in xs):
        return all(xs)
    return SBool(z3.simplify(z3.And(*[bool_z(x) for x in xs]))) if xs else True


def Or(*xs):
    xs = [x for x in _flat(xs)]
    if all(isinstance(x, bool) for x in xs):
        return any(xs)
    return SBool(z3.simplify(z3.Or(*[bool_z(x) for x in xs]))) if xs else False


def Not(x):
    if isinstance(x, bool):
        return not x
    return SBool(z3.simplify(z3.Not(bool_z(x))))


def Implies(a, b):
    if isinstance(a, bool) and isinstance(b, bool):
        return (not a) or b
    return SBool(z3.simplify(z3.Implies(bool_z(a), bool_z(b))))


def Ite(c, a, b):
    if isinstance(c, bool):
        return a if c else b
    if isinstance(a, (bool, SBool)) and isinstance(b, (bool, SBool)):
        return SBool(z3.simplify(z3.If(bool_z(c), bool_z(a), bool_z(b))))
    if isinstance(a, (int, SInt)) and isinstance(b, (int, SInt)) and not isinstance(a, bool):
        za = a.z if isinstance(a, SInt) else z3.IntVal(a)
        zb = b.z if isinstance(b, SInt) else z3.IntVal(b)
        return SInt(z3.simplify(z3.If(bool_z(c), za, zb)))
    return SReal(z3.simplify(z3.If(bool_z(c), real_z(a), real_z(b))))


def _flat(xs):
    for x in xs:
        if isinstance(x, (list, tuple)):
            yield from _flat(x)
        else:
            yield x


def smax(a, b):
    if not is_sym(a) and not is_sym(b):
        return max(a, b)
    return Ite(a >= b, a, b) if is_sym(a) else Ite(b > a, b, a)


def smin(a, b):
    if not is_sym(a) and not is_sym(b):
        return min(a, b)
    return Ite(a <= b, a, b) if is_sym(a) else Ite(b < a, b, a)


def sabs(a):
    return abs(a)


def contains_sym(v, _depth=0, _seen=None) -> bool:
    """True if a Python value has a Sym leaf (containers, NamedTuples, dataclass-like objects)."""
    if isinstance(v, Sym):
        return True
    if isinstance(v, (str, bytes, int, float, bool, type(None), type)):
        return False
    if _depth > 6:
        return False
    if _seen is None:
        _seen = set()
    if id(v) in _seen:
        return False
    _seen.add(id(v))
    if isinstance(v, (tuple, list, set, frozenset)):
        return any(contains_sym(x, _depth + 1, _seen) for x in v)
    if isinstance(v, dict):
        return any(contains_sym(x, _depth + 1, _seen) for x in v.values()) or any(
            contains_sym(x, _depth + 1, _seen) for x in v.keys()
        )
    if getattr(v, "__pyvc_abstract__", False):
        return True
    d = getattr(v, "__dict__", None)
    if isinstance(d, dict) and type(v).__module__.startswith("picosvg"):
        return any(contains_sym(x, _depth + 1, _seen) for x in d.values())
    return False
