"""Frame / effect obligations over the real AST of the whole package (C16) and the loop inventory (C17).

These are small, purpose-built, conservative checkers (DESIGN 5.4 / 5.5).  A failure is first confirmed by a
bounded witness search by the caller; without a witness it is reported with `no-failing-input-found`.
"""
from __future__ import annotations

import ast
import glob
import os
from dataclasses import dataclass

import os as _os

SRC = _os.environ.get("PYVC_REPO", "/repo") + "/src/picosvg"
_MUTATORS = {"append", "extend", "insert", "pop", "remove", "clear", "update", "add", "discard", "setdefault", "popitem", "sort", "reverse", "__setitem__", "appendleft", "popleft"}
_ORDER_FREE_FUNCS = {"any", "all", "len", "sorted", "min", "max", "sum", "set", "frozenset", "bool", "isinstance"}
_SET_METHODS_ORDER_FREE = {"add", "discard", "remove", "update", "issubset", "issuperset", "isdisjoint", "union", "intersection", "difference", "symmetric_difference", "copy", "clear", "__contains__"}
# callees whose *args are treated as an unordered collection (each deletes / tests independently)
COMMUTATIVE_VARARGS = {"_del_attrs"}
NONDETERMINISTIC_NAMES = {"id", "hash", "random", "time", "datetime", "uuid", "getpid", "urandom", "environ", "getenv"}


@dataclass
class Obl:
    kind: str
    where: str  # module.function
    line: int
    ok: bool
    text: str
    recognised: bool = True  # False: the checker could not match the code against the shape it knows (undecided, not a verdict)


def modules():
    out = {}
    for p in sorted(glob.glob(os.path.join(SRC, "*.py"))):
        name = os.path.basename(p)[:-3]
        out[name] = ast.parse(open(p).read(), p)
    return out


def _functions(tree):
    """(qualname, node) for every function, including methods and nested functions"""
    out = []

    def rec(node, prefix):
        for n in ast.iter_child_nodes(node):
            if isinstance(n, ast.FunctionDef):
                q = f"{prefix}{n.name}"
                out.append((q, n))
                rec(n, q + ".")
            elif isinstance(n, ast.ClassDef):
                rec(n, f"{prefix}{n.name}.")
            else:
                rec(n, prefix)

    rec(tree, "")
    return out


def _module_level_names(tree):
    names = set()
    for n in tree.body:
        if isinstance(n, (ast.Assign, ast.AnnAssign, ast.AugAssign)):
            targets = n.targets if isinstance(n, ast.Assign) else [n.target]
            for t in targets:
                for x in ast.walk(t):
                    if isinstance(x, ast.Name):
                        names.add(x.id)
    return names


def _own_nodes(fn):
    """nodes of a function body, not descending into nested function definitions"""
    todo = list(fn.body)
    while todo:
        n = todo.pop()
        yield n
        for c in ast.iter_child_nodes(n):
            if isinstance(c, (ast.FunctionDef, ast.Lambda)) and False:
                continue
            todo.append(c)


def _local_names(fn):
    loc = {a.arg for a in fn.args.args + fn.args.kwonlyargs + fn.args.posonlyargs}
    if fn.args.vararg:
        loc.add(fn.args.vararg.arg)
    if fn.args.kwarg:
        loc.add(fn.args.kwarg.arg)
    for n in ast.walk(fn):
        if isinstance(n, ast.Name) and isinstance(n.ctx, ast.Store):
            loc.add(n.id)
        if isinstance(n, ast.FunctionDef) and n is not fn:
            loc.add(n.name)
    return loc


def _is_set_expr(node, set_names):
    if isinstance(node, (ast.Set, ast.SetComp)):
        return True
    if isinstance(node, ast.Call) and isinstance(node.func, ast.Name) and node.func.id in ("set", "frozenset"):
        return True
    if isinstance(node, ast.Name) and node.id in set_names:
        return True
    if isinstance(node, ast.BinOp) and isinstance(node.op, (ast.BitAnd, ast.BitOr, ast.Sub, ast.BitXor)):
        return _is_set_expr(node.left, set_names) or _is_set_expr(node.right, set_names) or _is_keys_call(node.left) or _is_keys_call(node.right)
    if isinstance(node, ast.Call) and isinstance(node.func, ast.Attribute) and node.func.attr in ("union", "intersection", "difference", "symmetric_difference", "copy") and _is_set_expr(node.func.value, set_names):
        return True
    return False


def _is_keys_call(node):
    return isinstance(node, ast.Call) and isinstance(node.func, ast.Attribute) and node.func.attr == "keys"


def _parent_map(root):
    pm = {}
    for n in ast.walk(root):
        for c in ast.iter_child_nodes(n):
            pm[c] = n
    return pm


ALLOWED_SET_SINKS = {
    # (module, function, description of the set expression): why iterating it cannot reach the converted bytes
    ("svg", "SVG.checkpicosvg", "paths_required"): "only orders the texts of MissingElement errors (exception text / returned error tuple), never the converted document",
}


def frame_obligations():
    out: list[Obl] = []
    mods = modules()
    for mname, tree in mods.items():
        mod_names = _module_level_names(tree)
        # module-level set-typed values that end up ordered (tuple(set), list(set)) taint the container they are stored in
        module_sets = set()
        for n in tree.body:
            if isinstance(n, ast.Assign) and _is_set_expr(n.value, set()):
                for t in n.targets:
                    if isinstance(t, ast.Name):
                        module_sets.add(t.id)
        mutable_module_names = set()
        for st in tree.body:
            val = st.value if isinstance(st, (ast.Assign, ast.AnnAssign)) else None
            if isinstance(val, (ast.Dict, ast.List, ast.Set, ast.DictComp, ast.ListComp, ast.SetComp)) or (
                    isinstance(val, ast.Call) and isinstance(val.func, ast.Name) and val.func.id in ("dict", "list", "set", "defaultdict", "OrderedDict", "deque", "Counter")):
                for t in (st.targets if isinstance(st, ast.Assign) else [st.target]):
                    if isinstance(t, ast.Name):
                        mutable_module_names.add(t.id)
        class_state = {}
        for c in ast.walk(tree):
            if isinstance(c, ast.ClassDef):
                for st in c.body:
                    val = st.value if isinstance(st, (ast.Assign, ast.AnnAssign)) else None
                    mutable = isinstance(val, (ast.Dict, ast.List, ast.Set, ast.DictComp, ast.ListComp, ast.SetComp)) or (
                        isinstance(val, ast.Call) and isinstance(val.func, ast.Name) and val.func.id in ("dict", "list", "set", "defaultdict", "OrderedDict", "deque", "Counter"))
                    if mutable:
                        for t in (st.targets if isinstance(st, ast.Assign) else [st.target]):
                            if isinstance(t, ast.Name):
                                class_state.setdefault(c.name, {})[t.id] = st.lineno
        for q, fn in _functions(tree):
            where = f"{mname}.{q}"
            local = _local_names(fn)
            pm = _parent_map(fn)
            # names bound to set-typed expressions inside this function
            set_names = set(module_sets)
            for n in ast.walk(fn):
                if isinstance(n, ast.Assign) and _is_set_expr(n.value, set_names):
                    for t in n.targets:
                        if isinstance(t, ast.Name):
                            set_names.add(t.id)
            for n in ast.walk(fn):
                # (a) writes to module-level state
                if isinstance(n, ast.Global):
                    out.append(Obl("no-global-write", where, n.lineno, False, f"`global {', '.join(n.names)}`"))
                if isinstance(n, (ast.Assign, ast.AugAssign, ast.Delete)):
                    targets = n.targets if isinstance(n, (ast.Assign, ast.Delete)) else [n.target]
                    for t in targets:
                        base = t
                        while isinstance(base, (ast.Subscript, ast.Attribute)):
                            base = base.value
                        if isinstance(t, (ast.Subscript, ast.Attribute)) and isinstance(base, ast.Name) and base.id in mod_names and base.id not in local:
                            out.append(Obl("no-global-write", where, n.lineno, False, f"writes into module-level object `{base.id}` after import"))
                if isinstance(n, ast.Call) and isinstance(n.func, ast.Attribute) and n.func.attr in _MUTATORS:
                    base = n.func.value
                    while isinstance(base, (ast.Subscript, ast.Attribute)):
                        base = base.value
                    if isinstance(base, ast.Name) and base.id in mod_names and base.id not in local and base.id != "self":
                        out.append(Obl("no-global-write", where, n.lineno, False, f"calls .{n.func.attr}() on module-level object `{base.id}` after import"))
                # (b) nondeterministic sources
                if isinstance(n, ast.Name) and n.id in NONDETERMINISTIC_NAMES and isinstance(n.ctx, ast.Load) and n.id not in local:
                    par = pm.get(n)
                    if isinstance(par, ast.Call) and par.func is n or isinstance(par, ast.Attribute):
                        out.append(Obl("no-nondeterministic-source", where, n.lineno, False, f"uses `{n.id}`"))
                if isinstance(n, ast.Attribute) and n.attr in ("environ", "getenv", "getpid", "urandom"):
                    out.append(Obl("no-nondeterministic-source", where, n.lineno, False, f"uses `.{n.attr}`"))
                # (c) set-typed expressions must only meet order-insensitive consumers
                if _is_set_expr(n, set_names) and not isinstance(pm.get(n), ast.Assign):
                    par = pm.get(n)
                    ok, why = _set_consumer_ok(n, par, pm)
                    desc = ast.unparse(n)[:60]
                    key = (mname, q, desc)
                    if not ok and key in ALLOWED_SET_SINKS:
                        ok, why = True, "allowed sink: " + ALLOWED_SET_SINKS[key]
                    out.append(Obl("set-order-insensitive", where, n.lineno, ok, f"`{desc}` {why}"))
            # (g) the same through an alias: `x = MODULE_LEVEL_OBJECT` followed by x.add(...) / x[k] = v / del x[k]
            aliases = {}
            for n in ast.walk(fn):
                if isinstance(n, ast.Assign) and isinstance(n.value, ast.Name) and n.value.id in mod_names and n.value.id not in local - {t.id for t in n.targets if isinstance(t, ast.Name)}:
                    for t in n.targets:
                        if isinstance(t, ast.Name) and n.value.id in mutable_module_names:
                            aliases[t.id] = n.value.id
            for n in ast.walk(fn):
                base = None
                if isinstance(n, (ast.Assign, ast.AugAssign, ast.Delete)):
                    for t in (n.targets if isinstance(n, (ast.Assign, ast.Delete)) else [n.target]):
                        if isinstance(t, ast.Subscript):
                            base = t.value
                elif isinstance(n, ast.Call) and isinstance(n.func, ast.Attribute) and n.func.attr in _MUTATORS:
                    base = n.func.value
                while isinstance(base, ast.Subscript):
                    base = base.value
                if isinstance(base, ast.Name) and base.id in aliases:
                    out.append(Obl("no-global-write", where, n.lineno, False, f"modifies module-level object `{aliases[base.id]}` through its alias `{base.id}`"))
            # (f) mutable objects created in a class body are shared by every instance (and every document converted in the process):
            # writing INTO them through self / cls / the class name carries state from one conversion to the next
            owner = q.split(".")[0] if "." in q else None
            shared = class_state.get(owner, {}) if owner else {}
            for n in ast.walk(fn):
                tgt = None
                if isinstance(n, (ast.Assign, ast.AugAssign, ast.Delete)):
                    for t in (n.targets if isinstance(n, (ast.Assign, ast.Delete)) else [n.target]):
                        if isinstance(t, ast.Subscript):
                            tgt = t.value
                elif isinstance(n, ast.Call) and isinstance(n.func, ast.Attribute) and n.func.attr in _MUTATORS:
                    tgt = n.func.value
                while isinstance(tgt, ast.Subscript):
                    tgt = tgt.value
                if isinstance(tgt, ast.Attribute) and isinstance(tgt.value, ast.Name) and tgt.value.id in ("self", "cls", owner) and tgt.attr in shared:
                    out.append(Obl("no-class-state-write", where, n.lineno, False, f"writes into `{owner}.{tgt.attr}`, a mutable object created once in the class body (line {shared[tgt.attr]}) and shared by all instances"))
            # (e) mutable default arguments that are mutated = state shared between calls
            defaults = list(fn.args.defaults) + [d for d in fn.args.kw_defaults if d is not None]
            params = [a.arg for a in (fn.args.posonlyargs + fn.args.args)][-len(fn.args.defaults):] if fn.args.defaults else []
            params += [a.arg for a, d in zip(fn.args.kwonlyargs, fn.args.kw_defaults) if d is not None]
            for p, d in zip(params, defaults):
                mutable = isinstance(d, (ast.List, ast.Dict, ast.Set)) or (isinstance(d, ast.Call) and isinstance(d.func, ast.Name) and d.func.id in ("list", "dict", "set", "defaultdict", "deque"))
                if not mutable:
                    continue
                mutated = False
                for n in ast.walk(fn):
                    if isinstance(n, ast.Call) and isinstance(n.func, ast.Attribute) and n.func.attr in _MUTATORS and isinstance(n.func.value, ast.Name) and n.func.value.id == p:
                        mutated = True
                    if isinstance(n, (ast.Assign, ast.AugAssign, ast.Delete)):
                        for t in (n.targets if isinstance(n, (ast.Assign, ast.Delete)) else [n.target]):
                            if isinstance(t, ast.Subscript) and isinstance(t.value, ast.Name) and t.value.id == p:
                                mutated = True
                out.append(Obl("no-shared-mutable-default", where, fn.lineno, not mutated, f"parameter `{p}` has a mutable default" + (" that the body mutates: state leaks between calls" if mutated else " (never mutated)")))
        # module level: ordered views of sets (tuple({..}))
        for n in ast.walk(tree):
            if isinstance(n, ast.Call) and isinstance(n.func, ast.Name) and n.func.id in ("tuple", "list") and n.args and _is_set_expr(n.args[0], module_sets):
                fnq = _enclosing_function(tree, n)
                if fnq is None:
                    out.append(Obl("module-hash-ordered-tuple", f"{mname}.<module>", n.lineno, True, f"`{ast.unparse(n)[:70]}` is hash-ordered: its consumers are checked by slot-taint obligations"))
    out += _gradient_fields_slot_taint(mods["svg"])
    out += _lru_cache_obligations(mods)
    return out


def _enclosing_function(tree, node):
    for q, fn in _functions(tree):
        for n in ast.walk(fn):
            if n is node:
                return q
    return None


def _set_consumer_ok(n, par, pm):
    if isinstance(par, ast.Compare) and n in par.comparators:
        return True, "is only tested for membership / equality"
    if isinstance(par, ast.Compare):
        return True, "is only compared"
    if isinstance(par, ast.Call):
        if n in par.args or any(k.value is n for k in par.keywords):
            f = par.func
            if isinstance(f, ast.Name) and f.id in _ORDER_FREE_FUNCS:
                return True, f"is consumed by {f.id}()"
            if isinstance(f, ast.Attribute) and f.attr in _SET_METHODS_ORDER_FREE:
                return True, f"is consumed by .{f.attr}()"
            if isinstance(f, ast.Attribute) and f.attr == "join":
                return False, "is joined into a string in hash order"
            if isinstance(f, ast.Name) and f.id in ("list", "tuple", "enumerate", "iter", "next", "zip", "map", "reversed"):
                return False, f"is turned into an ordered sequence by {f.id}()"
            return True, "is passed on as a value (the callee is checked where it consumes it)"
        if isinstance(par.func, ast.Attribute) and par.func.value is n:
            if par.func.attr in _SET_METHODS_ORDER_FREE:
                return True, f".{par.func.attr}()"
            if par.func.attr == "pop":
                return False, ".pop() takes an arbitrary (hash-ordered) element"
            return True, f".{par.func.attr}()"
    if isinstance(par, ast.Starred):
        call = pm.get(par)
        if isinstance(call, ast.Call) and isinstance(call.func, ast.Name) and call.func.id in COMMUTATIVE_VARARGS:
            return True, f"is spread into {call.func.id}(*...), which treats its arguments as an unordered collection"
        return False, "is spread into positional arguments in hash order"
    if isinstance(par, (ast.For, ast.comprehension)) and par.iter is n:
        # iteration is fine only if the loop body is order-insensitive: generator inside any()/all()/set()/sum()/sorted()
        if isinstance(par, ast.comprehension):
            comp = pm.get(par)
            outer = pm.get(comp)
            if isinstance(comp, ast.SetComp):
                return True, "is iterated to build another set"
            if isinstance(outer, ast.Call) and isinstance(outer.func, ast.Name) and outer.func.id in _ORDER_FREE_FUNCS:
                return True, f"is iterated inside {outer.func.id}()"
        return False, "is iterated in hash order"
    if isinstance(par, ast.BinOp):
        return True, "takes part in set algebra"
    if isinstance(par, (ast.Return, ast.keyword, ast.Dict, ast.Tuple, ast.List, ast.DictComp)):
        return True, "is stored / returned as a value"
    if isinstance(par, (ast.BoolOp, ast.UnaryOp, ast.If, ast.IfExp, ast.Assert, ast.While)):
        return True, "is only tested for emptiness"
    if isinstance(par, ast.arguments):
        return True, "is a default argument value (its consumers inside the function are checked there)"
    if isinstance(par, ast.Subscript):
        return False, "is indexed"
    if isinstance(par, ast.Expr) or isinstance(par, ast.AugAssign):
        return True, "statement-level"
    if isinstance(par, ast.Attribute):
        return True, "attribute access"
    return False, f"is consumed by an unrecognised context ({type(par).__name__})"


def _gradient_fields_slot_taint(tree):
    """_GRADIENT_FIELDS['stop'] is a hash-ordered tuple.  Every ordered iteration over _GRADIENT_FIELDS[k] must be in a
    function that asserts k names a gradient class (so k != 'stop'); membership tests are fine."""
    out = []
    for q, fn in _functions(tree):
        for n in ast.walk(fn):
            if isinstance(n, (ast.For, ast.comprehension)) and isinstance(n.iter, ast.Subscript) and isinstance(n.iter.value, ast.Name) and n.iter.value.id in ("_GRADIENT_FIELDS", "_VALID_FIELDS"):
                guarded = any(isinstance(a, ast.Assert) and "_is_gradient" in ast.unparse(a.test) for a in ast.walk(fn))
                out.append(Obl("hash-ordered-slot-not-iterated", f"svg.{q}", n.iter.lineno, guarded,
                               f"ordered loop over {ast.unparse(n.iter)}: " + ("guarded by `assert _is_gradient(...)`, so the key cannot be the hash-ordered 'stop' slot" if guarded else "the key may be the hash-ordered 'stop' slot")))
    return out


def _lru_cache_obligations(mods):
    out = []
    for mname, tree in mods.items():
        cached = []
        for q, fn in _functions(tree):
            if any("lru_cache" in ast.unparse(d) or "cache" == ast.unparse(d) for d in fn.decorator_list):
                cached.append((q, fn))
        for q, fn in cached:
            short = q.split(".")[-1]
            for q2, fn2 in _functions(tree):
                calls = [n for n in ast.walk(fn2) if isinstance(n, ast.Call) and isinstance(n.func, ast.Attribute) and n.func.attr == short]
                if not calls or fn2 is fn:
                    continue
                clears = [n for n in ast.walk(fn2) if isinstance(n, ast.Call) and isinstance(n.func, ast.Attribute) and n.func.attr == "cache_clear" and short in ast.unparse(n.func)]
                ok = bool(clears) and min(c.lineno for c in clears) < min(c.lineno for c in calls)
                out.append(Obl("memo-cleared-before-use", f"{mname}.{q2}", calls[0].lineno, ok, f"reads the memoised `{short}` " + ("after clearing it in the same call" if ok else "without clearing it first: results of an earlier document may be served")))
            if "." not in q:
                # a memo around a module-level function lives as long as the process: whether its key covers everything the result depends
                # on, and whether callers leave the cached object alone, is not decided here -> undecided, left to the batch-order runs
                uses = [n for q2, fn2 in _functions(tree) for n in ast.walk(fn2) if isinstance(n, ast.Call) and isinstance(n.func, ast.Name) and n.func.id == short and fn2 is not fn]
                if uses:
                    out.append(Obl("memo-cleared-before-use", f"{mname}.{q}", fn.lineno, False, f"process-wide memo around `{short}`: results are shared by every document converted in the process (key completeness / mutation of the cached object not decided statically)", recognised=False))
    return out


# ------------------------------------------------------------------------------------------------ C17
# the known loops of the package and why each terminates; a loop that is not listed (or whose shape changed)
# fails the inventory obligation
VARIANTS = {
    ("svg", "SVG._resolve_use", 0): ("bounded-for-or-variant", "reference cycles are rejected before the loop (ValueError); on an acyclic reference graph every pass lowers the maximal <use> nesting depth by one"),
    ("svg", "SVG._traverse", 0): ("worklist", "every iteration pops one frontier entry and pushes only children of the popped element: decreases the number of unvisited nodes of a finite tree"),
    ("svg", "SVG._iter_nested_svgs", 0): ("worklist", "pops one element, pushes only its children"),
    ("svg", "SVG._inherited_attrib", 0): ("ancestor-walk", "el = el.getparent(): strictly fewer ancestors each iteration"),
    ("svg_meta", "path_segment", 0): ("counter", "i increases by 1 or 2 every iteration towards len(sub_args)"),
    ("svg_path_iter", "_parse_args", 0): ("lexicographic", "(len(raw_args) - j, len(raw_args[j])) decreases: either j += 1 or raw_args[j] loses a non-empty matched prefix"),
}
RECURSION_OK = {
    ("svg", "SVG._resolve_clip_path"): "follows clip-path references; a reference cycle ends in RecursionError (accepted by the property), acyclic chains are finite",
    ("svg", "SVG._apply_gradient_template"): "follows href references; a cycle ends in RecursionError (accepted by the property)",
    ("svg", "SVG._unnest_svg"): "recurses into strictly nested <svg> elements of a finite tree",
    ("svg", "SVG._resolve_use.check_acyclic"): "depth-first search carrying its trail: a repeated id raises, so the depth is bounded by the number of ids; finished ids are memoised",
}


def _trail_guarded(fn, calls):
    """depth-first search that carries its own trail, whatever the names: some parameters X, T with `if X in T: raise ...` before the first
    recursive call, and every recursive call hands down `T + (X,)` in T's place -> the trail grows by a new element per level"""
    params = [a.arg for a in fn.args.args]
    first_call = min(c.lineno for c in calls)
    for st in ast.walk(fn):
        if isinstance(st, ast.If) and st.lineno < first_call and isinstance(st.test, ast.Compare) and len(st.test.ops) == 1 and isinstance(st.test.ops[0], ast.In) \
                and isinstance(st.test.left, ast.Name) and isinstance(st.test.comparators[0], ast.Name) and any(isinstance(b, ast.Raise) for b in st.body):
            x, t = st.test.left.id, st.test.comparators[0].id
            if x not in params or t not in params:
                continue
            pos = params.index(t) - (1 if params and params[0] == "self" else 0)
            ok = True
            for c in calls:
                arg = c.args[pos] if pos < len(c.args) else next((k.value for k in c.keywords if k.arg == t), None)
                ok = ok and isinstance(arg, ast.BinOp) and isinstance(arg.op, ast.Add) and isinstance(arg.left, ast.Name) and arg.left.id == t \
                    and isinstance(arg.right, ast.Tuple) and any(isinstance(e, ast.Name) and e.id == x for e in arg.right.elts)
            if ok:
                return f"depth-first search carrying its trail ({t}): a repeated {x} raises before recursing, so the depth is bounded by the number of distinct values"
    return None


def loop_obligations():
    out = []
    mods = modules()
    for mname, tree in mods.items():
        for q, fn in _functions(tree):
            whiles = [n for n in ast.walk(fn) if isinstance(n, ast.While) and _owner(fn, n)]
            whiles.sort(key=lambda n: n.lineno)
            for i, w in enumerate(whiles):
                key = (mname, q, i)
                v = VARIANTS.get(key)
                ok = v is not None
                text = f"while loop #{i} at line {w.lineno}: " + (f"variant [{v[0]}] {v[1]}" if v else "no variant on record for this loop")
                recognised = True
                if ok:
                    ok, extra, recognised = _check_variant_shape(mname, q, w, v[0], tree, fn)
                    text += "" if ok else (f" - but {extra}" if recognised else f" - the loop does not have the shape the variant was recorded for: {extra}")
                out.append(Obl("loop-has-variant", f"{mname}.{q}", w.lineno, ok, text, recognised))
            # direct recursion
            short = q.split(".")[-1]
            rec = [n for n in ast.walk(fn) if isinstance(n, ast.Call) and ((isinstance(n.func, ast.Attribute) and n.func.attr == short and isinstance(n.func.value, ast.Name) and n.func.value.id == "self") or (isinstance(n.func, ast.Name) and n.func.id == short and "." not in q))]
            rec = [n for n in rec if _owner(fn, n)]
            if rec and not q.startswith("SVG.") or (rec and not _is_inplace_delegation(fn, rec)):
                if rec:
                    why = RECURSION_OK.get((mname, q)) or _trail_guarded(fn, rec)
                    # a recursion the records do not know and whose shape is not recognised is undecided (the adversarial runs decide), not a verdict
                    out.append(Obl("recursion-has-variant", f"{mname}.{q}", rec[0].lineno, why is not None, f"recursive call: " + (why or "no termination argument on record for this function"), recognised=why is not None))
    # the termination argument of every recursion on record is "... or the interpreter's recursion limit ends it" (reference cycles
    # among clipPaths / gradient templates are cut by RecursionError): the package must not move that limit or the thread stack size
    for mname, tree in mods.items():
        bad = [n for n in ast.walk(tree) if isinstance(n, ast.Call) and ((isinstance(n.func, ast.Attribute) and n.func.attr in ("setrecursionlimit", "stack_size")) or (isinstance(n.func, ast.Name) and n.func.id in ("setrecursionlimit", "stack_size")))]
        out.append(Obl("recursion-limit-untouched", f"{mname}", bad[0].lineno if bad else 0, not bad, "no call of sys.setrecursionlimit / threading.stack_size" if not bad else
                       f"line {bad[0].lineno} changes the recursion limit / stack size: recursion along a reference cycle is no longer cut after ~1000 frames"))
    # for loops over something that the body grows
    for mname, tree in mods.items():
        for q, fn in _functions(tree):
            for n in ast.walk(fn):
                if isinstance(n, ast.For) and isinstance(n.iter, ast.Name) and _owner(fn, n):
                    grows = any(isinstance(c, ast.Call) and isinstance(c.func, ast.Attribute) and c.func.attr in ("append", "extend", "insert", "add") and isinstance(c.func.value, ast.Name) and c.func.value.id == n.iter.id for b in n.body for c in ast.walk(b))
                    out.append(Obl("for-does-not-grow-its-iterable", f"{mname}.{q}", n.lineno, not grows, f"for over `{n.iter.id}`" + (" which the body extends" if grows else "")))
    return out


def _owner(fn, node):
    """node belongs to fn itself, not to a nested function"""
    for n in ast.walk(fn):
        if isinstance(n, ast.FunctionDef) and n is not fn:
            if any(x is node for x in ast.walk(n)):
                return False
    return True


def _is_inplace_delegation(fn, rec_calls):
    """svg.method(inplace=True) on a clone is a one-level delegation, not recursion on the same object"""
    return all(isinstance(c.func, ast.Attribute) and isinstance(c.func.value, ast.Name) and c.func.value.id != "self" for c in rec_calls) or \
        all(any(k.arg == "inplace" for k in c.keywords) and isinstance(c.func.value, ast.Name) and c.func.value.id in ("svg",) for c in rec_calls)


def _len_bound(test):
    """`A < len(B)` -> (A, B) names, else None"""
    if isinstance(test, ast.Compare) and len(test.ops) == 1 and isinstance(test.ops[0], ast.Lt) and isinstance(test.left, ast.Name):
        c = test.comparators[0]
        if isinstance(c, ast.Call) and isinstance(c.func, ast.Name) and c.func.id == "len" and len(c.args) == 1 and isinstance(c.args[0], ast.Name):
            return test.left.id, c.args[0].id
    return None


def _increments(w, name):
    """constants added to `name` by augmented assignments in the loop, None if it is assigned in any other way"""
    incs = []
    for n in ast.walk(w):
        if isinstance(n, ast.AugAssign) and isinstance(n.target, ast.Name) and n.target.id == name:
            if isinstance(n.op, ast.Add) and isinstance(n.value, ast.Constant) and isinstance(n.value.value, int):
                incs.append(n.value.value)
            else:
                return None
        if isinstance(n, ast.Assign) and any(isinstance(t, ast.Name) and t.id == name for t in n.targets):
            return None
    return incs


def _check_variant_shape(mname, q, w, kind, tree, fn=None):
    """-> (ok, explanation, recognised).  Shapes are matched on the structure of the loop, not on the names of its variables;
    a loop that does not have the known shape is `not recognised` (undecided), a recognised loop that breaks the variant is a
    failure."""
    if kind == "worklist":
        # `while F:` where every iteration takes one entry off F (F.pop / F.popleft, or F handed to the take-one callback)
        if not isinstance(w.test, ast.Name):
            return False, "expected `while <worklist>:`", False
        f = w.test.id
        takes = [n for n in ast.walk(w) if isinstance(n, ast.Call) and ((isinstance(n.func, ast.Attribute) and n.func.attr in ("pop", "popleft") and isinstance(n.func.value, ast.Name) and n.func.value.id == f)
                                                                      or (isinstance(n.func, ast.Name) and any(isinstance(a, ast.Name) and a.id == f for a in n.args)))]
        first = w.body[0] if w.body else None
        ok = bool(takes) and first is not None and any(t in list(ast.walk(first)) for t in takes)
        return ok, "the first statement of the body no longer takes an entry off the worklist", True
    if kind == "ancestor-walk":
        walks = [n for n in ast.walk(w) if isinstance(n, ast.Assign) and len(n.targets) == 1 and isinstance(n.targets[0], ast.Name) and isinstance(n.value, ast.Call)
                 and isinstance(n.value.func, ast.Attribute) and n.value.func.attr == "getparent" and isinstance(n.value.func.value, ast.Name) and n.value.func.value.id == n.targets[0].id]
        if "getparent()" not in ast.unparse(w.test):
            return False, "expected a loop guarded by `<el>.getparent() is not None`", False
        return bool(walks) and walks[0] in w.body, "the body no longer steps to the parent unconditionally", True
    if kind == "counter":
        ab = _len_bound(w.test)
        if ab is None:
            return False, "expected `while <i> < len(<seq>):`", False
        incs = _increments(w, ab[0])
        if incs is None or not incs:
            return False, f"`{ab[0]}` is not advanced by constant increments only", False
        # every path through the body must advance: the increments sit directly in the body or in both arms of an if
        def advances(stmts):
            for st in stmts:
                if isinstance(st, ast.AugAssign) and isinstance(st.target, ast.Name) and st.target.id == ab[0]:
                    return True
                if isinstance(st, ast.If) and st.orelse and advances(st.body) and advances(st.orelse):
                    return True
            return False
        return all(v > 0 for v in incs) and advances(w.body), f"`{ab[0]}` is not advanced by a positive amount on every path", True
    if kind == "lexicographic":
        ab = _len_bound(w.test)
        if ab is None:
            return False, "expected `while <j> < len(<tokens>):`", False
        j, toks = ab
        shrink = [n for n in ast.walk(w) if isinstance(n, ast.Assign) and len(n.targets) == 1 and isinstance(n.targets[0], ast.Subscript) and isinstance(n.targets[0].value, ast.Name)
                  and n.targets[0].value.id == toks and ast.unparse(n.targets[0].slice) == j and isinstance(n.value, ast.Subscript) and isinstance(n.value.slice, ast.Slice)
                  and n.value.slice.lower is not None and n.value.slice.upper is None]
        incs = _increments(w, j)
        if not shrink or not incs:
            return False, f"expected `{toks}[{j}] = <rest of the token>` or `{j} += 1` per iteration", False
        # an if/else must choose between the two, so that one of them happens on every iteration
        def progresses(stmts):
            for st in stmts:
                if isinstance(st, ast.If) and st.orelse:
                    a, b = list(ast.walk(ast.Module(body=st.body, type_ignores=[]))), list(ast.walk(ast.Module(body=st.orelse, type_ignores=[])))
                    has = lambda nodes: any(n in nodes for n in shrink) or any(isinstance(n, ast.AugAssign) and isinstance(n.target, ast.Name) and n.target.id == j for n in nodes)
                    if has(a) and has(b):
                        return True
            return False
        if not progresses(w.body):
            return False, "no if/else that either shortens the current token or moves to the next one", False
        if not all(v > 0 for v in incs):
            return False, f"`{j}` moves backwards", True
        # progress needs a non-empty match: minimum width of the argument regexes, computed from the compiled patterns
        import re

        from picosvg import svg_path_iter

        widths = [re._parser.parse(p.pattern).getwidth()[0] for p in (svg_path_iter._FLOAT_RE, svg_path_iter._BOOL_RE)]
        return min(widths) >= 1, f"an argument regex may match the empty string (min widths {widths}): the token never shrinks", True
    if kind == "bounded-for-or-variant":
        # either the historical `while True` is gone (a bounded for), or it must break when nothing is left AND detect cycles
        t = ast.unparse(w.test)
        if t == "True":
            before_stmts = [st for st in fn.body if st.lineno < w.lineno] if fn is not None else []
            before = "\n".join(ast.unparse(st) for st in before_stmts)
            # the cycle check may live in a helper that is called before the loop (one level of calls is followed, by name)
            called = {c.func.id if isinstance(c.func, ast.Name) else c.func.attr for st in before_stmts for c in ast.walk(st) if isinstance(c, ast.Call) and isinstance(c.func, (ast.Name, ast.Attribute))}
            for d in ast.walk(tree):
                if isinstance(d, ast.FunctionDef) and d.name in called and d is not fn:
                    before += "\n" + ast.unparse(d)
            src = ast.unparse(w)
            guard_before = "raise ValueError" in before and ("circular" in before.lower() or "cycle" in before.lower())
            guard_inside = "raise ValueError" in src and ("cycle" in src.lower() or "depth" in src.lower())
            return guard_before or guard_inside, "`while True` re-expands <use> elements with no bound and no cycle check: a use cycle never terminates", True
        return True, "", True
    return True, "", True


def parser_obligations():
    out = []
    mods = modules()
    for mname, tree in mods.items():
        for n in ast.walk(tree):
            if isinstance(n, ast.Call) and ast.unparse(n.func).endswith("XMLParser"):
                kw = {k.arg: k.value for k in n.keywords}
                v = kw.get("resolve_entities")
                ok = isinstance(v, ast.Constant) and v.value is False
                out.append(Obl("parser-never-resolves-entities", f"{mname}", n.lineno, ok, "XMLParser(resolve_entities=" + (ast.unparse(v) if v is not None else "<default True>") + ")"))
            if isinstance(n, ast.Call) and ast.unparse(n.func) in ("etree.fromstring", "etree.parse", "etree.XML") :
                has_parser = len(n.args) >= 2 or any(k.arg == "parser" for k in n.keywords)
                out.append(Obl("parse-entry-uses-the-safe-parser", f"{mname}", n.lineno, has_parser, ast.unparse(n)[:80]))
    return out
