"""Abstraction of SVGPath.d strings: the printer/parser bridge (DESIGN 3.4, assumed; C10 checks it bounded).

A path-data string is modelled as the sequence of (cmd, args) snippets that were printed into
it; parsing it back yields those snippets (exploded through the real `_explode_cmd`).
  P1 parse(path_segment(cmd, *args)) == explode(cmd, args)
  P2 parse(d1 + " " + d2) == parse(d1) ++ parse(d2)
  P3 parse("") == []
The real `check_cmd` still runs inside the `path_segment` model, so arity errors surface.
"""
from __future__ import annotations

import z3

from .sym import EngineError, contains_sym


class Snippet:
    __pyvc_abstract__ = True

    def __init__(self, cmd, args):
        self.cmd = cmd
        self.args = tuple(args)

    def __pyvc_rbinop__(self, interp, dunder, left):
        if dunder == "__add__" and isinstance(left, str):
            base = PathData.from_str(interp, left)
            return base.add_snippet(self)
        raise EngineError(f"{dunder} with path snippet")

    def __pyvc_isinstance__(self, Ts):
        return True if str in Ts else None

    def __repr__(self):
        return f"<Snippet {self.cmd} {self.args}>"


class PathData:
    """Immutable."""

    __pyvc_abstract__ = True

    def __init__(self, segs=(), pending_space=False, ghost=None):
        self.segs = tuple(segs)  # ((cmd, args), ...) unexploded
        self.pending_space = pending_space
        self.ghost = ghost  # opaque token for an unknown leading part (cut-point proofs)

    @staticmethod
    def from_str(interp, s: str):
        if s.strip() == "":
            return PathData((), pending_space=s != "")
        if contains_sym(s):
            raise EngineError("symbolic string as path data")
        from picosvg.svg_path_iter import parse_svg_path

        segs = tuple(parse_svg_path(s, exploded=False))  # concrete text: the real parser, natively
        return PathData(segs, pending_space=s.endswith(" "))

    def add_snippet(self, sn: Snippet):
        return PathData(self.segs + ((sn.cmd, sn.args),), False, self.ghost)

    # ---- interpreter protocol -------------------------------------------------------
    def __pyvc_truth__(self, interp):
        if self.segs or self.pending_space:
            return True
        if self.ghost is not None:
            return interp.truth(self.ghost.nonempty)
        return False

    def __pyvc_binop__(self, interp, dunder, other):
        if dunder != "__add__":
            raise EngineError(f"{dunder} on path data")
        if isinstance(other, Snippet):
            return self.add_snippet(other)
        if isinstance(other, PathData):
            if other.ghost is not None:
                raise EngineError("concatenating onto ghost path data")
            return PathData(self.segs + other.segs, other.pending_space, self.ghost)
        if isinstance(other, str):
            if other.strip() == "":
                return PathData(self.segs, True, self.ghost) if other else self
            o = PathData.from_str(interp, other)
            return PathData(self.segs + o.segs, o.pending_space, self.ghost)
        raise EngineError(f"path data + {type(other).__name__}")

    def __pyvc_rbinop__(self, interp, dunder, left):
        if dunder == "__add__" and isinstance(left, str):
            l = PathData.from_str(interp, left)
            if self.ghost is not None:
                raise EngineError("prefixing ghost path data")
            return PathData(l.segs + self.segs, self.pending_space)
        raise EngineError(f"{dunder} with path data")

    def __pyvc_eq__(self, interp, other):
        if isinstance(other, str):
            other = PathData.from_str(interp, other)
        if not isinstance(other, PathData):
            return False
        if self.ghost is not None or other.ghost is not None:
            raise EngineError("== on ghost path data")
        if len(self.segs) != len(other.segs):
            return False
        return interp.eq(self.segs, other.segs)

    def __pyvc_getitem__(self, interp, idx):
        if self.ghost is not None:
            raise EngineError("indexing ghost path data")
        if idx == 0:
            if not self.segs:
                raise IndexError("string index out of range")
            return self.segs[0][0]
        if isinstance(idx, slice) and idx.start == 1 and idx.stop is None and idx.step is None:
            if not self.segs:
                return PathData(())
            return _Tail(self)
        raise EngineError(f"index {idx!r} into path data")

    def __pyvc_isinstance__(self, Ts):
        return True if str in Ts else None

    def __pyvc_contains__(self, interp, item):
        """`"x" in d`: the characters of the printed numbers are not modelled, so the answer is an arbitrary boolean
        (both outcomes are explored) unless the data is empty"""
        if not self.segs and self.ghost is None:
            return False
        if isinstance(item, str) and len(item) == 1 and item.isalpha():
            return any(c == item for c, _ in self.segs) if self.ghost is None else interp.ctx.decide(z3.Bool(f"in!{len(interp.ctx.pc)}"))
        return interp.ctx.decide(z3.Bool(f"in!{len(interp.ctx.pc)}"))

    def __pyvc_copy__(self):
        return self

    def __pyvc_len__(self, interp):
        raise EngineError("len() of path data")

    def commands(self, interp, exploded):
        """parse(d)"""
        from picosvg import svg_meta, svg_path_iter

        out = []
        for cmd, args in self.segs:
            n = interp.call_value(svg_meta.check_cmd, (cmd, args), {})
            if n == 0 or not exploded:
                out.append((cmd, tuple(args)))
            else:
                out.extend(interp.call_value(svg_path_iter._explode_cmd, (n, cmd, tuple(args)), {}))
        return out

    def __repr__(self):
        return f"<PathData {' '.join(c + str(list(a)) for c, a in self.segs)}{' +ghost' if self.ghost else ''}>"


class _Tail:
    """d[1:] - only meaningful when re-prefixed with a command letter ("M" + d[1:])."""

    __pyvc_abstract__ = True

    def __init__(self, pd):
        self.pd = pd

    def __pyvc_rbinop__(self, interp, dunder, left):
        if dunder == "__add__" and isinstance(left, str) and len(left) == 1 and left.isalpha():
            (c0, a0), rest = self.pd.segs[0], self.pd.segs[1:]
            return PathData(((left, a0),) + rest, self.pd.pending_space)
        raise EngineError("use of d[1:]")


def install(H):
    """Route path_segment / parse_svg_path through the bridge while interpreting (symbolic mode only)."""
    if H.mode != "sym":
        return
    from picosvg import svg_meta, svg_path_iter, svg_types

    def m_path_segment(I, cmd, *args):
        I.call_value(svg_meta.check_cmd, (cmd, args), {})
        if contains_sym(cmd):
            raise EngineError("symbolic command letter")
        return Snippet(cmd, args)

    def m_parse(I, d, exploded=False):
        if isinstance(d, PathData):
            if d.ghost is not None:
                return d.ghost.parse(I, d, exploded)
            return iter(d.commands(I, exploded))
        if isinstance(d, str):
            return iter(list(svg_path_iter.parse_svg_path(d, exploded=exploded)))
        raise EngineError(f"parse_svg_path of {type(d).__name__}")

    H.override(svg_meta.path_segment, m_path_segment)
    H.override(svg_path_iter.parse_svg_path, m_parse)
    H.ctx.notes.append("printer/parser bridge P1-P3 between path-data strings and command lists (DESIGN 3.4)")
