"""subprocess worker: convert one adversarial document under an address-space limit; print a one-line JSON verdict"""
import json, resource, sys, time

sys.path.insert(0, sys.argv[1])
resource.setrlimit(resource.RLIMIT_AS, (3 << 30, 3 << 30))
from picosvg.svg import SVG  # noqa: E402

doc = open(sys.argv[2]).read()
t0 = time.time()
try:
    svg = SVG.fromstring(doc)
    out = svg.topicosvg()
    text = out.tostring()
except RecursionError as e:
    print(json.dumps(dict(kind="exception", type="RecursionError", seconds=time.time() - t0)))
    sys.exit(0)
except MemoryError:
    print(json.dumps(dict(kind="exception", type="MemoryError", seconds=time.time() - t0)))
    sys.exit(0)
except Exception as e:  # noqa
    print(json.dumps(dict(kind="exception", type=type(e).__name__, text=str(e)[:200], seconds=time.time() - t0)))
    sys.exit(0)
# the conversion returned normally: what it returned must be a well-formed document of the pico grammar
# (judged by the independent grammar oracle, not by the library's own gate)
verdict = dict(kind="returned", seconds=time.time() - t0, output=text[:4000], violations=[])
try:
    from lxml import etree

    etree.fromstring(text.encode())
    from bounded import oracles

    verdict["violations"] = list(oracles.grammar_violations(text, 3))[:5]
except Exception as e:  # noqa
    verdict["malformed"] = f"{type(e).__name__}: {str(e)[:160]}"
print(json.dumps(verdict))
