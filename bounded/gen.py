"""Grammar-driven generator of small SVG documents for the bounded components (stated input space, DESIGN 4).

Every random choice comes from the `random.Random` handed in (seeded from VERIF_SEED).  Transform lists are drawn
from non-commuting pairs on purpose; colours are distinct so that z-order mistakes change the composited colour.
"""
from __future__ import annotations

NS = 'xmlns="http://www.w3.org/2000/svg" xmlns:xlink="http://www.w3.org/1999/xlink"'
PALETTE = ["red", "blue", "lime", "orange", "purple", "teal", "yellow", "magenta", "#123456", "#abcdef", "gray", "black"]
TRANSFORM_PAIRS = [
    "translate(8 5) scale(1.5)", "scale(1.5) translate(8 5)", "translate(10,4) rotate(20)", "rotate(20) translate(10,4)", "scale(0.8 1.3) rotate(-15)",
    "rotate(30 20 20)", "skewX(15) translate(5 0)", "translate(5 0) skewY(10)", "matrix(0.9 0.2 -0.1 1.1 6 -3)", "scale(-1 1) translate(-60 0)", "translate(12.5 -7.25)",
]


def shape(rnd, fill=True, extra=""):
    x, y = rnd.randint(2, 60), rnd.randint(2, 60)
    w, h = rnd.randint(8, 35), rnd.randint(8, 35)
    kind = rnd.choice(["rect", "rect_round", "circle", "ellipse", "polygon", "path_abs", "path_rel", "path_curvy", "path_arc"])
    f = f' fill="{rnd.choice(PALETTE)}"' if fill else ""
    if kind == "rect":
        return f'<rect x="{x}" y="{y}" width="{w}" height="{h}"{f}{extra}/>'
    if kind == "rect_round":
        return f'<rect x="{x}" y="{y}" width="{w}" height="{h}" rx="{rnd.randint(1, 6)}"{rnd.choice(["", " ry=" + chr(34) + str(rnd.randint(1, 6)) + chr(34)])}{f}{extra}/>'
    if kind == "circle":
        return f'<circle cx="{x + w // 2}" cy="{y + h // 2}" r="{max(3, w // 2)}"{f}{extra}/>'
    if kind == "ellipse":
        return f'<ellipse cx="{x + w // 2}" cy="{y + h // 2}" rx="{max(3, w // 2)}" ry="{max(3, h // 2)}"{f}{extra}/>'
    if kind == "polygon":
        return f'<polygon points="{x},{y} {x + w},{y + 3} {x + w - 4},{y + h} {x + 2},{y + h - 5}"{f}{extra}/>'
    if kind == "path_abs":
        return f'<path d="M{x},{y} H{x + w} V{y + h} L{x},{y + h} Z"{f}{extra}/>'
    if kind == "path_rel":
        return f'<path d="m{x},{y} h{w} v{h} l{-w},0 z m3,3 l{w // 3},0 l0,{h // 3} z"{f}{rnd.choice(["", " fill-rule=" + chr(34) + "evenodd" + chr(34)])}{extra}/>'
    if kind == "path_curvy":
        return f'<path d="M{x},{y} Q{x + w},{y - 4} {x + w},{y + h // 2} T{x + w // 2},{y + h} S{x - 5},{y + h} {x},{y + h // 2} Z"{f}{extra}/>'
    return f'<path d="M{x},{y + h // 2} a{w / 2},{h / 2} {rnd.choice([0, 25])} 1 1 {w},0 a{w / 2},{h / 3} 0 0 1 {-w},0 z"{f}{extra}/>'


def maybe_transform(rnd, p=0.5):
    return f' transform="{rnd.choice(TRANSFORM_PAIRS)}"' if rnd.random() < p else ""


def group(rnd, depth, leaf, attrs=""):
    n = rnd.randint(1, 3)
    kids = [group(rnd, depth - 1, leaf) if depth > 0 and rnd.random() < 0.4 else leaf(rnd) for _ in range(n)]
    return f"<g{maybe_transform(rnd)}{attrs}>{''.join(kids)}</g>"


def structural(rnd):
    """shapes, nested groups, transform lists, defs/use with x/y/transform, nested svg viewports, display:none"""
    defs, body = [], []
    ids = []
    for i in range(rnd.randint(0, 2)):
        ids.append(f"d{i}")
        if rnd.random() < 0.5:
            defs.append(shape(rnd, extra=f' id="d{i}"'))
        else:
            defs.append(f'<g id="d{i}"{maybe_transform(rnd, 0.3)}>{shape(rnd)}{shape(rnd)}</g>')

    def leaf(r):
        c = r.random()
        if ids and c < 0.3:
            xy = f' x="{r.randint(-10, 20)}" y="{r.randint(-10, 20)}"' if r.random() < 0.7 else ""
            return f'<use xlink:href="#{r.choice(ids)}"{xy}{maybe_transform(r, 0.5)}/>'
        if c < 0.4:
            vb = r.choice(['', ' viewBox="0 0 50 50"', ' viewBox="10 5 40 80"'])
            par = r.choice(['', ' preserveAspectRatio="none"', ' preserveAspectRatio="xMinYMax slice"', ' preserveAspectRatio="xMaxYMid meet"'])
            ov = r.choice(['', ' overflow="visible"'])
            return f'<svg x="{r.randint(0, 40)}" y="{r.randint(0, 40)}" width="{r.randint(20, 50)}" height="{r.randint(20, 50)}"{vb}{par}{ov}>{shape(r)}{shape(r)}</svg>'
        if c < 0.47:
            return f'<g display="none">{shape(r)}</g>'
        return shape(r, extra=maybe_transform(r, 0.4))

    for _ in range(rnd.randint(1, 3)):
        body.append(group(rnd, 2, leaf) if rnd.random() < 0.6 else leaf(rnd))
    return f'<svg {NS} viewBox="0 0 100 100"><defs>{"".join(defs)}</defs>{"".join(body)}</svg>'


def clipped(rnd):
    """structural features plus clipPaths: 1-3 children, clip-rule, transforms, nested references, clips on shapes / groups / use"""
    cps = []
    n = rnd.randint(1, 3)
    for i in range(n):
        kids = "".join(shape(rnd, fill=False, extra=rnd.choice(["", ' clip-rule="evenodd"']) + maybe_transform(rnd, 0.3)) for _ in range(rnd.randint(1, 3)))
        nested = f' clip-path="url(#cp{i - 1})"' if i > 0 and rnd.random() < 0.4 else ""
        cps.append(f'<clipPath id="cp{i}"{maybe_transform(rnd, 0.3)}{nested}>{kids}</clipPath>')

    def clip(r):
        return f' clip-path="url(#cp{r.randrange(n)})"'

    target = shape(rnd, extra=' id="t0"')

    def leaf(r):
        c = r.random()
        if c < 0.25:
            return f'<use xlink:href="#t0" x="{r.randint(-5, 15)}" y="{r.randint(-5, 15)}"{clip(r)}/>'
        return shape(r, extra=(clip(r) if r.random() < 0.6 else "") + maybe_transform(r, 0.4))

    body = [group(rnd, 1, leaf, attrs=clip(rnd) if rnd.random() < 0.5 else "") for _ in range(rnd.randint(1, 2))] + [leaf(rnd)]
    return f'<svg {NS} viewBox="0 0 100 100"><defs>{"".join(cps)}{target}</defs>{"".join(body)}</svg>'


def cascade(rnd):
    """paint / opacity / display set by attributes and/or style at any level, overlapping geometry, group opacity"""
    def paint_attrs(r, level):
        a = []
        if r.random() < 0.5:
            v = r.choice(PALETTE)
            a.append(f'style="fill:{v}"' if r.random() < 0.3 else f'fill="{v}"')
        if r.random() < 0.35:
            v = r.choice(["0.5", "0.25", "0.8", "1"])  # fully transparent content is exercised by pinned documents only
            a.append(f'opacity="{v}"')
        if r.random() < 0.25:
            a.append(f'fill-opacity="{r.choice(["0.5", "0.3", "1"])}"')
        if r.random() < 0.15:
            a.append('fill-rule="evenodd"')
        # keep one style attribute at most
        st = [x for x in a if x.startswith("style=")]
        rest = [x for x in a if not x.startswith("style=")]
        if st and any(x.startswith("opacity=") for x in rest) and r.random() < 0.5:
            op = [x for x in rest if x.startswith("opacity=")][0]
            rest.remove(op)
            st = [st[0][:-1] + ";opacity:" + op.split('"')[1] + '"']
        return (" " + " ".join(st + rest)) if (st or rest) else ""

    def leaf(r):
        base = shape(r, fill=False)
        extra = paint_attrs(r, "shape")
        if "fill-rule" in base:
            extra = extra.replace(' fill-rule="evenodd"', "")
        return base.replace("/>", extra + "/>")

    # (the explicit fill of the reused shape is never a palette colour: an explicit value equal to the one inherited
    #  in <defs> is dropped by picosvg before the shape is instanced elsewhere - recorded finding, pinned in the corpus)
    tgt = shape(rnd, fill=False, extra=' id="u0"' + rnd.choice(["", ' fill="cyan"']))

    def leaf_or_use(r):
        if r.random() < 0.2:
            return f'<use xlink:href="#u0" x="{r.randint(0, 20)}"{paint_attrs(r, "use")}/>'
        return leaf(r)

    body = [group(rnd, 2, leaf_or_use, attrs=paint_attrs(rnd, "group")) for _ in range(rnd.randint(1, 3))]
    root_attrs = paint_attrs(rnd, "root")
    return f'<svg {NS} viewBox="0 0 100 100"{root_attrs}><defs>{tgt}</defs>{"".join(body)}</svg>'


def gradients(rnd):
    """linear / radial gradients: numbers or percentages, both units, gradientTransform lists, spread methods, href chains"""
    stops = lambda r: "".join(f'<stop offset="{o}" stop-color="{c}"{r.choice(["", " stop-opacity=" + chr(34) + "0.5" + chr(34)])}/>' for o, c in zip(("0", "0.4", "1"), r.sample(PALETTE[:8], 3)))
    defs = []
    n = rnd.randint(1, 3)
    for i in range(n):
        units = rnd.choice(["", ' gradientUnits="userSpaceOnUse"', ' gradientUnits="objectBoundingBox"'])
        user = "userSpaceOnUse" in units
        gt = rnd.choice(["", ' gradientTransform="translate(4 -2)"', ' gradientTransform="rotate(30)"', ' gradientTransform="scale(1.5 0.75) translate(3 3)"',
                         ' gradientTransform="matrix(0.8 0.3 -0.2 1.1 5 2)"'])
        spread = rnd.choice(["", ' spreadMethod="reflect"', ' spreadMethod="repeat"'])
        href = f' xlink:href="#g{i - 1}"' if i > 0 and rnd.random() < 0.4 else ""
        own_stops = "" if href and rnd.random() < 0.6 else stops(rnd)
        if rnd.random() < 0.5:
            c = (lambda lo, hi: str(rnd.randint(lo, hi))) if user else (lambda lo, hi: str(round(rnd.uniform(0, 1), 2)))
            coords = rnd.choice(["", f' x1="{c(0, 40)}" y1="{c(0, 40)}" x2="{c(50, 100)}" y2="{c(0, 100)}"', ' x1="10%" x2="90%" y2="50%"'])
            defs.append(f'<linearGradient id="g{i}"{coords}{units}{gt}{spread}{href}>{own_stops}</linearGradient>')
        else:
            if user:
                coords = rnd.choice([f' cx="{rnd.randint(20, 80)}" cy="{rnd.randint(20, 80)}" r="{rnd.randint(15, 50)}"', ' cx="40%" cy="60%" r="45%"',
                                     f' cx="50" cy="50" r="40" fx="{rnd.randint(35, 65)}" fy="{rnd.randint(35, 65)}"'])
            else:
                coords = rnd.choice(["", ' cx="0.4" cy="0.6" r="0.5"', ' cx="0.5" cy="0.5" r="0.5" fx="0.3" fy="0.4"', ' cx="30%" cy="70%" r="60%"'])
            defs.append(f'<radialGradient id="g{i}"{coords}{units}{gt}{spread}{href}>{own_stops}</radialGradient>')
    body = []
    for _ in range(rnd.randint(1, 3)):
        s = shape(rnd, fill=False, extra=f' fill="url(#g{rnd.randrange(n)})"' + maybe_transform(rnd, 0.5))
        body.append(s if rnd.random() < 0.6 else f"<g{maybe_transform(rnd, 0.7)}>{s}</g>")
    return f'<svg {NS} viewBox="0 0 100 100"><defs>{"".join(defs)}</defs>{"".join(body)}</svg>'


def stroked(rnd):
    """polylines / simple shapes with plain strokes (butt caps, miter joins) for the three-valued stroke region"""
    body = []
    for _ in range(rnd.randint(1, 3)):
        x, y = rnd.randint(10, 50), rnd.randint(10, 50)
        w = rnd.choice([2, 3, 4, 6])
        col = rnd.choice(PALETTE[:6])
        fill = rnd.choice(["none", rnd.choice(PALETTE[6:])])
        so = rnd.choice(["", ' stroke-opacity="0.5"'])
        kind = rnd.choice(["line", "poly", "rect", "circle"])
        t = maybe_transform(rnd, 0.4)
        if kind == "line":
            body.append(f'<line x1="{x}" y1="{y}" x2="{x + 30}" y2="{y + rnd.randint(-8, 8)}" stroke="{col}" stroke-width="{w}"{so}{t}/>')
        elif kind == "poly":
            body.append(f'<path d="M{x},{y} L{x + 30},{y} L{x + 30},{y + 25}" fill="{fill}" stroke="{col}" stroke-width="{w}"{so}{t}/>')
        elif kind == "rect":
            body.append(f'<rect x="{x}" y="{y}" width="30" height="22" fill="{fill}" stroke="{col}" stroke-width="{w}"{so}{t}/>')
        else:
            body.append(f'<circle cx="{x + 10}" cy="{y + 10}" r="14" fill="{fill}" stroke="{col}" stroke-width="{w}"{so}{t}/>')
    return f'<svg {NS} viewBox="0 0 100 100">{"".join(body)}</svg>'


FAMILIES = {"structural": structural, "clipped": clipped, "cascade": cascade, "gradients": gradients, "stroked": stroked}


def documents(family, seed, count):
    import random

    f = FAMILIES[family]
    for i in range(count):
        rnd = random.Random(f"{family}:{seed}:{i}")
        yield f"{family}-{seed}-{i}", f(rnd)
