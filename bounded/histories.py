"""C15 bounded stand-in: operation histories on an SVG object vs the same history with a serialise / re-parse
between every two steps.  Exhaustive up to a stated length over a stated operation list and corpus."""
from __future__ import annotations

import copy
import itertools
import random

from lxml import etree


def _ops():
    from picosvg.svg import SVG

    def op(name, *args, query=False, **kw):
        return (name, args, kw, query)

    return [
        op("absolute"), op("shapes_to_paths"), op("expand_shorthand"), op("apply_style_attributes"), op("resolve_use"), op("simplify"),
        op("clip_to_viewbox"), op("evenodd_to_nonzero_winding"), op("round_floats", 2), op("remove_empty_subpaths"), op("remove_unpainted_shapes"),
        op("remove_nonsvg_content"), op("remove_processing_instructions"), op("remove_anonymous_symbols"), op("remove_title_meta_desc"),
        op("set_attributes", (("data-x", "1"),), xpath="//svg:rect | //svg:path | /svg:svg"), op("remove_attributes", ("width", "fill")), op("normalize_opacity"),
        op("resolve_nested_svgs"), op("topicosvg"),
        op("append_to", "/svg:svg", "<rect xmlns='http://www.w3.org/2000/svg' x='1' y='2' width='3' height='4' fill='purple'/>", query="mutating-no-inplace"),
        op("shapes", query=True), op("bounding_box", query=True), op("view_box", query=True), op("tostring", query=True), op("checkpicosvg", query=True),
    ]


def canon(svg) -> str:
    try:
        return etree.tostring(etree.fromstring(svg.tostring().encode()), method="c14n").decode()
    except Exception as e:  # noqa
        return f"<<tostring failed: {type(e).__name__}: {e}>>"


def _signature(svg):
    """raw tree bytes + cached shapes, without flushing anything"""
    cache = tuple(tuple(str(s) + repr(getattr(s, "d", "")) for s in shapes) for _, shapes in (svg.elements or ()))
    return etree.tostring(svg.svg_root), cache


def run_history(doc, hist, reparse):
    """-> ("ok", canonical xml, notes) or ("exc", exception type name, notes); notes list protocol breaches"""
    from picosvg.svg import SVG

    svg = SVG.fromstring(doc)
    notes = []
    for (name, args, kw, query), inplace in hist:
        if reparse:
            svg = SVG.fromstring(svg.tostring())
        try:
            if query == "mutating-no-inplace":
                getattr(svg, name)(args[0], etree.fromstring(args[1]))
                continue
            if query:
                getattr(svg, name)(*args, **kw)
                continue
            # (the receiver-unchanged half of the property is checked by check_copy_keeps_receiver below: serialising the
            # receiver here would flush its shape cache and hide lost edits)
            res = getattr(svg, name)(*args, inplace=inplace, **kw)
            if inplace:
                if res is not svg:
                    notes.append(f"{name}(inplace=True) returned {type(res).__name__} instead of the receiver")
            else:
                if res is svg or res is None:
                    notes.append(f"{name}() copy form returned {'the receiver' if res is svg else 'None'}")
                svg = res if res is not None else svg
        except Exception as e:  # noqa
            return ("exc", type(e).__name__, notes)
    # the object must agree with its own serialisation: what shapes() reports == the shapes of tostring() re-parsed
    try:
        import dataclasses

        summary = lambda shapes: [(type(x).__name__,) + tuple(dataclasses.astuple(x)) for x in shapes]
        mine = summary(svg.shapes())
        theirs = summary(SVG.fromstring(svg.tostring()).shapes())
        if mine != theirs:
            notes.append(f"shapes() reports {len(mine)} shape(s) that differ from the {len(theirs)} shape(s) of the object's own serialisation")
    except Exception:  # noqa
        pass
    return ("ok", canon(svg), notes)


def describe(hist):
    return [f"{name}({', '.join(map(repr, args))}{', ' if args else ''}inplace={inplace})" if not q else f"{name}()" for (name, args, kw, q), inplace in hist]


def check_history(doc, hist):
    """-> None or text of the disagreement"""
    a = run_history(doc, hist, reparse=False)
    b = run_history(doc, hist, reparse=True)
    if a[2]:
        return "; ".join(a[2])
    if a[0] != b[0] or a[1] != b[1]:
        if a[0] == "exc" or b[0] == "exc":
            return f"object history gives {a[0]}:{a[1][:60]} but serialise/re-parse history gives {b[0]}:{b[1][:60]}"
        return "final document differs from the serialise/re-parse run"
    return None


def enumerate_histories(max_len, seed, random_long=0, only=None):
    ops = _ops()
    if only:
        ops = [o for o in ops if o[0] in only]
    steps = [(o, ip) for o in ops for ip in ((True, False) if not o[3] else (True,))]
    for n in range(1, max_len + 1):
        for h in itertools.product(steps, repeat=n):
            yield h
    rnd = random.Random(seed)
    for _ in range(random_long):
        yield tuple(rnd.choice(steps) for _ in range(rnd.randint(max_len + 1, 8)))


def check_copy_keeps_receiver(doc, op, warm):
    """copying form leaves the receiver's serialisation unchanged (receiver optionally with a loaded shape cache)"""
    from picosvg.svg import SVG

    name, args, kw, query = op
    if query:
        return None
    svg = SVG.fromstring(doc)
    if warm:
        svg.shapes()
    before = canon(svg)  # flushes: from here on tree and cache agree
    if warm:
        svg.shapes()
    try:
        getattr(svg, name)(*args, inplace=False, **kw)
    except Exception:  # noqa
        pass
    after = canon(svg)
    return None if before == after else f"{name}() copy form changed the receiver's serialisation"
