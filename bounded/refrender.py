"""An independent, compact reference evaluator of the SVG rendering model (oracle O8 of DESIGN section 4).

Written from the SVG 1.1 specification; it does not import picosvg.  It evaluates the composited colour of a
document at a sample point:  structure (g, use, nested svg, defs), transform lists, the cascade (attributes, style,
inheritance, display:none, group opacity), fills (solid, linear / radial gradients with units, transforms, spread,
href templates), clip paths (union of children under clip-rule, nested clipPath references, transforms), fill rules,
and a three-valued stroke region (returns None where a cap / join / dash end makes membership ambiguous).
Curves are flattened finely; points closer than `eps` to any edge are not sampled by the callers.
"""
from __future__ import annotations

import math
import re

from lxml import etree

SVG = "{http://www.w3.org/2000/svg}"
XLINK = "{http://www.w3.org/1999/xlink}href"

COLORS = {"black": (0, 0, 0), "white": (1, 1, 1), "red": (1, 0, 0), "green": (0, 128 / 255, 0), "lime": (0, 1, 0), "blue": (0, 0, 1), "yellow": (1, 1, 0),
          "purple": (128 / 255, 0, 128 / 255), "teal": (0, 128 / 255, 128 / 255), "orange": (1, 165 / 255, 0), "gray": (128 / 255,) * 3, "cyan": (0, 1, 1), "magenta": (1, 0, 1)}

INHERITED = ("fill", "fill-rule", "fill-opacity", "clip-rule", "stroke", "stroke-width", "stroke-opacity", "stroke-linecap", "stroke-linejoin", "stroke-miterlimit",
             "stroke-dasharray", "stroke-dashoffset", "color")
DEFAULTS = {"fill": "black", "fill-rule": "nonzero", "fill-opacity": "1", "clip-rule": "nonzero", "stroke": "none", "stroke-width": "1", "stroke-opacity": "1",
            "stroke-linecap": "butt", "stroke-linejoin": "miter", "stroke-miterlimit": "4", "stroke-dasharray": "none", "stroke-dashoffset": "0", "color": "black"}


# ------------------------------------------------------------------------------------------------ matrices
def mul(A, B):
    a1, b1, c1, d1, e1, f1 = A
    a2, b2, c2, d2, e2, f2 = B
    return (a1 * a2 + c1 * b2, b1 * a2 + d1 * b2, a1 * c2 + c1 * d2, b1 * c2 + d1 * d2, a1 * e2 + c1 * f2 + e1, b1 * e2 + d1 * f2 + f1)


def apply(M, p):
    return (M[0] * p[0] + M[2] * p[1] + M[4], M[1] * p[0] + M[3] * p[1] + M[5])


def invert(M):
    a, b, c, d, e, f = M
    det = a * d - b * c
    if abs(det) < 1e-300:
        return None
    ia, ib, ic, id_ = d / det, -b / det, -c / det, a / det
    return (ia, ib, ic, id_, -(ia * e + ic * f), -(ib * e + id_ * f))


I = (1.0, 0.0, 0.0, 1.0, 0.0, 0.0)
_NUM = r"[-+]?(?:\d+\.?\d*|\.\d+)(?:[eE][-+]?\d+)?"


def parse_transform(s):
    M = I
    for name, args in re.findall(r"([a-zA-Z]+)\s*\(([^)]*)\)", s or ""):
        a = [float(x) for x in re.findall(_NUM, args)]
        n = name.lower()
        if n == "matrix":
            T = tuple(a)
        elif n == "translate":
            T = (1, 0, 0, 1, a[0], a[1] if len(a) > 1 else 0)
        elif n == "scale":
            T = (a[0], 0, 0, a[1] if len(a) > 1 else a[0], 0, 0)
        elif n == "rotate":
            r = math.radians(a[0])
            R = (math.cos(r), math.sin(r), -math.sin(r), math.cos(r), 0, 0)
            T = mul(mul((1, 0, 0, 1, a[1], a[2]), R), (1, 0, 0, 1, -a[1], -a[2])) if len(a) == 3 else R
        elif n == "skewx":
            T = (1, 0, math.tan(math.radians(a[0])), 1, 0, 0)
        elif n == "skewy":
            T = (1, math.tan(math.radians(a[0])), 0, 1, 0, 0)
        else:
            raise ValueError(name)
        M = mul(M, T)
    return M


# ------------------------------------------------------------------------------------------------ path data -> polylines
_TOK = re.compile(r"([MmZzLlHhVvCcSsQqTtAa])|(" + _NUM + ")")
_ARITY = {"m": 2, "z": 0, "l": 2, "h": 1, "v": 1, "c": 6, "s": 4, "q": 4, "t": 2, "a": 7}


def parse_path(d):
    out, cmd, args = [], None, []

    def flush():
        nonlocal args
        if cmd is None:
            return
        n = _ARITY[cmd.lower()]
        if n == 0:
            out.append((cmd, ()))
        else:
            c = cmd
            for i in range(0, len(args) - n + 1, n):
                out.append((c, tuple(args[i:i + n])))
                if c == "M":
                    c = "L"
                elif c == "m":
                    c = "l"
        args = []

    pos = 0
    d = d or ""
    while pos < len(d):
        ch = d[pos]
        if ch in " ,\t\r\n":
            pos += 1
            continue
        if ch.isalpha() and ch in "MmZzLlHhVvCcSsQqTtAa":
            flush()
            cmd = ch
            pos += 1
            continue
        if cmd is not None and cmd.lower() == "a" and len(args) % 7 in (3, 4) and ch in "01":
            args.append(float(ch))
            pos += 1
            continue
        m = re.compile(_NUM).match(d, pos)
        if not m:
            raise ValueError(f"bad path data at {pos}: {d[pos:pos + 10]!r}")
        args.append(float(m.group(0)))
        pos = m.end()
    flush()
    return out


def _arc_points(p0, rx, ry, rot, large, sweep, p1, n=48):
    if p0 == p1:
        return []
    if rx == 0 or ry == 0:
        return [p1]
    phi = math.radians(rot)
    rx, ry = abs(rx), abs(ry)
    x1p = math.cos(phi) * (p0[0] - p1[0]) / 2 + math.sin(phi) * (p0[1] - p1[1]) / 2
    y1p = -math.sin(phi) * (p0[0] - p1[0]) / 2 + math.cos(phi) * (p0[1] - p1[1]) / 2
    lam = x1p * x1p / (rx * rx) + y1p * y1p / (ry * ry)
    if lam > 1:
        rx, ry = math.sqrt(lam) * rx, math.sqrt(lam) * ry
    num = rx * rx * ry * ry - rx * rx * y1p * y1p - ry * ry * x1p * x1p
    den = rx * rx * y1p * y1p + ry * ry * x1p * x1p
    co = math.sqrt(max(num / den, 0.0)) * (1 if bool(large) != bool(sweep) else -1)
    cxp, cyp = co * rx * y1p / ry, -co * ry * x1p / rx
    cx = math.cos(phi) * cxp - math.sin(phi) * cyp + (p0[0] + p1[0]) / 2
    cy = math.sin(phi) * cxp + math.cos(phi) * cyp + (p0[1] + p1[1]) / 2
    ang = lambda ux, uy, vx, vy: math.atan2(ux * vy - uy * vx, ux * vx + uy * vy)
    th1 = ang(1, 0, (x1p - cxp) / rx, (y1p - cyp) / ry)
    dth = ang((x1p - cxp) / rx, (y1p - cyp) / ry, (-x1p - cxp) / rx, (-y1p - cyp) / ry)
    if not sweep and dth > 0:
        dth -= 2 * math.pi
    elif sweep and dth < 0:
        dth += 2 * math.pi
    pts = []
    for k in range(1, n + 1):
        t = th1 + dth * k / n
        x, y = rx * math.cos(t), ry * math.sin(t)
        pts.append((cx + math.cos(phi) * x - math.sin(phi) * y, cy + math.sin(phi) * x + math.cos(phi) * y))
    pts[-1] = p1
    return pts


def flatten_path(cmds, n=24):
    """-> list of (points, closed)"""
    subs, cur, start, pts = [], (0.0, 0.0), (0.0, 0.0), None
    rc = rq = None

    def ab(c, x, y):
        return (x, y) if c.isupper() else (cur[0] + x, cur[1] + y)

    for c, a in cmds:
        k = c.lower()
        if k == "m":
            if pts and len(pts) > 1:
                subs.append((pts, False))
            cur = start = ab(c, a[0], a[1])
            pts = [cur]
            rc = rq = None
            continue
        if pts is None:
            pts = [cur]
        if k == "z":
            if pts and len(pts) > 1:
                subs.append((pts, True))
            cur = start
            pts = [cur]
            rc = rq = None
            continue
        if k == "l":
            cur = ab(c, a[0], a[1]); pts.append(cur); rc = rq = None
        elif k == "h":
            cur = (a[0] if c.isupper() else cur[0] + a[0], cur[1]); pts.append(cur); rc = rq = None
        elif k == "v":
            cur = (cur[0], a[0] if c.isupper() else cur[1] + a[0]); pts.append(cur); rc = rq = None
        elif k in "cs":
            if k == "c":
                c1, c2, e = ab(c, a[0], a[1]), ab(c, a[2], a[3]), ab(c, a[4], a[5])
            else:
                c1 = (2 * cur[0] - rc[0], 2 * cur[1] - rc[1]) if rc else cur
                c2, e = ab(c, a[0], a[1]), ab(c, a[2], a[3])
            for i in range(1, n + 1):
                t = i / n; m = 1 - t
                pts.append((m ** 3 * cur[0] + 3 * m * m * t * c1[0] + 3 * m * t * t * c2[0] + t ** 3 * e[0], m ** 3 * cur[1] + 3 * m * m * t * c1[1] + 3 * m * t * t * c2[1] + t ** 3 * e[1]))
            cur, rc, rq = e, c2, None
        elif k in "qt":
            if k == "q":
                c1, e = ab(c, a[0], a[1]), ab(c, a[2], a[3])
            else:
                c1 = (2 * cur[0] - rq[0], 2 * cur[1] - rq[1]) if rq else cur
                e = ab(c, a[0], a[1])
            for i in range(1, n + 1):
                t = i / n; m = 1 - t
                pts.append((m * m * cur[0] + 2 * m * t * c1[0] + t * t * e[0], m * m * cur[1] + 2 * m * t * c1[1] + t * t * e[1]))
            cur, rq, rc = e, c1, None
        elif k == "a":
            e = ab(c, a[5], a[6])
            pts.extend(_arc_points(cur, a[0], a[1], a[2], a[3], a[4], e))
            cur = e; rc = rq = None
    if pts and len(pts) > 1:
        subs.append((pts, False))
    return subs


def shape_subpaths(el):
    t = etree.QName(el).localname
    g = lambda k, dflt=0.0: float(el.get(k, dflt))
    if t == "path":
        return flatten_path(parse_path(el.get("d", "")))
    if t == "rect":
        x, y, w, h = g("x"), g("y"), g("width"), g("height")
        rx, ry = el.get("rx"), el.get("ry")
        rx = float(rx) if rx is not None else None
        ry = float(ry) if ry is not None else None
        if rx is None and ry is None:
            rx = ry = 0.0
        elif rx is None:
            rx = ry
        elif ry is None:
            ry = rx
        rx, ry = min(rx, w / 2), min(ry, h / 2)
        if w <= 0 or h <= 0:
            return []
        if rx <= 0 or ry <= 0:
            return [([(x, y), (x + w, y), (x + w, y + h), (x, y + h), (x, y)], True)]
        d = f"M{x + rx},{y} H{x + w - rx} A{rx},{ry} 0 0 1 {x + w},{y + ry} V{y + h - ry} A{rx},{ry} 0 0 1 {x + w - rx},{y + h} H{x + rx} A{rx},{ry} 0 0 1 {x},{y + h - ry} V{y + ry} A{rx},{ry} 0 0 1 {x + rx},{y} Z"
        return flatten_path(parse_path(d))
    if t in ("circle", "ellipse"):
        cx, cy = g("cx"), g("cy")
        rx, ry = (g("r"), g("r")) if t == "circle" else (g("rx"), g("ry"))
        if rx <= 0 or ry <= 0:
            return []
        pts = [(cx + rx * math.cos(2 * math.pi * i / 96), cy + ry * math.sin(2 * math.pi * i / 96)) for i in range(96)]
        return [(pts + [pts[0]], True)]
    if t == "line":
        return [([(g("x1"), g("y1")), (g("x2"), g("y2"))], False)]
    if t in ("polyline", "polygon"):
        nums = [float(v) for v in re.findall(_NUM, el.get("points", ""))]
        pts = list(zip(nums[0::2], nums[1::2]))
        if len(pts) < 2:
            return []
        return [(pts + ([pts[0]] if t == "polygon" else []), t == "polygon")]
    return None


def winding(subs, p, rule):
    """point membership of the fill region (every subpath is implicitly closed for filling)"""
    wn = cross = 0
    x, y = p
    for pts, _closed in subs:
        q = pts if pts[0] == pts[-1] else pts + [pts[0]]
        for (x0, y0), (x1, y1) in zip(q, q[1:]):
            if (y0 <= y) != (y1 <= y):
                t = (y - y0) / (y1 - y0)
                if x0 + t * (x1 - x0) > x:
                    cross += 1
                    wn += 1 if y1 > y0 else -1
    return (cross % 2 == 1) if rule == "evenodd" else (wn != 0)


def dist_to_edges(subs, p, fill=True):
    best = float("inf")
    for pts, closed in subs:
        q = pts if (not fill or pts[0] == pts[-1]) else pts + [pts[0]]
        for (x0, y0), (x1, y1) in zip(q, q[1:]):
            dx, dy = x1 - x0, y1 - y0
            L = dx * dx + dy * dy
            t = 0 if L == 0 else max(0, min(1, ((p[0] - x0) * dx + (p[1] - y0) * dy) / L))
            best = min(best, math.hypot(p[0] - (x0 + t * dx), p[1] - (y0 + t * dy)))
    return best


# ------------------------------------------------------------------------------------------------ document model
class Doc:
    def __init__(self, text):
        parser = etree.XMLParser(remove_comments=True, resolve_entities=False)
        if isinstance(text, str):
            if "xlink:href" in text and "xmlns:xlink" not in text:
                text = text.replace("<svg", '<svg xmlns:xlink="http://www.w3.org/1999/xlink"', 1)
            text = text.encode()
        self.root = etree.fromstring(text, parser)
        self.ids = {e.get("id"): e for e in self.root.iter() if isinstance(e.tag, str) and e.get("id")}
        vb = self.root.get("viewBox")
        if vb:
            self.viewbox = tuple(float(v) for v in re.findall(_NUM, vb))
        else:
            self.viewbox = (0.0, 0.0, float(self.root.get("width", 100)), float(self.root.get("height", 100)))
        self.edges = []  # (subpaths in user space) of everything that can paint or clip: for the epsilon band

    # -------- cascade
    def props(self, el, inherited):
        own = dict(el.attrib)
        for decl in (el.get("style") or "").split(";"):
            if ":" in decl:
                k, v = decl.split(":", 1)
                own[k.strip()] = v.strip()
        out = dict(inherited)
        for k in INHERITED:
            if k in own and own[k] != "inherit":
                out[k] = own[k]
        return out, own

    def href(self, el):
        h = el.get(XLINK) or el.get("href") or ""
        return self.ids.get(h[1:]) if h.startswith("#") else None

    # -------- paint servers
    def paint(self, value, props, subs_user, M):
        """-> function p -> (r, g, b, a) or None"""
        value = (value or "").strip()
        if value in ("", "none"):
            return None
        if value == "currentColor":
            value = props.get("color", "black")
        m = re.match(r"url\(#([^)]+)\)", value)
        if m:
            g = self.ids.get(m.group(1))
            if g is None:
                return None
            return self.gradient(g, subs_user, M)
        if value.startswith("#"):
            h = value[1:]
            if len(h) == 3:
                h = "".join(c * 2 for c in h)
            rgb = tuple(int(h[i:i + 2], 16) / 255 for i in (0, 2, 4))
        else:
            rgb = COLORS.get(value.lower())
            if rgb is None:
                raise ValueError(f"colour {value!r} not known to the reference evaluator")
        return lambda p: rgb + (1.0,)

    def _grad_attr(self, g, name, seen=None):
        seen = seen or set()
        if g.get(name) is not None:
            return g.get(name)
        t = self.href(g)
        if t is not None and id(t) not in seen:
            seen.add(id(g))
            return self._grad_attr(t, name, seen)
        return None

    def _stops(self, g, seen=None):
        seen = seen or set()
        st = [c for c in g if isinstance(c.tag, str) and etree.QName(c).localname == "stop"]
        if st:
            return st
        t = self.href(g)
        if t is not None and id(t) not in seen:
            seen.add(id(g))
            return self._stops(t, seen)
        return []

    def gradient(self, g, subs_local, M):
        kind = etree.QName(g).localname
        units = self._grad_attr(g, "gradientUnits") or "objectBoundingBox"
        gt = parse_transform(self._grad_attr(g, "gradientTransform") or "")
        spread = self._grad_attr(g, "spreadMethod") or "pad"
        xs = [p[0] for pts, _ in subs_local for p in pts]
        ys = [p[1] for pts, _ in subs_local for p in pts]
        if not xs:
            return None
        bbox = (min(xs), min(ys), max(xs) - min(xs), max(ys) - min(ys))
        vb = self.viewbox

        def num(name, dflt, ref):
            v = self._grad_attr(g, name)
            v = dflt if v is None else v
            if v.endswith("%"):
                f = float(v[:-1]) / 100
                return f * (ref if units == "userSpaceOnUse" else 1)
            return float(v)

        if units == "objectBoundingBox":
            if bbox[2] == 0 or bbox[3] == 0:
                return None
            B = (bbox[2], 0, 0, bbox[3], bbox[0], bbox[1])
            gm = mul(B, gt)
        else:
            gm = gt
        full = mul(M, gm)  # gradient space -> canvas
        inv = invert(full)
        if inv is None:
            return None
        stops = []
        for s in self._stops(g):
            sty = dict(s.attrib)
            for decl in (s.get("style") or "").split(";"):
                if ":" in decl:
                    k, v = decl.split(":", 1)
                    sty[k.strip()] = v.strip()
            off = sty.get("offset", "0")
            off = float(off[:-1]) / 100 if off.endswith("%") else float(off)
            col = self.paint(sty.get("stop-color", "black"), {}, None, I)((0, 0))
            stops.append((max(0, min(1, off)), col[:3] + (float(sty.get("stop-opacity", 1)),)))
        if not stops:
            return None
        for i in range(1, len(stops)):
            if stops[i][0] < stops[i - 1][0]:
                stops[i] = (stops[i - 1][0], stops[i][1])
        if kind == "linearGradient":
            x1, y1, x2, y2 = num("x1", "0%", vb[2]), num("y1", "0%", vb[3]), num("x2", "100%", vb[2]), num("y2", "0%", vb[3])

            def param(q):
                dx, dy = x2 - x1, y2 - y1
                L = dx * dx + dy * dy
                return 0.0 if L == 0 else ((q[0] - x1) * dx + (q[1] - y1) * dy) / L
        else:
            diag = math.hypot(vb[2], vb[3]) / math.sqrt(2)
            cx, cy, r = num("cx", "50%", vb[2]), num("cy", "50%", vb[3]), num("r", "50%", diag)
            fx = num("fx", None, vb[2]) if self._grad_attr(g, "fx") is not None else cx
            fy = num("fy", None, vb[3]) if self._grad_attr(g, "fy") is not None else cy

            def param(q):
                if r <= 0:
                    return 1.0
                # largest t with |q - (f + t (c - f))| = t r   (fr = 0)
                dx, dy = q[0] - fx, q[1] - fy
                cdx, cdy = cx - fx, cy - fy
                a = cdx * cdx + cdy * cdy - r * r
                b = dx * cdx + dy * cdy
                c = dx * dx + dy * dy
                if abs(a) < 1e-12:
                    return c / (2 * b) if b > 0 else 1.0
                disc = b * b - a * c
                if disc < 0:
                    return 1.0
                t1, t2 = (b + math.sqrt(disc)) / a, (b - math.sqrt(disc)) / a
                ts = [t for t in (t1, t2) if t >= 0]
                return max(ts) if ts else 1.0

        def color(p):
            q = apply(inv, p)
            t = param(q)
            if spread == "repeat":
                t = t - math.floor(t)
            elif spread == "reflect":
                t = t % 2
                t = 2 - t if t > 1 else t
            t = max(0, min(1, t))
            if t <= stops[0][0]:
                return stops[0][1]
            for (o0, c0), (o1, c1) in zip(stops, stops[1:]):
                if t <= o1:
                    if o1 == o0:
                        return c1
                    f = (t - o0) / (o1 - o0)
                    return tuple(c0[i] + f * (c1[i] - c0[i]) for i in range(4))
            return stops[-1][1]

        return color

    # -------- clip regions
    def clip_region(self, ref, M, depth=0):
        """-> function p -> bool (inside the clip), for clip-path="url(#id)" referenced under CTM M"""
        m = re.match(r"url\(#([^)]+)\)", (ref or "").strip())
        if not m:
            return None
        cp = self.ids.get(m.group(1))
        if cp is None or depth > 20:
            raise ValueError("unresolvable clip-path")
        Mc = mul(M, parse_transform(cp.get("transform", "")))
        parts = []
        for ch in cp:
            if not isinstance(ch.tag, str):
                continue
            for (subs, rule) in self._clip_child(ch, Mc, depth, inherited=self.props(cp, DEFAULTS)[0]):
                parts.append((subs, rule))
                self.edges.append(subs)
        # a clip-path on the clipPath itself lives in the clipPath's own coordinate system, i.e. including its transform
        # (the transform attribute of an element also governs that element's clip-path)
        own = self.clip_region(cp.get("clip-path"), Mc, depth + 1) if cp.get("clip-path") else None

        def inside(p):
            if own is not None and not own(p):
                return False
            return any(winding(s, p, r) for s, r in parts)

        return inside

    def _clip_child(self, ch, M, depth, inherited=None):
        t = etree.QName(ch).localname
        # clip-rule is an inherited property: a child without its own value takes the clipPath's (SVG 1.1 14.3.5 / property index)
        props, own = self.props(ch, inherited or DEFAULTS)
        if own.get("display") == "none":
            return []
        Mc = mul(M, parse_transform(ch.get("transform", "")))
        if t == "use":
            tgt = self.href(ch)
            if tgt is None:
                raise ValueError("dangling use")
            Mu = mul(Mc, (1, 0, 0, 1, float(ch.get("x", 0)), float(ch.get("y", 0))))
            return self._clip_child(tgt, Mu, depth + 1, inherited=props)
        subs = shape_subpaths(ch)
        if subs is None:
            return []
        subs_c = [([apply(Mc, p) for p in pts], c) for pts, c in subs]
        rule = props.get("clip-rule", "nonzero")
        # a clip child may itself be clipped
        if own.get("clip-path"):
            inner = self.clip_region(own["clip-path"], Mc, depth + 1)
            return [(_Clipped(subs_c, rule, inner), rule)]
        return [(subs_c, rule)]


class _Clipped(list):
    """polylines plus an extra membership predicate (a clipped clip child)"""

    def __init__(self, subs, rule, pred):
        super().__init__(subs)
        self.pred = pred


_orig_winding = winding


def winding(subs, p, rule):  # noqa: F811
    if isinstance(subs, _Clipped) and not subs.pred(p):
        return False
    return _orig_winding(subs, p, rule)


def over(dst, src):
    """source-over, non-premultiplied rgba"""
    sa, da = src[3], dst[3]
    oa = sa + da * (1 - sa)
    if oa <= 0:
        return (0, 0, 0, 0)
    return tuple((src[i] * sa + dst[i] * da * (1 - sa)) / oa for i in range(3)) + (oa,)


class Renderer:
    def __init__(self, text, stroke=True):
        self.doc = Doc(text)
        self.stroke = stroke
        self.ambiguous = False
        self.tree = self._build(self.doc.root, I, dict(DEFAULTS), [], 0, root=True)

    # node = ("g", opacity, [children]) | ("shape", ...)
    def _build(self, el, M, inherited, clips, depth, root=False, use_ctx=None):
        if not isinstance(el.tag, str) or depth > 40:
            return None
        tag = etree.QName(el).localname
        if etree.QName(el).namespace not in (None, "http://www.w3.org/2000/svg"):
            return None
        doc = self.doc
        props, own = doc.props(el, inherited)
        if own.get("display") == "none":
            return None
        opacity = max(0.0, min(1.0, float(own.get("opacity", 1))))
        if tag in ("defs", "clipPath", "linearGradient", "radialGradient", "symbol", "title", "desc", "metadata", "style", "text"):
            return None
        M2 = M if root else mul(M, parse_transform(el.get("transform", "")))
        if tag == "use":
            # SVG 1.1 5.6: use -> g whose transform is "<use transform> translate(x, y)"; the g's clip-path lives in that system
            M2 = mul(M2, (1, 0, 0, 1, float(el.get("x", 0)), float(el.get("y", 0))))
        clips2 = list(clips)
        if own.get("clip-path") and own["clip-path"] != "none":
            clips2.append(doc.clip_region(own["clip-path"], M2))
        if tag == "svg" and not root:
            x, y = float(el.get("x", 0)), float(el.get("y", 0))
            pw, ph = use_ctx or (doc.viewbox[2], doc.viewbox[3])
            w, h = float(el.get("width", pw)), float(el.get("height", ph))
            vb = el.get("viewBox")
            if vb:
                vx, vy, vw, vh = (float(v) for v in re.findall(_NUM, vb))
                par = (el.get("preserveAspectRatio") or "xMidYMid meet").split()
                align, mos = par[0], (par[1] if len(par) > 1 else "meet")
                sx, sy = w / vw, h / vh
                if align != "none":
                    sx = sy = max(sx, sy) if mos == "slice" else min(sx, sy)
                tx, ty = x - vx * sx, y - vy * sy
                if "xMid" in align:
                    tx += (w - vw * sx) / 2
                elif "xMax" in align:
                    tx += w - vw * sx
                if "YMid" in align:
                    ty += (h - vh * sy) / 2
                elif "YMax" in align:
                    ty += h - vh * sy
                inner = (sx, 0, 0, sy, tx, ty)
                child_ctx = (vw, vh)
            else:
                inner = (1, 0, 0, 1, x, y)
                child_ctx = (w, h)
            if (own.get("overflow") or "hidden") != "visible":
                rect = [([apply(M2, q) for q in ((x, y), (x + w, y), (x + w, y + h), (x, y + h), (x, y))], True)]
                doc.edges.append(rect)
                clips2.append(lambda p, rect=rect: winding(rect, p, "nonzero"))
            M3 = mul(M2, inner)
            kids = [self._build(c, M3, props, clips2, depth + 1, use_ctx=child_ctx) for c in el]
            return ("g", opacity, [k for k in kids if k])
        if tag in ("g", "svg", "a", "switch"):
            kids = [self._build(c, M2, props, clips2, depth + 1, use_ctx=use_ctx) for c in el]
            return ("g", opacity, [k for k in kids if k])
        if tag == "use":
            tgt = doc.href(el)
            if tgt is None:
                raise ValueError("dangling use")
            kid = self._build(tgt, M2, props, clips2, depth + 1, use_ctx=use_ctx)
            return ("g", opacity, [kid] if kid else [])
        subs = shape_subpaths(el)
        if subs is None:
            return None
        subs_c = [([apply(M2, p) for p in pts], c) for pts, c in subs]
        if subs_c:
            doc.edges.append(subs_c)
        fill = doc.paint(props["fill"], props, subs, M2)
        node = dict(subs=subs_c, rule=props["fill-rule"], fill=fill, fill_opacity=max(0, min(1, float(props["fill-opacity"]))), clips=clips2, opacity=opacity, stroke=None)
        if self.stroke and props["stroke"] not in ("none", ""):
            sw = float(props["stroke-width"])
            if sw > 0:
                # stroke geometry in local space, distances measured after mapping points back (exact for similarity transforms only)
                inv = invert(M2)
                node["stroke"] = dict(paint=doc.paint(props["stroke"], props, subs, M2), width=sw, subs_local=subs, inv=inv, opacity=max(0, min(1, float(props["stroke-opacity"]))),
                                      simple=props["stroke-dasharray"] in ("none", ""))
        return ("shape", node)

    def color_at(self, p, background=(1, 1, 1, 1)):
        self.ambiguous = False
        c = self._eval(self.tree, p)
        return over(background, c) if c else background

    def _eval(self, node, p):
        if node is None:
            return None
        if node[0] == "g":
            acc = (0, 0, 0, 0)
            for k in node[2]:
                c = self._eval(k, p)
                if c:
                    acc = over(acc, c)
            if acc[3] == 0:
                return None
            return acc[:3] + (acc[3] * node[1],)
        n = node[1]
        if any(not cl(p) for cl in n["clips"]):
            return None
        acc = (0, 0, 0, 0)
        if n["fill"] is not None and n["subs"] and winding(n["subs"], p, n["rule"]):
            c = n["fill"](p)
            if c:
                acc = over(acc, c[:3] + (c[3] * n["fill_opacity"],))
        s = n["stroke"]
        if s is not None and s["paint"] is not None and s["inv"] is not None:
            q = apply(s["inv"], p)
            d = dist_to_edges(s["subs_local"], q, fill=False)
            half = s["width"] / 2
            if not s["simple"]:
                if d < half * 4 + 1:
                    self.ambiguous = True
            elif d <= half * 0.85:
                # well inside the stroke band, but ends of open subpaths (caps) are ambiguous
                if self._near_open_end(s["subs_local"], q, half * 1.5):
                    self.ambiguous = True
                else:
                    c = s["paint"](p)
                    acc = over(acc, c[:3] + (c[3] * s["opacity"],))
            elif d <= half * 4.2 + 0.3:
                self.ambiguous = True  # edge of the band, joins, miters, caps
        if acc[3] == 0:
            return None
        return acc[:3] + (acc[3] * n["opacity"],)

    @staticmethod
    def _near_open_end(subs, q, r):
        for pts, closed in subs:
            if not closed and pts[0] != pts[-1]:
                for e in (pts[0], pts[-1]):
                    if math.hypot(q[0] - e[0], q[1] - e[1]) <= r:
                        return True
        return False

    def min_edge_distance(self, p):
        best = float("inf")
        for subs in self.doc.edges:
            best = min(best, dist_to_edges(list(subs), p))
        return best


def compare(src_text, out_text, n=28, eps_frac=0.004, tol=0.02, stroke=True, margin=0.15):
    """sample a grid over the source viewBox (plus a margin); -> (samples compared, [mismatches])"""
    a, b = Renderer(src_text, stroke), Renderer(out_text, stroke)
    vx, vy, vw, vh = a.doc.viewbox
    eps = eps_frac * max(vw, vh)
    bad, count = [], 0
    for i in range(n):
        for j in range(n):
            p = (vx - margin * vw + (1 + 2 * margin) * vw * (i + 0.37) / n, vy - margin * vh + (1 + 2 * margin) * vh * (j + 0.61) / n)
            if a.min_edge_distance(p) < eps or b.min_edge_distance(p) < eps:
                continue
            ca = a.color_at(p)
            if a.ambiguous:
                continue
            cb = b.color_at(p)
            if b.ambiguous:
                continue
            count += 1
            if max(abs(x - y) for x, y in zip(ca, cb)) > tol:
                bad.append((p, tuple(round(v, 3) for v in ca), tuple(round(v, 3) for v in cb)))
    return count, bad
