"""C16 bounded stand-in: output digests across hash seeds, process lifetimes and batch orders."""
from __future__ import annotations

import json
import os
import random
import subprocess
import sys

ROOT = os.path.dirname(os.path.dirname(os.path.abspath(__file__)))


def _run(names, hashseed):
    env = dict(os.environ, PYTHONHASHSEED=str(hashseed), PYTHONDONTWRITEBYTECODE="1")
    out = subprocess.run([sys.executable, os.path.join(ROOT, "bounded", "_convert_worker.py"), ROOT] + list(names), capture_output=True, text=True, env=env, timeout=600)
    try:
        return json.loads(out.stdout.strip().splitlines()[-1])
    except Exception:
        return {n: f"WORKER-FAILED:{out.stderr[-200:]}" for n in names}


def check(tier, seed):
    from bounded import corpus

    names = list(corpus.DOCS) + list(corpus.extra_docs())
    seeds = (0, 1, 2, 3, 4, 5, 6, 7) if tier == "thorough" else (0, 1, 2, 3)
    evaluations, findings, samples = 0, [], []
    # 1. every document alone, fresh process, per hash seed
    alone = {}
    for hs in seeds:
        for n in names:
            alone[(n, hs)] = _run([n], hs)[n]
            evaluations += 1
    for n in names:
        vals = {alone[(n, hs)] for hs in seeds}
        if len(vals) > 1:
            findings.append((f"determinism:hashseed:{n}", f"document {n!r} converts to {len(vals)} different outputs under PYTHONHASHSEED {list(seeds)}", dict(doc=n, outputs=sorted(vals))))
    samples.append(dict(doc=names[0], per_hash_seed={hs: alone[(names[0], hs)] for hs in seeds}))
    # 2. batches in one long-lived process, several orders, vs alone
    rnd = random.Random(seed)
    orders = [list(names), list(reversed(names))]
    for _ in range(4 if tier == "thorough" else 2):
        o = list(names)
        rnd.shuffle(o)
        orders.append(o)
    for o in orders:
        got = _run(o, 0)
        for n in o:
            evaluations += 1
            if got[n] != alone[(n, 0)]:
                findings.append((f"determinism:batch:{n}", f"document {n!r} converts differently inside the batch {o} than alone (earlier documents leak state)", dict(doc=n, order=o, alone=alone[(n, 0)], in_batch=got[n])))
    samples.append(dict(batch_order=orders[-1]))
    return evaluations, len(names) * len(seeds), findings, samples
