"""Small hand-written documents used by the bounded (labelled, never counted as proved) components."""

NS = 'xmlns="http://www.w3.org/2000/svg" xmlns:xlink="http://www.w3.org/1999/xlink"'

DOCS = {
    "shapes": f'<svg {NS} viewBox="0 0 100 100"><rect x="10.123456" y="10" width="30" height="20" fill="red"/><circle cx="50" cy="50" r="12.5" fill="blue" opacity="0.5"/></svg>',
    "group_transform": f'<svg {NS} viewBox="0 0 100 100"><g transform="translate(10 5) scale(2)" fill="green"><rect x="1" y="2" width="3" height="4"/><path d="m1,1 l3.14159,0 l0,3 z" fill="none" stroke="black"/></g></svg>',
    "relative_path": f'<svg {NS} viewBox="0 0 64 64"><path d="M2,2 h10 v10 h-10 z m20,0 q5,5 10,0 t10,0 s5,5 8,2" fill="#123456"/></svg>',
    "use": f'<svg {NS} viewBox="0 0 100 100"><defs><rect id="r" width="10" height="10"/></defs><use xlink:href="#r" x="5" y="6" fill="red"/><use xlink:href="#r" transform="rotate(30)" opacity="0.5"/></svg>',
    "nested": f'<svg {NS} viewBox="0 0 100 100"><svg x="10" y="10" width="50" height="40" viewBox="0 0 10 10"><rect width="10" height="10" fill="teal"/></svg></svg>',
    "round_cap_line_small_canvas": f'<svg {NS} viewBox="0 0 100 100"><path d="M20,50 L80,50" fill="none" stroke="black" stroke-width="20" stroke-linecap="round"/></svg>',
    "round_cap_line_large_canvas": f'<svg {NS} viewBox="0 0 1000 1000"><path d="M20,50 L80,50" fill="none" stroke="black" stroke-width="20" stroke-linecap="round"/></svg>',
    "prefixed_svg_namespace": '<svg:svg xmlns="http://www.w3.org/1999/xhtml" xmlns:svg="http://www.w3.org/2000/svg" viewBox="0 0 10 10"><svg:rect width="5" height="5" fill="blue"/></svg:svg>',
    "nested_svg_two_levels": '<svg xmlns="http://www.w3.org/2000/svg" viewBox="0 0 100 100"><svg x="10" y="10" width="60" height="60" viewBox="0 0 30 30"><rect width="10" height="10" fill="red"/><svg x="5" y="5" width="20" height="20" viewBox="0 0 10 10" overflow="visible"><rect x="1" y="1" width="4" height="4" fill="blue"/></svg></svg></svg>',
    "gradient_clones_two": f'<svg {NS} viewBox="0 0 100 100"><defs><linearGradient id="g"><stop offset="0" stop-color="red"/><stop offset="1" stop-color="blue"/></linearGradient></defs><rect width="20" height="10" fill="url(#g)" transform="translate(5 5)"/><rect width="20" height="10" fill="url(#g)" transform="translate(5 40) scale(2)"/></svg>',
    "gradient_clones_one": f'<svg {NS} viewBox="0 0 100 100"><defs><linearGradient id="g"><stop offset="0" stop-color="lime"/><stop offset="1" stop-color="teal"/></linearGradient></defs><rect width="30" height="10" fill="url(#g)" transform="rotate(10)"/></svg>',
    "group_style_vs_child_attribute": f'<svg {NS} viewBox="0 0 100 100"><g style="fill:red"><rect width="5" height="5" fill="blue"/><circle r="3" cx="20" cy="20"/></g></svg>',
    "style": f'<svg {NS} viewBox="0 0 100 100"><path d="M0,0 L10,0 L10,10 Z" style="fill:red;opacity:0.25"/><ellipse cx="40" cy="40" rx="5" ry="9" style="fill-rule:evenodd"/></svg>',
    "no_shapes": f'<svg {NS} viewBox="0 0 100 100"><g id="empty"/></svg>',
    "gradient": f'<svg {NS} viewBox="0 0 100 100"><defs><linearGradient id="g" x1="0" x2="1"><stop offset="0" stop-color="red"/><stop offset="1" stop-color="blue"/></linearGradient></defs><rect x="10" y="10" width="50" height="50" fill="url(#g)" transform="translate(5,5)"/></svg>',
    "noise": f'<?xml version="1.0"?><svg {NS} viewBox="0 0 100 100"><?pi x?><title>t</title><symbol><rect width="1" height="1"/></symbol><rect width="20" height="20" fill-rule="evenodd" stroke="black" stroke-width="2"/></svg>',
    "offcanvas": f'<svg {NS} viewBox="0 0 50 50"><rect x="-20" y="-20" width="30" height="30" fill="red"/><rect x="100" y="100" width="5" height="5"/><g opacity="0.5"><rect x="40" y="40" width="30" height="30"/><rect x="10" y="10" width="5" height="5"/></g></svg>',
}

OPTIONS = {"text": {"allow_text": True}, "text_group": {"allow_text": True}}


def extra_docs():
    """documents for the determinism / idempotence / reference checks"""
    return {
        "text": f'<svg {NS} viewBox="0 0 100 100" fill="red" stroke-width="2" fill-rule="evenodd" stroke-linecap="round"><text x="10" y="20" font-size="8">hi <tspan dy="3">there</tspan></text><rect width="5" height="5"/></svg>',
        "text_group": f'<svg {NS} viewBox="0 0 100 100"><g fill="blue" stroke="none" fill-opacity="0.5" clip-rule="evenodd" display="inline"><text x="1" y="2">a</text></g></svg>',
        "three_gradients": f'<svg {NS} viewBox="0 0 100 100"><defs>'
                           + "".join(f'<linearGradient id="g{c}" x1="0" x2="1"><stop offset="0" stop-color="red"/><stop offset="1" stop-color="blue"/></linearGradient>' for c in "abc")
                           + '</defs>' + "".join(f'<rect x="{10 * i}" y="0" width="8" height="8" fill="url(#g{c})"/>' for i, c in enumerate("abc")) + '</svg>',
        "nested_clip_bad": f'<svg {NS} viewBox="0 0 20 20"><defs><clipPath id="X" clip-path="url(#Y)"><rect width="6" height="10"/></clipPath></defs><rect width="10" height="10" clip-path="url(#X)"/></svg>',
        "nested_clip_good": f'<svg {NS} viewBox="0 0 20 20"><defs><clipPath id="Y"><rect width="10" height="4"/></clipPath><clipPath id="X" clip-path="url(#Y)"><rect width="6" height="10"/></clipPath>'
                            f'<clipPath id="Z" clip-path="url(#X)"><rect width="10" height="10"/></clipPath></defs><rect width="10" height="10" clip-path="url(#Z)"/></svg>',
        "stroked": f'<svg {NS} viewBox="0 0 50 50"><path d="M5,5 L40,5 L40,40" fill="none" stroke="black" stroke-width="3" id="p"/><circle cx="20" cy="20" r="6" fill="red" stroke="blue" id="c"/></svg>',
    }

# documents that pin recorded findings (stable names: known_findings.json refers to them)
PINNED = {
    "root_opacity": f'<svg {NS} viewBox="0 0 100 100" opacity="0.5"><rect x="10" y="10" width="40" height="40" fill="red"/><rect x="30" y="30" width="40" height="40" fill="blue"/></svg>',
    "explicit_fill_equal_to_defs_context": f'<svg {NS} viewBox="0 0 100 100" fill="teal"><defs><rect id="u0" x="10" y="10" width="30" height="30" fill="teal"/></defs><g fill="blue"><use xlink:href="#u0" x="5"/></g></svg>',
    "opacity_group_loses_sibling": f'<svg {NS} viewBox="0 0 100 100"><g opacity="0.5"><rect x="10" y="10" width="40" height="40" fill="red"/><path d="M0,0" fill="blue"/></g></svg>',
    "zero_opacity_outer_group": f'<svg {NS} viewBox="0 0 100 100"><g opacity="0"><g opacity="0.5"><rect x="10" y="10" width="40" height="40" fill="red"/><rect x="30" y="30" width="40" height="40" fill="blue"/></g></g><rect x="60" y="60" width="20" height="20"/></svg>',
    "opacity_rounded_with_coordinates": f'<svg {NS} viewBox="0 0 100 100"><rect x="10" y="10" width="40" height="40" fill="red" opacity="0.5"/><rect x="60" y="60" width="20" height="20" fill="blue"/></svg>',
    "drop_unsupported_leaves_single_child_group": f'<svg {NS} viewBox="0 0 100 100"><g opacity="0.5"><text x="10" y="20">hi</text><rect width="5" height="5"/></g></svg>',
    "defs_order_unstable": '<svg xmlns="http://www.w3.org/2000/svg" xmlns:xlink="http://www.w3.org/1999/xlink" viewBox="0 0 100 100"><defs><radialGradient id="g0" cx="0.5" cy="0.5" r="0.5" fx="0.3" fy="0.4" gradientTransform="rotate(30)" spreadMethod="repeat"><stop offset="0" stop-color="lime" stop-opacity="0.5"/><stop offset="0.4" stop-color="teal" stop-opacity="0.5"/><stop offset="1" stop-color="red"/></radialGradient><linearGradient id="g1" x1="0" y1="33" x2="62" y2="35" gradientUnits="userSpaceOnUse" gradientTransform="rotate(30)" spreadMethod="reflect"><stop offset="0" stop-color="red" stop-opacity="0.5"/><stop offset="0.4" stop-color="teal"/><stop offset="1" stop-color="purple" stop-opacity="0.5"/></linearGradient><linearGradient id="g2" x1="10%" x2="90%" y2="50%" gradientTransform="scale(1.5 0.75) translate(3 3)" spreadMethod="reflect"><stop offset="0" stop-color="red"/><stop offset="0.4" stop-color="lime"/><stop offset="1" stop-color="yellow"/></linearGradient></defs><g transform="scale(0.8 1.3) rotate(-15)"><circle cx="28" cy="36" r="11" fill="url(#g0)" transform="translate(12.5 -7.25)"/></g><g transform="skewX(15) translate(5 0)"><polygon points="47,58 63,61 59,70 49,65" fill="url(#g1)" transform="translate(12.5 -7.25)"/></g><polygon points="49,14 69,17 65,30 51,25" fill="url(#g1)"/></svg>',
    "gradient_double_rounding": '<svg xmlns="http://www.w3.org/2000/svg" xmlns:xlink="http://www.w3.org/1999/xlink" viewBox="0 0 100 100"><defs><linearGradient id="g0" x1="10%" x2="90%" y2="50%" gradientUnits="userSpaceOnUse" gradientTransform="rotate(30)" spreadMethod="repeat"><stop offset="0" stop-color="lime"/><stop offset="0.4" stop-color="red" stop-opacity="0.5"/><stop offset="1" stop-color="purple"/></linearGradient></defs><circle cx="19" cy="62" r="4" fill="url(#g0)" transform="rotate(20) translate(10,4)"/><g transform="rotate(30 20 20)"><ellipse cx="30" cy="63" rx="4" ry="11" fill="url(#g0)"/></g><g><rect x="59" y="30" width="35" height="34" rx="1" fill="url(#g0)"/></g></svg>',
    "group_style_hides_but_child_paints": '<svg xmlns="http://www.w3.org/2000/svg" viewBox="0 0 10 10"><g style="fill:none"><path fill="red" d="M0,0 L5,0 L5,5 Z"/></g><g style="display:none"><rect width="3" height="3" x="6" display="inline"/></g></svg>',
    "stroke_width_zero": '<svg xmlns="http://www.w3.org/2000/svg" viewBox="0 0 20 20"><path d="M2,2 L18,2 L18,18 Z" fill="none" stroke="red" stroke-width="0"/><rect x="1" y="12" width="4" height="4" fill="blue"/></svg>',
    "stroke_opacity_above_one": '<svg xmlns="http://www.w3.org/2000/svg" viewBox="0 0 20 20"><path d="M2,10 L18,10" fill="none" stroke="red" stroke-width="4" stroke-opacity="1.5" opacity="0.5"/><rect x="1" y="14" width="4" height="4" fill="blue" fill-opacity="3" opacity="0.5"/></svg>',
    "stroke_gradient_under_transform": '<svg xmlns="http://www.w3.org/2000/svg" viewBox="0 0 100 100"><defs><linearGradient id="g" gradientUnits="userSpaceOnUse" x1="0" x2="40"><stop offset="0" stop-color="red"/><stop offset="1" stop-color="blue"/></linearGradient></defs><g transform="translate(50 0)"><path d="M0,22 L40,22" fill="none" stroke="url(#g)" stroke-width="10"/></g></svg>',
    "clippath_written_inside_an_opacity_group": '<svg xmlns="http://www.w3.org/2000/svg" viewBox="0 0 20 20"><g opacity="0.5"><rect width="9" height="9" fill="red" clip-path="url(#inner)"/><clipPath id="inner"><rect width="5" height="20"/></clipPath></g></svg>',
    "evenodd_repeated_subpath": '<svg xmlns="http://www.w3.org/2000/svg" viewBox="0 0 40 40"><path fill-rule="evenodd" fill="red" d="M0,0 L30,0 L30,30 L0,30 Z M10,10 L20,10 L20,20 L10,20 Z M10,10 L20,10 L20,20 L10,20 Z"/><path fill-rule="evenodd" fill="blue" d="M32,0 L38,0 L38,6 L32,6 Z M32,0 L38,0 L38,6 L32,6 Z M32,10 L38,10 L38,16 Z"/></svg>',
    "opacity_group_with_only_a_stroked_line": '<svg xmlns="http://www.w3.org/2000/svg" viewBox="0 0 40 40"><g opacity="0.5"><line x1="5" y1="5" x2="30" y2="5" stroke="black" stroke-width="4"/></g></svg>',
    "vertex_a_hair_off_the_subpath_start": '<svg xmlns="http://www.w3.org/2000/svg" viewBox="0 0 40 40"><path d="M0,0 L10,0 L10,10 L0.0000000014,0 Z"/></svg>',
    "zero_width_gradient_stroke_on_a_filled_shape": '<svg xmlns="http://www.w3.org/2000/svg" viewBox="0 0 40 40"><defs><linearGradient id="rim"><stop offset="0" stop-color="red"/><stop offset="1" stop-color="blue"/></linearGradient></defs><rect width="20" height="20" fill="teal" stroke="url(#rim)" stroke-width="0"/><rect y="22" width="10" height="10" fill="teal" stroke="url(#rim)" stroke-width="0" transform="translate(2 2)"/></svg>',
    "foreign_attribute_declared_on_a_stop": '<svg xmlns="http://www.w3.org/2000/svg" viewBox="0 0 40 40"><defs><linearGradient id="g"><stop xmlns:k="urn:kit" k:locked="true" offset="0" stop-color="red"/><stop offset="1" stop-color="blue"/></linearGradient></defs><rect width="20" height="20" fill="url(#g)"/></svg>',
    "use_of_a_template_inside_a_hidden_group": '<svg xmlns="http://www.w3.org/2000/svg" xmlns:xlink="http://www.w3.org/1999/xlink" viewBox="0 0 40 40"><g display="none"><rect id="tpl" width="10" height="10" fill="red"/><g id="tplg"><rect x="20" width="10" height="10" fill="blue"/></g></g><use xlink:href="#tpl" x="2" y="2"/><use xlink:href="#tplg" y="20"/><g display="none"><use xlink:href="#tpl" x="25" y="25"/></g></svg>',
    "fill_opacity_above_one": '<svg xmlns="http://www.w3.org/2000/svg" viewBox="0 0 20 20"><rect width="10" height="10" fill="red" fill-opacity="2" opacity="0.4"/><rect x="10" y="10" width="8" height="8" fill="blue" fill-opacity="-1"/></svg>',
    "use_overrides_inherited_opacity_spelled_differently": '<svg xmlns="http://www.w3.org/2000/svg" xmlns:xlink="http://www.w3.org/1999/xlink" viewBox="0 0 40 20"><defs><g fill-opacity=".5" stroke-width="2.50"><rect id="r" width="10" height="10" fill="red"/></g></defs><use xlink:href="#r" x="5" y="5" fill-opacity="1"/><use xlink:href="#r" x="25" y="5"/></svg>',
    "opacity_above_one": '<svg xmlns="http://www.w3.org/2000/svg" viewBox="0 0 60 20"><rect x="2" y="2" width="16" height="16" fill="red" opacity="2" fill-opacity="0.25"/><g opacity="0.5"><rect x="22" y="2" width="16" height="16" fill="blue" opacity="3"/></g><rect x="42" y="2" width="16" height="16" fill="green" stroke="black" stroke-width="2" opacity="1.5" stroke-opacity="0.5"/></svg>',
    "tiny_coordinates": '<svg xmlns="http://www.w3.org/2000/svg" viewBox="0 0 10 10"><path d="M0.00002,0.0000349 L5,0.000001 L5,5.00000049 L-0.0000151,3 Z"/></svg>',
    "initial_fill_under_a_styled_group": '<svg xmlns="http://www.w3.org/2000/svg" viewBox="0 0 20 10"><g style="fill:magenta"><path d="M1,1 L9,1 L9,9 L1,9 Z M5,5" fill="black"/><rect x="11" y="1" width="8" height="8"/></g></svg>',
    "fill_and_stroke_under_opacity": '<svg xmlns="http://www.w3.org/2000/svg" viewBox="0 0 40 40"><rect x="10" y="10" width="20" height="20" fill="red" stroke="blue" stroke-width="10" opacity="0.5"/></svg>',
    "nested_svg_carries_paint": '<svg xmlns="http://www.w3.org/2000/svg" viewBox="0 0 40 40"><svg fill="red" opacity="0.5" width="40" height="40"><rect width="10" height="10"/><rect x="5" y="5" width="10" height="10" fill="blue"/></svg><svg display="none" width="40" height="40"><rect x="20" width="10" height="10"/></svg><rect x="20" y="20" width="5" height="5"/></svg>',
    "nested_svg_viewbox_equals_viewport_with_offset": '<svg xmlns="http://www.w3.org/2000/svg" viewBox="0 0 100 100"><svg x="10" y="10" width="50" height="50" viewBox="10 10 50 50"><rect x="10" y="10" width="20" height="20"/></svg></svg>',
    "empty_subpath_changes_gradient_bbox": '<svg xmlns="http://www.w3.org/2000/svg" viewBox="0 0 100 100"><defs><linearGradient id="g"><stop offset="0" stop-color="red"/><stop offset="1" stop-color="blue"/></linearGradient></defs><path d="M0,0 L0,0 M50,50 h40 v40 h-40 z" fill="url(#g)"/></svg>',
    "paint_set_two_levels_up": '<svg xmlns="http://www.w3.org/2000/svg" viewBox="0 0 40 40" fill="none" stroke="black" stroke-width="2"><g><g><line x1="5" y1="5" x2="30" y2="5"/><path d="M5,15 L30,15"/></g></g><g stroke="none"><g><rect x="5" y="25" width="10" height="10" fill="red"/></g></g></svg>',
    "no_viewbox_gradient_under_transform": '<svg xmlns="http://www.w3.org/2000/svg"><defs><linearGradient id="g"><stop offset="0" stop-color="red"/><stop offset="1" stop-color="blue"/></linearGradient></defs><g transform="translate(5 5) rotate(10)"><rect width="20" height="10" fill="url(#g)"/></g></svg>',
    "clip_rule_on_the_clippath": '<svg xmlns="http://www.w3.org/2000/svg" viewBox="0 0 10 10"><clipPath id="c" clip-rule="evenodd"><path d="M0,0 H8 V8 H0 Z M2,2 H6 V6 H2 Z"/></clipPath><rect width="9" height="9" clip-path="url(#c)" fill="red"/></svg>',
    "use_clip_target_transform": '<svg xmlns="http://www.w3.org/2000/svg" xmlns:xlink="http://www.w3.org/1999/xlink" viewBox="0 0 30 30"><clipPath id="c"><rect width="10" height="10"/></clipPath><defs><rect id="t" width="20" height="20" transform="translate(5 0)"/></defs><use xlink:href="#t" clip-path="url(#c)"/></svg>',
    "two_nested_svgs_clip_ids": f'<svg {NS} viewBox="0 0 100 100"><svg x="0" y="0" width="40" height="40"><rect width="60" height="60" fill="red"/></svg><svg x="50" y="50" width="40" height="40"><rect width="60" height="60" fill="blue"/></svg></svg>',
}

PINNED_OPTIONS = {"opacity_rounded_with_coordinates": {"ndigits": 0}}

# hand-written documents that exercise one specific composition each (they convert correctly on the unchanged tree)
FEATURES = {
    "nested_nested_svg_default_size": f'<svg {NS} viewBox="0 0 100 100"><svg x="10" y="10" width="60" height="80" viewBox="0 0 30 40" overflow="visible"><svg viewBox="0 0 10 10" preserveAspectRatio="xMinYMin meet"><rect width="10" height="10" fill="red"/></svg><rect x="20" y="30" width="5" height="5" fill="blue"/></svg></svg>',
    "use_cancels_target_transform": f'<svg {NS} viewBox="0 0 100 100"><defs><rect id="a" x="40" y="30" width="20" height="10" fill="red" transform="translate(-30 -20)"/><g id="b" transform="scale(2)"><rect x="30" y="30" width="10" height="10" fill="blue"/></g></defs>'
                                    f'<use xlink:href="#a" x="30" y="20"/><use xlink:href="#b" transform="scale(0.5)"/><use xlink:href="#a" x="5" y="50"/></svg>',
    "clippath_with_transform_and_nested_clip": f'<svg {NS} viewBox="0 0 100 100"><defs><clipPath id="inner"><rect x="0" y="10" width="100" height="30"/></clipPath>'
                                               f'<clipPath id="outer" transform="translate(40 0)" clip-path="url(#inner)"><rect x="0" y="0" width="20" height="100"/></clipPath></defs><rect width="100" height="100" fill="teal" clip-path="url(#outer)"/></svg>',
    "clip_children_with_different_rules": f'<svg {NS} viewBox="0 0 100 100"><defs><clipPath id="c"><rect x="5" y="5" width="30" height="30"/><path clip-rule="evenodd" d="M50,10 h40 v40 h-40 z M60,20 h20 v20 h-20 z"/></clipPath></defs><rect width="100" height="100" fill="purple" clip-path="url(#c)"/></svg>',
    "gradient_href_chain_of_three": f'<svg {NS} viewBox="0 0 100 100"><defs><linearGradient id="base" gradientUnits="userSpaceOnUse" x1="10" y1="0" x2="60" y2="0" spreadMethod="reflect"/>'
                                    f'<linearGradient id="mid" xlink:href="#base"><stop offset="0" stop-color="red"/><stop offset="1" stop-color="blue"/></linearGradient><linearGradient id="top" xlink:href="#mid"/></defs>'
                                    f'<rect x="5" y="5" width="90" height="40" fill="url(#top)"/><rect x="5" y="55" width="90" height="40" fill="url(#top)" transform="rotate(5)"/></svg>',
    "radial_percent_focus_nonsquare_viewbox": f'<svg {NS} viewBox="0 0 200 100"><defs><radialGradient id="r" gradientUnits="userSpaceOnUse" cx="50%" cy="50%" r="40%" fx="40%" fy="30%" spreadMethod="repeat" gradientTransform="translate(4 -2)">'
                                              f'<stop offset="0" stop-color="yellow"/><stop offset="1" stop-color="blue"/></radialGradient></defs><rect x="20" y="10" width="160" height="80" fill="url(#r)"/>'
                                              f'<rect x="20" y="10" width="60" height="40" fill="url(#r)" transform="translate(30 10) scale(0.5 0.75)"/></svg>',
    "use_with_opacity_over_shape": f'<svg {NS} viewBox="0 0 100 100"><defs><rect id="r" width="40" height="40" fill="red" opacity="0.8"/></defs><rect x="20" y="20" width="40" height="40" fill="blue"/><use xlink:href="#r" x="10" y="10" opacity="0.5"/><g opacity="0.5"><use xlink:href="#r" x="50" y="50" style="opacity:.4"/></g></svg>',
    "translucent_group_of_groups": f'<svg {NS} viewBox="0 0 100 100"><g opacity="0.5"><rect x="5" y="5" width="50" height="50" fill="red"/><g opacity="0.5"><rect x="30" y="30" width="40" height="40" fill="blue"/><rect x="50" y="50" width="40" height="40" fill="lime"/></g></g></svg>',
    "exponent_dust_coordinates": f'<svg {NS} viewBox="0 0 100 100"><path d="M0,0 L10,1e-7 L10,10 L3e-9,10 Z" fill="red"/></svg>',
    "wrapper_hides_outer_paint": f'<svg {NS} viewBox="0 0 100 100"><g fill="red"><g><rect x="10" y="10" width="30" height="30" fill="black"/><rect x="50" y="50" width="30" height="30"/></g></g></svg>',
    "explicit_initial_value_under_paint": f'<svg {NS} viewBox="0 0 100 100"><g fill="red" stroke="none"><rect x="10" y="10" width="30" height="30" fill="black"/><rect x="50" y="50" width="30" height="30"/></g></svg>',
    "nested_descriptive_elements": f'<svg {NS} viewBox="0 0 100 100"><metadata><title>t</title><desc>d</desc></metadata><defs><linearGradient id="t"><stop offset="0" stop-color="red"/><stop offset="1" stop-color="blue"/></linearGradient>'
                                   f'<linearGradient id="g" xlink:href="#t"><desc>about g</desc></linearGradient></defs><rect width="50" height="50" fill="url(#g)"/></svg>',
    "three_gradients_order": f'<svg {NS} viewBox="0 0 100 100"><defs>' + "".join(f'<linearGradient id="g{c}"><stop offset="0" stop-color="red"/><stop offset="1" stop-color="{col}"/></linearGradient>' for c, col in zip("abc", ("blue", "lime", "teal")))
                             + '</defs>' + "".join(f'<rect x="{30 * i}" y="0" width="25" height="25" fill="url(#g{c})"/>' for i, c in enumerate("abc")) + '</svg>',
    "out_of_range_group_opacity": f'<svg {NS} viewBox="0 0 100 100"><g opacity="1.5"><rect x="5" y="5" width="50" height="50" fill="red"/><rect x="30" y="30" width="50" height="50" fill="blue"/></g></svg>',
    "root_color_and_display": f'<svg {NS} viewBox="0 0 100 100" color="#00ff00" display="inline" overflow="visible"><rect x="5" y="5" width="50" height="50" fill="red"/></svg>',
}


# pinned (clean, noisy) pairs for C14: the noisy variant of PINNED[name] (an attribute-less wrapper group around the first shape)
PINNED_NOISY = {
    "gradient_double_rounding": '<svg xmlns="http://www.w3.org/2000/svg" xmlns:xlink="http://www.w3.org/1999/xlink" viewBox="0 0 100 100"><defs><linearGradient id="g0" x1="10%" x2="90%" y2="50%" gradientUnits="userSpaceOnUse" gradientTransform="rotate(30)" spreadMethod="repeat"><stop offset="0" stop-color="lime"/><stop offset="0.4" stop-color="red" stop-opacity="0.5"/><stop offset="1" stop-color="purple"/></linearGradient></defs><g><circle cx="19" cy="62" r="4" fill="url(#g0)" transform="rotate(20) translate(10,4)"/></g><g transform="rotate(30 20 20)"><ellipse cx="30" cy="63" rx="4" ry="11" fill="url(#g0)"/></g><g><rect x="59" y="30" width="35" height="34" rx="1" fill="url(#g0)"/></g></svg>',
}
