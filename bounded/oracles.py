"""Independent oracles over converted documents (DESIGN section 4: O1 grammar, O2 reference graph, O3 idempotence,
O4 noise equivalence).  None of them imports picosvg's checkers; the XML is re-read with plain lxml."""
from __future__ import annotations

import re

from lxml import etree

SVGNS = "http://www.w3.org/2000/svg"
XLINKNS = "http://www.w3.org/1999/xlink"
_NUM = r"[-+]?(?:\d+\.?\d*|\.\d+)(?:[eE][-+]?\d+)?"
PRESENTATION = {"fill", "fill-rule", "fill-opacity", "clip-rule", "clip-path", "stroke", "stroke-width", "stroke-linecap", "stroke-linejoin", "stroke-miterlimit",
                "stroke-dasharray", "stroke-dashoffset", "stroke-opacity", "opacity", "display", "transform", "style", "color", "overflow"}


def _local(el):
    return etree.QName(el).localname if isinstance(el.tag, str) else None


def _ns(el):
    return etree.QName(el).namespace if isinstance(el.tag, str) else None


def _is_num(s):
    return re.fullmatch(_NUM, s.strip()) is not None


def grammar_violations(text, ndigits=3, allow_text=False):
    """O1: the picosvg grammar as stated in property C01 -> list of violation strings"""
    v = []
    root = etree.fromstring(text.encode() if isinstance(text, str) else text)
    if _local(root) != "svg" or _ns(root) != SVGNS:
        return ["root is not svg"]
    for node in root.iter():
        if not isinstance(node.tag, str):
            v.append("comment or processing instruction survives")
            continue
        if _ns(node) != SVGNS:
            v.append(f"foreign-namespace element {node.tag}")
        for a in node.attrib:
            if a.startswith("{"):
                v.append(f"namespaced attribute {a} on {_local(node)}")
    for a in root.attrib:
        if a in PRESENTATION:
            v.append(f"inheritable presentation attribute {a!r} on the root")
    kids = list(root)
    if not kids or _local(kids[0]) != "defs":
        v.append("first child of the root is not defs")
    if len([e for e in root.iter() if _local(e) == "defs"]) != 1:
        v.append("not exactly one defs")
    for d in root.iter():
        if _local(d) != "defs":
            continue
        for g in d:
            t = _local(g)
            if t not in ("linearGradient", "radialGradient"):
                v.append(f"{t} inside defs")
                continue
            if not g.get("id"):
                v.append("gradient without id")
            coords = ("x1", "y1", "x2", "y2") if t == "linearGradient" else ("cx", "cy", "r", "fx", "fy", "fr")
            for a, val in g.attrib.items():
                if "href" in a:
                    v.append(f"gradient {g.get('id')} keeps an href")
                if a in coords and not _is_num(val):
                    v.append(f"gradient {g.get('id')} {a}={val!r} is not a plain number")
                if a not in coords + ("id", "gradientUnits", "gradientTransform", "spreadMethod"):
                    v.append(f"gradient attribute {a}")
            for s in g:
                if _local(s) != "stop":
                    v.append(f"{_local(s)} inside gradient")

    def walk(el, top):
        for c in el:
            t = _local(c)
            if top and t == "defs":
                continue
            if t == "g":
                if len([k for k in c if isinstance(k.tag, str)]) < 2:
                    v.append("group with fewer than two children survives")
                if set(c.attrib) != {"opacity"}:
                    v.append(f"group carries attributes {sorted(c.attrib)} (only opacity is allowed)")
                else:
                    try:
                        o = float(c.get("opacity"))
                        if not (0 < o < 1):
                            v.append(f"group opacity {o} is not strictly between 0 and 1")
                    except ValueError:
                        v.append("group opacity is not a number")
                walk(c, False)
            elif t == "path":
                for a in c.attrib:
                    if a.startswith("stroke") or a in ("transform", "clip-path", "style", "clip-rule", "display"):
                        v.append(f"path carries {a}")
                if c.get("fill-rule") == "evenodd":
                    v.append("path with evenodd fill rule")
                v.extend(path_data_violations(c.get("d", ""), ndigits))
                if len(c):
                    v.append("path with children")
            elif allow_text and t in ("text", "tspan", "textPath"):
                continue
            else:
                v.append(f"element {t} survives")

    walk(root, True)
    return v


def path_data_violations(d, ndigits):
    v = []
    letters = re.findall(r"[A-Za-z]", re.sub(_NUM, "", d))
    bad = sorted({c for c in letters if c not in "MLCQAZ"})
    if bad:
        v.append(f"path data uses {''.join(bad)} (only absolute M L C Q A Z allowed)")
    for n in re.findall(_NUM, d):
        x = float(n)
        if abs(round(x, ndigits) - x) > 1e-12 * max(1.0, abs(x)):
            v.append(f"number {n} is not rounded to {ndigits} digits")
            break
        # ... and is WRITTEN with no more than that many decimals (a positional literal that spells out the binary expansion of a
        # rounded value has the right value and dozens of digits)
        if "e" not in n.lower() and "." in n and len(n.split(".", 1)[1].rstrip("0")) > max(ndigits, 0):
            v.append(f"number {n[:40]} is written with more than {ndigits} decimals")
            break
    return v


def reference_violations(text):
    """O2: unique ids, every url() resolves to a gradient in defs, every gradient in defs is used"""
    v = []
    root = etree.fromstring(text.encode() if isinstance(text, str) else text)
    ids = {}
    for e in root.iter():
        if isinstance(e.tag, str) and e.get("id") is not None:
            if e.get("id") in ids:
                v.append(f"duplicate id {e.get('id')!r}")
            ids[e.get("id")] = e
    used = set()
    for e in root.iter():
        if not isinstance(e.tag, str):
            continue
        for a, val in e.attrib.items():
            for m in re.finditer(r"url\(#([^)]+)\)", val):
                used.add(m.group(1))
                tgt = ids.get(m.group(1))
                if tgt is None:
                    v.append(f"dangling reference url(#{m.group(1)}) in {a}")
                elif _local(tgt) not in ("linearGradient", "radialGradient") or _local(tgt.getparent()) != "defs":
                    v.append(f"url(#{m.group(1)}) does not point at a gradient in defs")
            if "href" in a:
                v.append(f"href survives on {_local(e)}")
    for e in root.iter():
        if _local(e) in ("linearGradient", "radialGradient") and e.get("id") not in used:
            v.append(f"gradient {e.get('id')!r} in defs is not referenced")
    return v


def canonical_modulo_gradient_ids(text):
    """O4 normal form: gradient ids renumbered by first use, defs sorted, last digit of gradient numbers dropped"""
    root = etree.fromstring(text.encode() if isinstance(text, str) else text)
    order = []
    for e in root.iter():
        if isinstance(e.tag, str) and _local(e) not in ("linearGradient", "radialGradient", "stop", "defs"):
            for val in e.attrib.values():
                for m in re.finditer(r"url\(#([^)]+)\)", val):
                    if m.group(1) not in order:
                        order.append(m.group(1))
    ren = {old: f"G{i}" for i, old in enumerate(order)}
    # exclusive c14n: namespace declarations that nothing uses are not part of the comparison
    s = etree.tostring(root, method="c14n", exclusive=True).decode()
    for old, new in ren.items():
        s = re.sub(rf'(id="|url\(#){re.escape(old)}(["\)])', lambda m: m.group(1) + new + m.group(2), s)
    root = etree.fromstring(s.encode())
    for d in root.iter():
        if _local(d) == "defs":
            kids = sorted(d, key=lambda g: g.get("id") or "")
            for k in list(d):
                d.remove(k)
            for k in kids:
                d.append(k)
    return etree.tostring(root, method="c14n", exclusive=True).decode()


def defs_sorted(text):
    """the document with the children of every <defs> sorted by id and nothing else touched (attribute order, white space and
    digits stay as they are: lxml serialises what it parsed); a document whose defs are already sorted is returned byte for byte"""
    root = etree.fromstring(text.encode() if isinstance(text, str) else text)
    for d in root.iter():
        if isinstance(d.tag, str) and _local(d) == "defs":
            kids = sorted(d, key=lambda g: g.get("id") or "")
            for k in list(d):
                d.remove(k)
            for k in kids:
                k.tail = None
                d.append(k)
    return etree.tostring(root).decode()


def gradient_number_gap(a, b):
    """O4: None if the two documents differ in anything but gradient id numbering, order inside defs and the numbers of
    gradient parameters; otherwise the largest difference between corresponding gradient numbers, relative to max(1, |x|)"""
    ca, cb = canonical_modulo_gradient_ids(a), canonical_modulo_gradient_ids(b)
    if ca == cb:
        return 0.0

    def split(c):
        root = etree.fromstring(c.encode())
        nums = []
        for g in root.iter():
            if _local(g) in ("linearGradient", "radialGradient"):
                for k, val in sorted(g.attrib.items()):
                    if k != "id":
                        found = re.findall(_NUM, val)
                        nums.extend(float(x) for x in found)
                        g.set(k, re.sub(_NUM, "#", val))
        return etree.tostring(root, method="c14n", exclusive=True).decode(), nums

    (sa, na), (sb, nb) = split(ca), split(cb)
    if sa != sb or len(na) != len(nb):
        return None
    return max((abs(x - y) / max(1.0, abs(x)) for x, y in zip(na, nb)), default=0.0)


def equivalent_modulo_gradients(a, b, tol=3e-6):
    """O4: equal up to gradient id numbering, order inside defs and the last rounded digit of gradient parameters"""
    gap = gradient_number_gap(a, b)
    return gap is not None and gap <= tol
