"""C17 bounded stand-in: adversarial documents, each in its own process under a wall-clock and memory limit."""
from __future__ import annotations

import json
import os
import subprocess
import sys
import tempfile
from concurrent.futures import ThreadPoolExecutor

ROOT = os.path.dirname(os.path.dirname(os.path.abspath(__file__)))
NS = 'xmlns="http://www.w3.org/2000/svg" xmlns:xlink="http://www.w3.org/1999/xlink"'


def documents(secret_path):
    d = {}
    rect = '<rect width="2" height="2"/>'
    d["use_self"] = f'<svg {NS} viewBox="0 0 9 9"><g id="a">{rect}<use xlink:href="#a"/></g></svg>'
    d["use_mutual"] = f'<svg {NS} viewBox="0 0 9 9"><g id="a"><use xlink:href="#b"/></g><g id="b"><use xlink:href="#a"/>{rect}</g></svg>'
    d["use_cycle3"] = f'<svg {NS} viewBox="0 0 9 9"><g id="a"><use xlink:href="#b"/></g><g id="b"><use xlink:href="#c"/></g><g id="c"><use xlink:href="#a"/></g></svg>'
    d["use_rho"] = f'<svg {NS} viewBox="0 0 9 9"><use xlink:href="#a"/><g id="a"><use xlink:href="#b"/></g><g id="b">{rect}<use xlink:href="#b"/></g></svg>'
    d["use_in_defs_self"] = f'<svg {NS} viewBox="0 0 9 9"><defs><g id="a"><use xlink:href="#a"/></g></defs><use xlink:href="#a"/></svg>'
    d["use_only_self"] = f'<svg {NS} viewBox="0 0 9 9">{rect}<use id="a" xlink:href="#a"/></svg>'
    d["use_only_mutual"] = f'<svg {NS} viewBox="0 0 9 9"><use id="a" xlink:href="#b"/>{rect}<use id="b" xlink:href="#a"/></svg>'
    d["use_only_cycle3_in_group"] = f'<svg {NS} viewBox="0 0 9 9"><g><use id="a" xlink:href="#b"/><use id="b" xlink:href="#c" x="1"/></g><defs><use id="c" xlink:href="#a"/></defs></svg>'
    # the same cycles with references the cycle check and the expansion loop could normalise differently (padding, case of the id)
    for pad_name, pad in (("trailing_blank", lambda r: r + " "), ("leading_blank", lambda r: " " + r), ("both_tab_newline", lambda r: "\t" + r + "&#10;")):
        d[f"use_self_{pad_name}"] = f'<svg {NS} viewBox="0 0 9 9"><g id="a">{rect}<use xlink:href="{pad("#a")}"/></g></svg>'
        d[f"use_mutual_{pad_name}"] = f'<svg {NS} viewBox="0 0 9 9"><g id="a"><use xlink:href="{pad("#b")}"/></g><g id="b"><use xlink:href="{pad("#a")}"/>{rect}</g></svg>'
        d[f"use_mutual_one_{pad_name}"] = f'<svg {NS} viewBox="0 0 9 9"><g id="a"><use xlink:href="#b"/></g><g id="b"><use xlink:href="{pad("#a")}"/>{rect}</g></svg>'
        d[f"use_only_self_{pad_name}"] = f'<svg {NS} viewBox="0 0 9 9">{rect}<use id="a" xlink:href="{pad("#a")}"/></svg>'
        d[f"grad_mutual_{pad_name}"] = f'<svg {NS} viewBox="0 0 9 9"><defs><linearGradient id="g" xlink:href="{pad("#h")}"><stop offset="0" stop-color="red"/></linearGradient><linearGradient id="h" xlink:href="{pad("#g")}"/></defs><rect width="5" height="5" fill="url(#g)"/></svg>'
        d[f"clip_self_{pad_name}"] = f'<svg {NS} viewBox="0 0 9 9"><clipPath id="c" clip-path="url({pad("#c")})">{rect}</clipPath><rect width="5" height="5" clip-path="url(#c)"/></svg>'
    d["use_dangling"] =f'<svg {NS} viewBox="0 0 9 9"><use xlink:href="#nope"/></svg>'
    d["use_deep_acyclic"] = f'<svg {NS} viewBox="0 0 9 9"><defs>' + f'<g id="l0">{rect}</g>' + "".join(f'<g id="l{i}"><use xlink:href="#l{i-1}"/><use xlink:href="#l{i-1}" x="1"/></g>' for i in range(1, 7)) + '</defs><use xlink:href="#l6"/></svg>'
    d["clip_self"] = f'<svg {NS} viewBox="0 0 9 9"><clipPath id="c" clip-path="url(#c)">{rect}</clipPath><rect width="5" height="5" clip-path="url(#c)"/></svg>'
    d["clip_mutual"] = f'<svg {NS} viewBox="0 0 9 9"><clipPath id="c" clip-path="url(#d)">{rect}</clipPath><clipPath id="d" clip-path="url(#c)">{rect}</clipPath><rect width="5" height="5" clip-path="url(#c)"/></svg>'
    d["clip_children_point_back_twice"] = f'<svg {NS} viewBox="0 0 9 9"><clipPath id="c"><rect width="2" height="2" clip-path="url(#c)"/><rect x="1" width="2" height="2" clip-path="url(#c)"/></clipPath><rect width="5" height="5" clip-path="url(#c)"/></svg>'
    d["clip_children_point_at_each_other"] = f'<svg {NS} viewBox="0 0 9 9"><clipPath id="c"><rect width="2" height="2" clip-path="url(#d)"/><rect x="1" width="2" height="2" clip-path="url(#d)"/></clipPath><clipPath id="d"><rect width="2" height="2" clip-path="url(#c)"/><rect x="1" width="2" height="2" clip-path="url(#c)"/></clipPath><rect width="5" height="5" clip-path="url(#c)"/></svg>'
    d["style_unclosed_quote"] = f'<svg {NS} viewBox="0 0 9 9"><rect width="5" height="5" style="fill:red;font-family:&apos;Noto Sans"/></svg>'
    d["style_semicolon_in_quotes"] = f'<svg {NS} viewBox="0 0 9 9"><g style="font-family:&quot;A;B&quot;;fill:red"><rect width="5" height="5"/></g></svg>'
    d["clip_dangling"] = f'<svg {NS} viewBox="0 0 9 9"><rect width="5" height="5" clip-path="url(#nope)"/></svg>'
    grad = lambda i, href: f'<linearGradient id="{i}" xlink:href="#{href}"><stop offset="0" stop-color="red"/></linearGradient>'
    d["grad_self"] = f'<svg {NS} viewBox="0 0 9 9"><defs>{grad("g", "g")}</defs><rect width="5" height="5" fill="url(#g)"/></svg>'
    d["grad_mutual"] = f'<svg {NS} viewBox="0 0 9 9"><defs>{grad("g", "h")}{grad("h", "g")}</defs><rect width="5" height="5" fill="url(#g)"/></svg>'
    d["grad_rho"] = f'<svg {NS} viewBox="0 0 9 9"><defs>{grad("g", "h")}{grad("h", "g")}{grad("x", "g")}</defs><rect width="5" height="5" fill="url(#x)"/></svg>'
    d["grad_rho_nested"] = f'<svg {NS} viewBox="0 0 9 9"><defs>{grad("g", "h")}{grad("h", "g")}</defs><g><g><defs>{grad("x", "g")}</defs></g></g><rect width="5" height="5" fill="url(#x)"/></svg>'
    d["grad_dangling"] = f'<svg {NS} viewBox="0 0 9 9"><defs>{grad("g", "nope")}</defs><rect width="5" height="5" fill="url(#g)"/></svg>'
    long_id = "gradient-with-a-rather-long-identifier-0123456789"
    lg = f'<linearGradient id="{long_id}"><stop offset="0" stop-color="red"/></linearGradient>'
    d["paint_fallback_colour_long_id"] = f'<svg {NS} viewBox="0 0 9 9"><defs>{lg}</defs><rect width="5" height="5" fill="url(#{long_id}) red" transform="translate(1 1)"/></svg>'
    d["paint_unterminated_url_long_id"] = f'<svg {NS} viewBox="0 0 9 9"><defs>{lg}</defs><g transform="scale(2)"><rect width="5" height="5" fill="url(#{long_id}"/></g></svg>'
    d["clip_url_with_space_long_id"] = f'<svg {NS} viewBox="0 0 9 9"><clipPath id="{long_id}">{rect}</clipPath><rect width="5" height="5" clip-path="url(#{long_id} )"/></svg>'
    # element names that merely START like an allowed one: still unknown elements (converted to nothing or refused, never passed through)
    d["unknown_element_g_dash"] = f'<svg {NS} viewBox="0 0 9 9"><g-emoji opacity="0.5">{rect}<rect x="3" width="2" height="2"/></g-emoji></svg>'
    d["unknown_element_g_dot"] = f'<svg {NS} viewBox="0 0 9 9"><g.layer opacity="0.4">{rect}<rect x="3" width="2" height="2"/></g.layer>{rect}</svg>'
    d["unknown_element_stop_dash"] = f'<svg {NS} viewBox="0 0 9 9"><defs><linearGradient id="g"><stop offset="0" stop-color="red"/><stop-marker offset="1"/></linearGradient></defs><rect width="5" height="5" fill="url(#g)"/></svg>'
    d["unknown_element_gradient_dash"] = f'<svg {NS} viewBox="0 0 9 9"><defs><linearGradient-x id="g"><stop offset="0" stop-color="red"/></linearGradient-x></defs><rect width="5" height="5" fill="url(#g)"/></svg>'
    d["unknown_element_path_dot"] = f'<svg {NS} viewBox="0 0 9 9"><path.old d="M0,0 L5,0 L5,5 Z"/>{rect}</svg>'
    d["bad_number"] = f'<svg {NS} viewBox="0 0 9 9"><rect width="abc" height="5"/></svg>'
    d["bad_path"] = f'<svg {NS} viewBox="0 0 9 9"><path d="M0,0 L1 Q"/></svg>'
    d["bad_transform"] = f'<svg {NS} viewBox="0 0 9 9"><rect width="1" height="1" transform="rotate(x)"/></svg>'
    d["bad_viewbox"] = f'<svg {NS} viewBox="0 0 9"><rect width="1" height="1"/></svg>'
    d["entity_internal"] = f'<!DOCTYPE svg [<!ENTITY w "7">]><svg {NS} viewBox="0 0 9 9"><rect width="&w;" height="5"/></svg>'
    d["entity_text_between_shapes"] = f'<!DOCTYPE svg [<!ENTITY note "hello">]><svg {NS} viewBox="0 0 9 9"><g opacity="0.5">{rect}&note;<rect x="3" width="2" height="2"/></g></svg>'
    d["entity_markup_between_shapes"] = '<!DOCTYPE svg [<!ENTITY shape "<rect xmlns=&#39;http://www.w3.org/2000/svg&#39; x=&#39;4&#39; width=&#39;2&#39; height=&#39;2&#39;/>">]>' + f'<svg {NS} viewBox="0 0 9 9">{rect}&shape;</svg>'
    d["entity_in_defs"] = f'<!DOCTYPE svg [<!ENTITY note "hello">]><svg {NS} viewBox="0 0 9 9"><defs>&note;</defs>{rect}</svg>'
    d["entity_external"] = f'<!DOCTYPE svg [<!ENTITY xxe SYSTEM "file://{secret_path}">]><svg {NS} viewBox="0 0 9 9"><desc>&xxe;</desc><rect width="2" height="2"/>&xxe;</svg>'
    d["entity_external_dash"] = f'<!DOCTYPE svg [<!ENTITY ext-shape SYSTEM "file://{secret_path}">]><svg {NS} viewBox="0 0 9 9"><rect width="2" height="2"/>&ext-shape;</svg>'
    d["entity_parameter"] = f'<!DOCTYPE svg [<!ENTITY % more SYSTEM "file://{secret_path}.dtd"> %more;]><svg {NS} viewBox="0 0 9 9"><rect width="&w;" height="2"/></svg>'
    d["entity_billion"] = '<!DOCTYPE svg [<!ENTITY a "aaaaaaaaaa"><!ENTITY b "&a;&a;&a;&a;&a;&a;&a;&a;">]>' + f'<svg {NS} viewBox="0 0 9 9"><title>&b;</title><rect width="2" height="2"/></svg>'
    return d


def check(tier, seed, limit_s=None):
    limit_s = limit_s or (20 if tier == "thorough" else 8)
    tmp = tempfile.mkdtemp(prefix="adv_", dir=os.environ.get("TMPDIR", "/tmp"))
    secret = os.path.join(tmp, "secret.txt")
    token = "SECRET-TOKEN-7319"
    open(secret, "w").write(f'<rect xmlns="http://www.w3.org/2000/svg" x="50" y="60" width="7" height="7"/>{token}')
    open(secret + ".dtd", "w").write('<!ENTITY w "7.25">')
    docs = documents(secret)
    for k in ("clip_mutual", "clip_self", "grad_mutual", "use_mutual"):
        docs["cli:" + k] = docs[k]
    findings, samples = [], []

    def one(item):
        name, doc = item
        p = os.path.join(tmp, name.replace(":", "_") + ".svg")
        open(p, "w").write(doc)
        if name.startswith("cli:"):
            # the command line entry point itself (python -m picosvg.picosvg FILE): whatever main() sets up before converting counts too
            import time

            t0 = time.time()
            try:
                out = subprocess.run([sys.executable, "-m", "picosvg.picosvg", p], capture_output=True, text=True, timeout=limit_s)
                r = dict(kind="returned", output=out.stdout[:4000], violations=[], seconds=time.time() - t0) if out.returncode == 0 else dict(kind="exception", type=(out.stderr.strip().splitlines() or ["?"])[-1][:80], seconds=time.time() - t0)
            except subprocess.TimeoutExpired:
                r = dict(kind="timeout", seconds=limit_s)
            return name, r
        try:
            out = subprocess.run([sys.executable, os.path.join(ROOT, "bounded", "_adversarial_worker.py"), ROOT, p], capture_output=True, text=True, timeout=limit_s)
            line = (out.stdout.strip().splitlines() or ["{}"])[-1]
            r = json.loads(line) if line.startswith("{") else dict(kind="crash", text=out.stderr[-300:])
        except subprocess.TimeoutExpired:
            r = dict(kind="timeout", seconds=limit_s)
        return name, r

    try:
        with ThreadPoolExecutor(max_workers=8) as ex:
            results = list(ex.map(one, docs.items()))
    finally:
        import shutil

        shutil.rmtree(tmp, ignore_errors=True)
    for name, r in results:
        if r["kind"] == "timeout":
            findings.append((f"termination:timeout:{name}", f"adversarial document {name!r} did not finish within {limit_s}s (neither a document nor an exception)", dict(doc=name, source=docs[name])))
        elif r["kind"] == "crash":
            findings.append((f"termination:crash:{name}", f"adversarial document {name!r} killed the interpreter: {r.get('text', '')[:120]}", dict(doc=name, source=docs[name])))
        elif r["kind"] == "returned":
            if r.get("malformed"):
                findings.append((f"termination:malformed:{name}", f"{name!r} returned normally but the serialised document is not well-formed XML: {r['malformed'][:120]}", dict(doc=name, source=docs[name], output=r.get("output", "")[:300])))
            if r.get("violations"):
                findings.append((f"termination:grammar:{name}", f"{name!r} returned a document that is not a picosvg: {r['violations'][:2]}", dict(doc=name, source=docs[name])))
            if token in r.get("output", "") or 'x="50"' in r.get("output", "") or "7.25" in r.get("output", "") or "M50,60" in r.get("output", ""):
                findings.append((f"termination:external-entity:{name}", f"{name!r}: content of an external entity (local file) reached the output", dict(doc=name, source=docs[name], output=r.get("output", "")[:300])))
        if len(samples) < 4:
            samples.append(dict(doc=name, outcome=r.get("kind"), detail=r.get("type", ""), seconds=round(r.get("seconds", 0), 2)))
    return len(results), len(results), findings, samples
