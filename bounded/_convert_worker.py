"""subprocess worker: convert the named corpus documents in the given order inside ONE process; print {name: digest}"""
import hashlib, json, sys

sys.path.insert(0, sys.argv[1])
from bounded import corpus  # noqa: E402
from picosvg.svg import SVG  # noqa: E402

out = {}
docs = dict(corpus.DOCS)
docs.update(corpus.extra_docs())
for name in sys.argv[2:]:
    try:
        kw = corpus.OPTIONS.get(name, {})
        s = SVG.fromstring(docs[name]).topicosvg(**kw).tostring()
        out[name] = hashlib.sha256(s.encode()).hexdigest()[:16]
    except Exception as e:  # noqa
        out[name] = f"EXC:{type(e).__name__}:{str(e)[:80]}"
print(json.dumps(out))
