"""A recursive-descent recogniser / parser for SVG 1.1 path data, written from the BNF of section 8.3.9
(independent of picosvg's regular expressions).  parse(s) -> list of exploded (cmd, args) or None if s does not
conform to the grammar."""
from __future__ import annotations

WSP = " \t\r\n"
ARITY = {"m": 2, "z": 0, "l": 2, "h": 1, "v": 1, "c": 6, "s": 4, "q": 4, "t": 2, "a": 7}


class _P:
    def __init__(self, s):
        self.s, self.i = s, 0

    def peek(self):
        return self.s[self.i] if self.i < len(self.s) else ""

    def wsp_star(self):
        while self.peek() and self.peek() in WSP:
            self.i += 1

    def comma_wsp_opt(self):
        """comma-wsp?  = (wsp+ comma? wsp*) | (comma wsp*)"""
        j = self.i
        self.wsp_star()
        if self.peek() == ",":
            self.i += 1
            self.wsp_star()
        return self.i != j

    def digits(self):
        j = self.i
        while self.peek().isdigit() and self.peek() in "0123456789":
            self.i += 1
        return self.s[j:self.i]

    def number(self, signed=True):
        j = self.i
        if signed and self.peek() in "+-" and self.peek():
            self.i += 1
        a = self.digits()
        frac = False
        if self.peek() == ".":
            self.i += 1
            b = self.digits()
            frac = True
            if not a and not b:
                self.i = j
                return None
        elif not a:
            self.i = j
            return None
        if self.peek() and self.peek() in "eE":
            k = self.i
            self.i += 1
            if self.peek() and self.peek() in "+-":
                self.i += 1
            if not self.digits():
                self.i = k  # not an exponent: the number ends before the 'e'
        return float(self.s[j:self.i])

    def flag(self):
        if self.peek() and self.peek() in "01":
            self.i += 1
            return int(self.s[self.i - 1])
        return None


def parse(s):
    p = _P(s)
    out = []
    p.wsp_star()
    if p.i == len(s):
        return []  # SVG allows empty path data
    first = True
    while p.i < len(s):
        c = p.peek()
        if c.lower() not in ARITY or not c.isalpha():
            return None
        if first and c not in "Mm":
            return None
        first = False
        p.i += 1
        n = ARITY[c.lower()]
        p.wsp_star()
        if n == 0:
            out.append((c, ()))
            continue
        groups = 0
        cmd = c
        while True:
            args = []
            start = p.i
            ok = True
            for k in range(n):
                if c.lower() == "a" and k in (3, 4):
                    v = p.flag()
                elif c.lower() == "a" and k in (0, 1):
                    v = p.number(signed=False)
                else:
                    v = p.number()
                if v is None:
                    ok = False
                    break
                args.append(v)
                if k < n - 1:
                    p.comma_wsp_opt()
            if not ok:
                if groups == 0 or args:
                    return None
                p.i = start
                break
            out.append((cmd, tuple(args)))
            groups += 1
            if cmd == "M":
                cmd = "L"
            elif cmd == "m":
                cmd = "l"
            save = p.i
            if not p.comma_wsp_opt():
                # the next number may follow directly (sign or dot delimited)
                pass
            nxt = p.peek()
            if not nxt or (nxt.isalpha() and nxt not in "eE"):
                # trailing comma before a command letter is not allowed by the BNF
                if "," in s[save:p.i]:
                    return None
                break
        p.wsp_star()
    return out
