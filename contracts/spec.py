"""Spec functions shared by the contracts.  Plain Python over numbers: they run on floats
(native replay) and on Sym terms (proof) alike.  Written from the SVG 1.1 specification,
not from picosvg."""
from pyvc.sym import And, Implies, Ite, Not, Or, smax, smin  # noqa: F401

IDENT = (1, 0, 0, 1, 0, 0)


def mat_mul(A, B):
    """SVG 7.5: the matrix product A x B of [a c e; b d f; 0 0 1] matrices."""
    a1, b1, c1, d1, e1, f1 = A
    a2, b2, c2, d2, e2, f2 = B
    return (
        a1 * a2 + c1 * b2,
        b1 * a2 + d1 * b2,
        a1 * c2 + c1 * d2,
        b1 * c2 + d1 * d2,
        a1 * e2 + c1 * f2 + e1,
        b1 * e2 + d1 * f2 + f1,
    )


def map_pt(A, p):
    a, b, c, d, e, f = A
    x, y = p
    return (a * x + c * y + e, b * x + d * y + f)


def map_vec(A, v):
    a, b, c, d, e, f = A
    x, y = v
    return (a * x + c * y, b * x + d * y)


def det(A):
    return A[0] * A[3] - A[1] * A[2]


def translate_m(tx, ty):
    return (1, 0, 0, 1, tx, ty)


def scale_m(sx, sy):
    return (sx, 0, 0, sy, 0, 0)


def rotate_m(s, c):
    """SVG 7.6 rotate: [cos a, sin a, -sin a, cos a, 0, 0] given (sin a, cos a)."""
    return (c, s, -s, c, 0, 0)
