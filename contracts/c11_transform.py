"""C11 - transform strings and affine algebra follow the SVG specification.

Functions under contract: every Affine2D method of svg_transform.py, _fix_rotate, the
dispatch of parse_svg_transform, Rect.empty.  Postconditions are SVG 1.1 section 7.4-7.6 and
7.8 (preserveAspectRatio), not picosvg's behaviour.
"""
from __future__ import annotations

import math
from sys import float_info

from picosvg.geometric_types import Point, Rect, Vector
from picosvg.svg_transform import Affine2D, parse_svg_transform

from pyvc.registry import obligation
from pyvc.sym import And, Implies, Ite, Not, Or, SReal, is_sym, smax, smin

from .spec import IDENT, det, map_pt, map_vec, mat_mul, rotate_m, scale_m, translate_m

P = "C11"
# the algebra every placement (C02), gradient rewrite (C06) and reuse search (C20) stands on is re-checked with those properties too
PA = ("C11", "C02", "C06", "C20")
FN = "svg_transform.Affine2D."


def aff(H, prefix):
    return Affine2D(*H.reals(prefix, 6))


def pt(H, prefix):
    return (H.real(prefix + "x"), H.real(prefix + "y"))


@obligation(PA, "affine.matmul", functions=[FN + "__matmul__", FN + "map_point", FN + "map_vector", FN + "matrix", FN + "identity"])
def matmul(H):
    """(A@B) is the SVG matrix product; mapping by A@B is mapping by B then A; @ is associative; identity is neutral."""
    A, B, C = aff(H, "A"), aff(H, "B"), aff(H, "C")
    p = pt(H, "p")
    AB = H.call(Affine2D.__matmul__, A, B)
    H.prove(H.close(tuple(AB), mat_mul(A, B)), "matmul.is_matrix_product")
    H.prove(H.close(tuple(H.call(Affine2D.map_point, AB, p)), map_pt(A, map_pt(B, p))), "matmul.maps_right_operand_first")
    H.prove(H.close(tuple(H.call(Affine2D.map_point, A, p)), map_pt(A, p)), "map_point.def")
    H.prove(H.close(tuple(H.call(Affine2D.map_vector, A, p)), map_vec(A, p)), "map_vector.def")
    lhs = H.call(Affine2D.__matmul__, AB, C)
    rhs = H.call(Affine2D.__matmul__, A, H.call(Affine2D.__matmul__, B, C))
    H.prove(H.close(tuple(lhs), tuple(rhs)), "matmul.associative")
    I = H.call(Affine2D.identity)
    H.prove(H.close(tuple(I), IDENT), "identity.is_unit_matrix")
    H.prove(H.close(tuple(H.call(Affine2D.__matmul__, I, A)), tuple(A)), "identity.left_neutral")
    H.prove(H.close(tuple(H.call(Affine2D.__matmul__, A, I)), tuple(A)), "identity.right_neutral")
    M6 = H.reals("m", 6)
    H.prove(H.close(tuple(H.call(Affine2D.matrix, A, *M6)), mat_mul(A, M6)), "matrix.post_multiplies")
    other, e = H.catch(Affine2D.__matmul__, A, (1, 2))
    H.prove(e is None and other is NotImplemented, "matmul.rejects_non_affine")


@obligation(PA, "affine.primitives", functions=[FN + "translate", FN + "scale", FN + "rotate", FN + "skewx", FN + "skewy", FN + "skew", FN + "gettranslate", FN + "getscale"])
def primitives(H):
    """translate/scale/rotate/skewX/skewY post-multiply by the SVG 7.6 matrices, optional arguments defaulted per spec."""
    A = aff(H, "A")
    tx, ty, sx, sy, ang, cx, cy = (H.real(n) for n in ("tx", "ty", "sx", "sy", "ang", "cx", "cy"))
    s, c = H.trig(ang)
    H.prove(H.close(tuple(H.call(Affine2D.translate, A, tx, ty)), mat_mul(A, translate_m(tx, ty))), "translate.matrix")
    H.prove(H.close(tuple(H.call(Affine2D.translate, A, tx)), mat_mul(A, translate_m(tx, 0))), "translate.ty_defaults_to_0")
    H.prove(H.close(tuple(H.call(Affine2D.scale, A, sx, sy)), mat_mul(A, scale_m(sx, sy))), "scale.matrix")
    H.prove(H.close(tuple(H.call(Affine2D.scale, A, sx)), mat_mul(A, scale_m(sx, sx))), "scale.sy_defaults_to_sx")
    R = rotate_m(s, c)
    H.prove(H.close(tuple(H.call(Affine2D.rotate, A, ang)), mat_mul(A, R)), "rotate.matrix")
    want = mat_mul(mat_mul(mat_mul(A, translate_m(cx, cy)), R), translate_m(-cx, -cy))
    H.prove(H.close(tuple(H.call(Affine2D.rotate, A, ang, cx, cy)), want), "rotate.about_centre")
    # tan(a) is characterised by tan*cos == sin (cos != 0)
    if H.mode == "concrete" and abs(c) < 1e-6:
        return
    K = H.call(Affine2D.skewx, Affine2D(1, 0, 0, 1, 0, 0), ang)
    H.prove(And(H.close((K[0], K[1], K[3], K[4], K[5]), (1, 0, 1, 0, 0)), H.close(K[2] * c, s)), "skewX.matrix")
    H.prove(H.close(tuple(H.call(Affine2D.skewx, A, ang)), mat_mul(A, tuple(K))), "skewX.post_multiplies")
    K = H.call(Affine2D.skewy, Affine2D(1, 0, 0, 1, 0, 0), ang)
    H.prove(And(H.close((K[0], K[2], K[3], K[4], K[5]), (1, 0, 1, 0, 0)), H.close(K[1] * c, s)), "skewY.matrix")
    H.prove(H.close(tuple(H.call(Affine2D.skewy, A, ang)), mat_mul(A, tuple(K))), "skewY.post_multiplies")
    # skew(ax, ay) is ONE matrix [1 tan(ay) tan(ax) 1 0 0] (not skewX followed by skewY, whose a entry is 1 + tan(ax) tan(ay))
    ang2 = H.real("ang2")
    s2, c2 = H.trig(ang2)
    if not (H.mode == "concrete" and abs(c2) < 1e-6):
        K = H.call(Affine2D.skew, Affine2D(1, 0, 0, 1, 0, 0), ang, ang2)
        H.prove(And(H.close((K[0], K[3], K[4], K[5]), (1, 1, 0, 0)), H.close(K[2] * c, s), H.close(K[1] * c2, s2)), "skew.matrix_of_both_angles")
        H.prove(H.close(tuple(H.call(Affine2D.skew, A, ang, ang2)), mat_mul(A, tuple(K))), "skew.post_multiplies")
    H.prove(H.close(tuple(H.call(Affine2D.gettranslate, A)), (A[4], A[5])), "gettranslate.def")
    H.prove(H.close(tuple(H.call(Affine2D.getscale, A)), (A[0], A[3])), "getscale.def")


@obligation(PA, "affine.inverse", functions=[FN + "inverse", FN + "determinant", FN + "is_degenerate", FN + "degenerate"])
def inverse(H):
    """inverse undoes every non-degenerate transform (both sides); degenerate input gives the degenerate matrix; no exception."""
    A = aff(H, "A")
    d = H.call(Affine2D.determinant, A)
    H.prove(H.close(d, det(A)), "determinant.def")
    deg = H.call(Affine2D.is_degenerate, A)
    H.prove(H.close(deg, abs(det(A)) <= float_info.epsilon), "is_degenerate.def")
    inv, e = H.catch(Affine2D.inverse, A)
    H.prove(e is None, "inverse.no_exception")
    if e is not None:
        return
    if H.truth(abs(det(A)) > float_info.epsilon):
        H.prove(H.close(mat_mul(inv, A), IDENT), "inverse.left")
        H.prove(H.close(mat_mul(A, inv), IDENT), "inverse.right")
    else:
        # identity has determinant 1, so this branch is the degenerate one
        H.prove(H.close(tuple(inv), (0, 0, 0, 0, 0, 0)), "inverse.degenerate_gives_zero_matrix")


ALIGN = ("none", "xMinYMin", "xMidYMin", "xMaxYMin", "xMinYMid", "xMidYMid", "xMaxYMid", "xMinYMax", "xMidYMax", "xMaxYMax")


@obligation(P, "affine.rect_to_rect", split=("align", ALIGN), functions=[FN + "rect_to_rect", "geometric_types.Rect.empty"])
def rect_to_rect(H):
    """Viewport mapping per SVG 7.8: for all positive rectangles and all 30 (align, meetOrSlice) values."""
    align = H.case("align", ALIGN)
    mos = H.case("meetOrSlice", ("", "meet", "slice"))
    spelling = H.case("spelling", ("spec", "lower"))
    par = align + (" " + mos if mos else "")
    if spelling == "lower":
        par = par.lower()
    src = Rect(*H.reals("s", 4))
    dst = Rect(*H.reals("d", 4))
    H.assume(And(src.w > 0, src.h > 0, dst.w > 0, dst.h > 0))
    M, e = H.catch(Affine2D.rect_to_rect, src, dst, par)
    H.prove(e is None, "rect_to_rect.no_exception_on_valid_input")
    if e is not None:
        return
    a, b, c, d, tx, ty = M
    H.prove(And(H.close(b, 0), H.close(c, 0)), "rect_to_rect.scale_and_translate_only")
    fx, fy = dst.w / src.w, dst.h / src.h
    # image of the source box
    x0, y0 = map_pt(M, (src.x, src.y))
    x1, y1 = map_pt(M, (src.x + src.w, src.y + src.h))
    if align == "none":
        H.prove(And(H.close(a, fx), H.close(d, fy)), "none.fills_independently")
        H.prove(And(H.close(x0, dst.x), H.close(y0, dst.y), H.close(x1, dst.x + dst.w), H.close(y1, dst.y + dst.h)), "none.maps_box_onto_box")
        return
    H.prove(H.close(a, d), "aspect.uniform_scale")
    if mos == "slice":
        H.prove(H.close(a, smax(fx, fy)), "slice.larger_scale")
        H.prove(And(x0 <= dst.x + 1e-9, y0 <= dst.y + 1e-9, x1 >= dst.x + dst.w - 1e-9, y1 >= dst.y + dst.h - 1e-9) if H.mode == "concrete"
                else And(x0 <= dst.x, y0 <= dst.y, x1 >= dst.x + dst.w, y1 >= dst.y + dst.h), "slice.covers_viewport")
    else:
        H.prove(H.close(a, smin(fx, fy)), "meet.smaller_scale")
        H.prove(And(x0 >= dst.x - 1e-9, y0 >= dst.y - 1e-9, x1 <= dst.x + dst.w + 1e-9, y1 <= dst.y + dst.h + 1e-9) if H.mode == "concrete"
                else And(x0 >= dst.x, y0 >= dst.y, x1 <= dst.x + dst.w, y1 <= dst.y + dst.h), "meet.fits_inside_viewport")
    H.prove(Or(H.close(x1 - x0, dst.w), H.close(y1 - y0, dst.h)), "aspect.touches_in_one_dimension")
    ax, ay = align[:4].lower(), align[4:].lower()
    if ax == "xmin":
        H.prove(H.close(x0, dst.x), "align.xMin")
    elif ax == "xmid":
        H.prove(H.close((x0 + x1) / 2, dst.x + dst.w / 2), "align.xMid")
    else:
        H.prove(H.close(x1, dst.x + dst.w), "align.xMax")
    if ay == "ymin":
        H.prove(H.close(y0, dst.y), "align.yMin")
    elif ay == "ymid":
        H.prove(H.close((y0 + y1) / 2, dst.y + dst.h / 2), "align.yMid")
    else:
        H.prove(H.close(y1, dst.y + dst.h), "align.yMax")


@obligation(P, "affine.rect_to_rect.invalid", functions=[FN + "rect_to_rect"])
def rect_to_rect_invalid(H):
    """Strings outside the preserveAspectRatio grammar are rejected with ValueError (never silently read as a mode)."""
    bad = H.case("bad", ("", "xmid", "xMidYMid  meet", "xMidYMid meets", "meet", "none slice x", "xMidYMid,meet", "defer"))
    src = Rect(*H.reals("s", 4))
    dst = Rect(*H.reals("d", 4))
    H.assume(And(src.w > 0, src.h > 0, dst.w > 0, dst.h > 0))
    M, e = H.catch(Affine2D.rect_to_rect, src, dst, bad)
    H.prove(isinstance(e, ValueError), "rect_to_rect.invalid_is_ValueError")


@obligation(PA, "affine.decompose", functions=[FN + "decompose_translation", FN + "decompose_scale", FN + "almost_equals", FN + "compose_ltr", "geometric_types.almost_equal"])
def decompose(H):
    """decompose_translation / decompose_scale recompose to the original transform, or raise."""
    which = H.case("which", ("translation", "scale"))
    A = aff(H, "A")
    p = pt(H, "p")
    if which == "translation":
        r, e = H.catch(Affine2D.decompose_translation, A)
        # the code solves exactly when |a| > 1e-9 or a == 0; for 0 < |a| <= 1e-9 it treats a as 0 and its own
        # assert (1e-4) decides between returning and raising
        exact = H.truth(Or(abs(A[0]) > 1e-9, H.close(A[0], 0)))
        if e is not None:
            H.prove(isinstance(e, (ZeroDivisionError, AssertionError)), "decompose_translation.raises_only_ZeroDivision_or_Assertion")
            if exact:
                # it may only fail when the 2x2 part is singular (nothing to solve for)
                H.prove(isinstance(e, ZeroDivisionError), "decompose_translation.exact_branch_never_fails_its_assert")
                H.prove(H.close(det(A), 0) if H.mode == "sym" else abs(det(A)) < 1e-12, "decompose_translation.fails_only_when_singular")
            return
        T, L = r
        H.prove(H.close((T[0], T[1], T[2], T[3]), (1, 0, 0, 1)), "decompose_translation.first_is_pure_translation")
        H.prove(H.close(tuple(L), (A[0], A[1], A[2], A[3], 0, 0)), "decompose_translation.second_is_linear_part")
        rec = mat_mul(L, T)  # ltr: translation first, then the linear part
        if exact:
            tol = 1e-9 if H.mode == "sym" else 1e-6 * (1 + abs(A[4]) + abs(A[5]))
        else:
            tol = 1e-4 if H.mode == "sym" else 1.0001e-4
        H.prove(And(*[abs(rec[i] - A[i]) <= tol for i in range(6)]), "decompose_translation.recomposes_ltr")
    else:
        r, e = H.catch(Affine2D.decompose_scale, A)
        if e is not None:
            H.prove(isinstance(e, AssertionError), "decompose_scale.only_AssertionError")
            return
        S, Rm = r
        H.prove(And(H.close((S[1], S[2], S[4], S[5]), (0, 0, 0, 0)), S[0] >= 0, S[3] >= 0,
                    H.close(S[0] * S[0], A[0] * A[0] + A[1] * A[1]), H.close(S[3] * S[3], A[2] * A[2] + A[3] * A[3])), "decompose_scale.first_is_scale_by_basis_norms")
        rec = mat_mul(Rm, S)  # ltr: scale first, then remaining
        tol = 1e-4 if H.mode == "sym" else 1.0001e-4
        H.prove(And(*[abs(rec[i] - A[i]) <= tol for i in range(6)]), "decompose_scale.recomposes_ltr_within_1e-4")
        if H.truth(S[0] * S[3] > float_info.epsilon):
            H.prove(H.close(tuple(rec), tuple(A)), "decompose_scale.exact_when_scale_invertible")


def _compose_small(H, n):
    seq = tuple(aff(H, f"A{i}_") for i in range(n))
    p = pt(H, "p")
    R = H.call(Affine2D.compose_ltr, seq)
    q = p
    for A in seq:
        q = map_pt(A, q)
    H.prove(H.close(tuple(H.call(Affine2D.map_point, R, p)), q), f"compose_ltr.first_listed_applies_first.n{n}")


@obligation(PA, "affine.compose_ltr.small", functions=[FN + "compose_ltr"])
def compose_small(H):
    """compose_ltr maps a point through the first transform first - exact unrolling for lengths 0..3 (the general length is affine.compose_ltr.fold)."""
    n = H.case("n", (0, 1, 2, 3))
    _compose_small(H, n)


@obligation(PA, "affine.compose_ltr.fold", functions=[FN + "compose_ltr"])
def compose_fold(H):
    """compose_ltr over a sequence of ANY length maps a point through the first listed transform first.

    Cut-point rule on the fold (functools.reduce is assumed to be a left fold, DESIGN 3.1).  Ghost F(q) is
    the left-to-right application of the part of the sequence consumed so far.
    """
    if H.mode == "concrete":
        _compose_small(H, 3)
        return
    import z3

    from pyvc import loops
    from pyvc.sym import SReal, real_z

    loops.install(H)
    R = z3.RealSort()
    Fx, Fy = z3.Function("Fx", R, R, R), z3.Function("Fy", R, R, R)
    Gx, Gy = z3.Function("Gx", R, R, R), z3.Function("Gy", R, R, R)
    x, y = z3.Reals("qx qy")

    def forall_maps_like(M, fx, fy):
        a, b, c, d, e, f = (real_z(v) for v in M)
        return z3.ForAll([x, y], z3.And(a * x + c * y + e == fx(x, y), b * x + d * y + f == fy(x, y)))

    class Fold:
        def check_init(self, fn, xs, init):
            q = pt(H, "q0")
            H.prove(H.close(tuple(H.call(Affine2D.map_point, init, q)), q), "compose_ltr.fold.init_is_identity_map")

        def havoc(self, xs):
            # induction hypothesis "for all q: acc(q) == F(q)", instantiated at the two points the step needs
            # (quantifier-free, so a broken step is refuted with a model instead of timing out)
            acc = aff(H, "acc")
            self.q = pt(H, "q")
            self.E = aff(H, "E")
            for at in (self.q, map_pt(self.E, self.q)):
                m = map_pt(acc, at)
                H.assume(And(m[0] == SReal(Fx(real_z(at[0]), real_z(at[1]))), m[1] == SReal(Fy(real_z(at[0]), real_z(at[1])))))
            return acc

        def element(self, xs):
            return self.E

        def check_step(self, acc, item, acc2):
            q = self.q
            got = tuple(H.call(Affine2D.map_point, acc2, q))
            if xs_view["v"] == "reversed":
                # consumed part is a suffix: apply_ltr([E] + suffix, q) = apply_ltr(suffix, E(q))
                m = map_pt(item, q)
                want = (SReal(Fx(real_z(m[0]), real_z(m[1]))), SReal(Fy(real_z(m[0]), real_z(m[1]))))
            else:
                # consumed part is a prefix: apply_ltr(prefix + [E], q) = E(apply_ltr(prefix, q))
                want = map_pt(item, (SReal(Fx(real_z(q[0]), real_z(q[1]))), SReal(Fy(real_z(q[0]), real_z(q[1])))))
            H.prove(H.close(got, want), "compose_ltr.fold.step_extends_ltr_application")

        def final(self, xs):
            acc = aff(H, "accF")
            H.assume(forall_maps_like(acc, Gx, Gy))
            return acc

    xs_view = {"v": None}
    fold = Fold()
    orig_havoc, orig_init = fold.havoc, fold.check_init

    def rec_view(xs):
        xs_view["v"] = xs.view

    fold.check_init = lambda fn, xs, init: (rec_view(xs), orig_init(fn, xs, init))[1]
    fold.havoc = lambda xs: (rec_view(xs), orig_havoc(xs))[1]
    H.ctx.fold_contract = fold
    seq = loops.AbsSeq("affines")
    p = pt(H, "p")
    Rm = H.call(Affine2D.compose_ltr, seq)
    got = tuple(H.call(Affine2D.map_point, Rm, p))
    H.prove(H.close(got, (SReal(Gx(real_z(p[0]), real_z(p[1]))), SReal(Gy(real_z(p[0]), real_z(p[1]))))), "compose_ltr.result_is_the_fold")


# name, number of arguments -> SVG 7.6 matrix (angles in degrees)
def _svg_op_matrix(H, name, a):
    n = name.lower()
    if n == "matrix" and len(a) == 6:
        return tuple(a)
    if n == "translate" and len(a) in (1, 2):
        return translate_m(a[0], a[1] if len(a) == 2 else 0)
    if n == "scale" and len(a) in (1, 2):
        return scale_m(a[0], a[1] if len(a) == 2 else a[0])
    if n == "rotate" and len(a) in (1, 3):
        s, c = H.trig(a[0] * H.PI / 180)
        R = rotate_m(s, c)
        if len(a) == 3:
            return mat_mul(mat_mul(translate_m(a[1], a[2]), R), translate_m(-a[1], -a[2]))
        return R
    if n in ("skewx", "skewy") and len(a) == 1:
        s, c = H.trig(a[0] * H.PI / 180)
        return ("skew", n, s, c)
    return None


_OPS = (("matrix", 6), ("translate", 1), ("translate", 2), ("scale", 1), ("scale", 2), ("rotate", 1), ("rotate", 3), ("skewX", 1), ("skewY", 1))


def _placeholder(i):
    # a distinctive *numeric* token, so that any correct tokeniser (split-based or number-regex based) isolates it
    return str(70001 + i)


def _transform_string(H, ops, sep, spell):
    """Build the attribute text.  Symbolic run: every number is a distinctive numeric placeholder token that the
    overridden float() turns into a symbolic real (the real tokenising code still runs, natively, on the text);
    native run: repr of the floats."""
    vals, parts = [], []
    for name, k in ops:
        toks = []
        for _ in range(k):
            i = len(vals)
            v = H.real(f"arg{i}")
            vals.append(v)
            toks.append(_placeholder(i) if H.mode == "sym" else repr(v))
        nm = {"spec": name, "lower": name.lower(), "upper": name.upper()}[spell]
        parts.append(f"{nm}({sep.join(toks)})")
    return vals, parts


@obligation(P, "transform.dispatch", split=("op1", _OPS), functions=["svg_transform.parse_svg_transform", "svg_transform._fix_rotate"])
def dispatch(H):
    """A transform attribute is the matrix product of its operations in the listed order, each per SVG 7.6, names case-insensitive."""
    op1 = H.case("op1", _OPS)
    op2 = H.case("op2", (None,) + _OPS)
    sep = H.case("sep", (",", " ", " , "))
    spell = H.case("spell", ("spec", "lower", "upper"))
    ops = [op1] + ([op2] if op2 else [])
    vals, parts = _transform_string(H, ops, sep, spell)
    text = H.case("between", (" ", ", ", "")).join(parts)
    if H.mode == "sym":
        table = {_placeholder(i): v for i, v in enumerate(vals)}
        H.override(float, lambda I, s=0.0: table[s] if isinstance(s, str) and s in table else float(s))
    M, e = H.catch(parse_svg_transform, text)
    H.prove(e is None, "dispatch.no_exception_on_valid_list")
    if e is not None:
        return
    want = IDENT
    k = 0
    tan_ok = True
    for name, n in ops:
        m = _svg_op_matrix(H, name, vals[k : k + n])
        k += n
        if isinstance(m[0], str) and m[0] == "skew":
            _, which, s, c = m
            if H.mode == "concrete":
                if abs(c) < 1e-6:
                    return
                t = s / c
            else:
                # tan characterised by t*c == s; take the code's own value and check the characterisation
                t = H.call(math.tan, vals[k - 1] * H.PI / 180)
                H.prove(H.close(t * c, s), "dispatch.skew_uses_tan_of_degrees")
            m = (1, 0, t, 1, 0, 0) if which == "skewx" else (1, t, 0, 1, 0, 0)
        want = mat_mul(want, m)
    H.prove(H.close(tuple(M), want), "dispatch.product_in_listed_order")
