"""C05 - every output path carries the paint and opacity the SVG cascade assigns (attribute-map level).

Functions under contract: the _inherit_* handlers, _inherit_attrib, _attrib_to_pass_on, _attr_supported,
_drop_default_attrib, _opacity, _clamp, _is_removable_group, _try_remove_group, normalize_opacity, and the
_INHERIT_ATTRIB_HANDLERS / ATTRIB_DEFAULTS tables.  Spec: own value, else the parent's computed value, else the
initial value (SVG 1.1 6.x property index); opacity is not inherited but group opacity is pushed down as a
product when a group is flattened; display:none is sticky downwards.
"""
from __future__ import annotations

from picosvg import svg as S
from picosvg.svg import (
    _attrib_to_pass_on,
    _clamp,
    _drop_default_attrib,
    _inherit_attrib,
    _inherit_clip_path,
    _inherit_copy,
    _inherit_matrix_multiply,
    _inherit_multiply,
    _inherit_nondefault_display,
    _inherit_nondefault_overflow,
    _is_removable_group,
    _opacity,
    _try_remove_group,
)
from picosvg.svg_types import SVGPath, SVGShape

from pyvc.registry import obligation
from pyvc.sym import And, Implies, Not, Or, smax, smin

from . import fake_tree
from .fake_tree import comment, element, num_of, numstr

P = "C05"
F = "svg."


def _clamp01(H, v):
    if H.mode == "sym":
        return smax(0, smin(1, v))
    return max(0.0, min(1.0, v))


def _attr_state(H, el):
    return dict(el.attrib)


@obligation(P, "cascade.inherit_copy", functions=[F + "_inherit_copy"])
def inherit_copy(H):
    """An inherited property: the child's own value wins, otherwise the parent's value is taken; nothing else is touched."""
    fake_tree.install(H)
    parent_has = H.case("parent_has", (True, False))
    child_has = H.case("child_has", (True, False))
    pv, cv = "parent-paint", "child-paint"
    attrib = {"fill": pv, "other": "p-other"} if parent_has else {"other": "p-other"}
    child = element(H, "path", {"fill": cv, "keep": "me"} if child_has else {"keep": "me"})
    H.call(_inherit_copy, attrib, child, "fill")
    want = {"keep": "me"}
    if child_has:
        want["fill"] = cv
    elif parent_has:
        want["fill"] = pv
    H.prove(dict(child.attrib) == want, "inherit_copy.own_value_else_parent_value_and_frame")
    H.prove(attrib == ({"fill": pv, "other": "p-other"} if parent_has else {"other": "p-other"}), "inherit_copy.parent_map_unchanged")


@obligation(P, "cascade.inherit_multiply", functions=[F + "_inherit_multiply"])
def inherit_multiply(H):
    """Opacity pushed down from a flattened ancestor multiplies with the child's own opacity (absent = 1)."""
    fake_tree.install(H)
    parent_has = H.case("parent_has", (True, False))
    child_has = H.case("child_has", (True, False))
    ps, pn = numstr(H, "p")
    cs, cn = numstr(H, "c")
    attrib = {"opacity": ps} if parent_has else {}
    child = element(H, "path", {"opacity": cs, "keep": "me"} if child_has else {"keep": "me"})
    H.call(_inherit_multiply, attrib, child, "opacity")
    if not parent_has and not child_has:
        H.prove(dict(child.attrib) == {"keep": "me"}, "inherit_multiply.nothing_to_do_when_both_absent")
        return
    ok = set(child.attrib) == {"opacity", "keep"} and child.attrib["keep"] == "me"
    H.prove(ok, "inherit_multiply.frame")
    if ok:
        # what a renderer composites with is the value clamped to [0, 1] (SVG 1.1 14.5): the pushed-down result must have the alpha of the
        # two elements it replaces, each clamped on its own
        want = _clamp01(H, pn if parent_has else 1) * _clamp01(H, cn if child_has else 1)
        got = _clamp01(H, num_of(H, child.attrib["opacity"]))
        H.prove(H.close(got, want) if H.mode == "sym" else abs(got - want) <= 1e-9 * (1 + abs(want)), "inherit_multiply.alpha_is_the_product_of_the_clamped_parent_and_child_opacities")


@obligation(P, "cascade.display_and_overflow", functions=[F + "_inherit_nondefault_display", F + "_inherit_nondefault_overflow"])
def display_overflow(H):
    """display:none on an ancestor hides the subtree whatever the child says; otherwise display is copied like an inherited
    property.  overflow is passed down only when it is not the default 'visible'."""
    fake_tree.install(H)
    which = H.case("which", ("display", "overflow"))
    pv = H.case("parent", (None, "none", "inline", "block") if which == "display" else (None, "visible", "hidden", "scroll"))
    cv = H.case("child", (None, "none", "inline") if which == "display" else (None, "visible", "hidden"))
    attrib = {} if pv is None else {which: pv}
    child = element(H, "g", {} if cv is None else {which: cv})
    H.call(_inherit_nondefault_display if which == "display" else _inherit_nondefault_overflow, attrib, child, which)
    got = child.attrib.get(which)
    if which == "display":
        want = "none" if pv == "none" else (cv if cv is not None else pv)
    else:
        want = cv if cv is not None else (pv if pv not in (None, "visible") else None)
    H.prove(got == want, f"{which}.inherited_value", detail=f"got {got!r} want {want!r}")


@obligation((P, "C04"), "cascade.handler_table", functions=[F + "_do_not_inherit"])
def handler_table(H):
    """Each presentation attribute is wired to the inheritance its definition requires (SVG 1.1 property index)."""
    T = S._INHERIT_ATTRIB_HANDLERS
    inherited = ("clip-rule", "color", "fill", "fill-rule", "fill-opacity", "stroke", "stroke-width", "stroke-linecap", "stroke-linejoin",
                 "stroke-miterlimit", "stroke-dasharray", "stroke-dashoffset", "stroke-opacity")
    # by behaviour, not by identity: whatever function the table holds, handing the parent's value down gives the child that value exactly
    # when the child has none of its own - for EVERY parent value, the property's initial value included (an intermediate ancestor that
    # resets stroke-dasharray to "none" or stroke-width to "1" overrides what an outer ancestor said)
    fake_tree.install(H)
    initial_text = {"clip-rule": "nonzero", "color": "black", "fill": "black", "fill-rule": "nonzero", "fill-opacity": "1", "stroke": "none", "stroke-width": "1", "stroke-linecap": "butt",
                    "stroke-linejoin": "miter", "stroke-miterlimit": "4", "stroke-dasharray": "none", "stroke-dashoffset": "0", "stroke-opacity": "1"}
    for a in inherited:
        h = T.get(a)
        H.prove(h is not None, f"table.{a}_has_a_handler")
        if h is None:
            continue
        ok = True
        for pv in (initial_text[a], "7"):
            for own in (None, "3"):
                child = element(H, "path", {"d": "M0,0"} if own is None else {"d": "M0,0", a: own})
                _, e = H.catch(h, {a: pv}, child, a)
                ok = ok and e is None and child.attrib.get(a) == (own if own is not None else pv) and set(child.attrib) <= {"d", a}
        H.prove(ok, f"table.{a}_is_inherited_by_copy")
    H.prove(T.get("opacity") is _inherit_multiply, "table.opacity_multiplies")
    H.prove(T.get("display") is _inherit_nondefault_display, "table.display_none_is_sticky")
    H.prove(T.get("transform") is _inherit_matrix_multiply, "table.transform_composes")
    H.prove(T.get("clip-path") is _inherit_clip_path, "table.clip_path_accumulates")
    H.prove(T.get("id") is S._do_not_inherit, "table.id_is_not_inherited")
    D = S.ATTRIB_DEFAULTS
    initial = {"fill": "black", "fill-opacity": 1.0, "fill-rule": "nonzero", "clip-rule": "nonzero", "stroke": "none", "stroke-width": 1.0, "stroke-linecap": "butt",
               "stroke-linejoin": "miter", "stroke-miterlimit": 4, "stroke-dasharray": "none", "stroke-dashoffset": 0.0, "stroke-opacity": 1.0, "opacity": 1.0,
               "display": "inline"}
    for k, v in initial.items():
        H.prove(D.get(k) == v, f"defaults.{k}_initial_value_per_SVG")
    H.prove(S._ATTRIB_W_CUSTOM_INHERITANCE == frozenset({"clip-path", "opacity", "transform"}), "table.custom_inheritance_set")
    H.prove(all(k in S._INHERITABLE_ATTRIB for k in inherited + ("opacity", "display", "transform", "clip-path")) and "id" not in S._INHERITABLE_ATTRIB,
            "table.root_cleanup_covers_every_inheritable_attribute")


@obligation((P, "C02"), "cascade.inherit_attrib", functions=[F + "_inherit_attrib", F + "_attr_supported", F + "_attrib_to_pass_on"])
def inherit_attrib(H):
    """_inherit_attrib dispatches every attribute to its handler (skipped / unsupported ones are dropped), raises on an
    unhandled leftover unless told to skip; _attrib_to_pass_on gives the child's own inherited-by-copy value, else the context's."""
    fake_tree.install(H)
    which = H.case("scenario", ("dispatch", "unhandled raises", "unhandled skipped", "skips honoured", "pass_on"))
    if which == "dispatch":
        os_, on = numstr(H, "o")
        cs, cn = numstr(H, "c")
        child = element(H, "path", {"opacity": cs, "stroke": "blue"})
        H.call(_inherit_attrib, {"fill": "red", "stroke": "green", "opacity": os_, "display": "none", "id": "nope"}, child)
        ok = set(child.attrib) == {"opacity", "stroke", "fill", "display"}
        H.prove(ok, "inherit_attrib.every_handled_attribute_reaches_the_child_id_does_not", detail=str(sorted(child.attrib)))
        if ok:
            H.prove(child.attrib["fill"] == "red" and child.attrib["stroke"] == "blue" and child.attrib["display"] == "none", "inherit_attrib.copy_semantics_per_attribute")
            got = _clamp01(H, num_of(H, child.attrib["opacity"]))
            want = _clamp01(H, on) * _clamp01(H, cn)
            H.prove(H.close(got, want) if H.mode == "sym" else abs(got - want) < 1e-9 * (1 + abs(want)), "inherit_attrib.opacity_multiplied")
    elif which == "unhandled raises":
        child = element(H, "g", {})
        _, e = H.catch(_inherit_attrib, {"fill": "red", "font-size": "3"}, child)
        H.prove(isinstance(e, ValueError), "inherit_attrib.unknown_attribute_is_an_error")
    elif which == "unhandled skipped":
        child = element(H, "g", {})
        _, e = H.catch(_inherit_attrib, {"fill": "red", "font-size": "3"}, child, skip_unhandled=True)
        H.prove(e is None and dict(child.attrib) == {"fill": "red"}, "inherit_attrib.skip_unhandled_ignores_unknown_attributes")
    elif which == "skips honoured":
        child = element(H, "g", {})
        _, e = H.catch(_inherit_attrib, {"fill": "red", "opacity": "0.5", "transform": "scale(2)", "clip-path": "url(#c)"}, child, skips=S._ATTRIB_W_CUSTOM_INHERITANCE)
        H.prove(e is None and dict(child.attrib) == {"fill": "red"}, "inherit_attrib.skipped_attributes_are_not_applied")
    else:
        has_own = H.case("child_has_fill", (True, False))
        el = element(H, "g", {"fill": "own", "opacity": "0.5", "transform": "scale(2)", "id": "x"} if has_own else {"opacity": "0.5", "id": "x"})
        cur = {"fill": "ctx", "stroke": "ctx-stroke"}
        out = H.call(_attrib_to_pass_on, cur, el)
        H.prove(dict(out) == {"fill": "own" if has_own else "ctx", "stroke": "ctx-stroke"}, "pass_on.own_value_else_context_custom_ones_excluded", detail=str(out))


@obligation((P, "C01", "C14"), "cascade.group_flattening", functions=[F + "_is_removable_group", F + "_try_remove_group", F + "_opacity", F + "_clamp", F + "_drop_default_attrib", F + "_replace_el", F + "_is_redundant", F + "_is_group"])
def group_flattening(H):
    """A group is flattened exactly when keeping it cannot matter (no attributes, at most one non-comment child, or clamped
    opacity 0 or 1); flattening puts the children in its place, in order, and multiplies its clamped opacity into each
    non-comment child; a kept group carries nothing but its clamped opacity."""
    fake_tree.install(H)
    n_children = H.case("children", (0, 1, 2, 3))
    with_comment = H.case("comment_among_children", (False, True))
    attrs = H.case("group_attributes", ("none", "opacity", "opacity+others", "others only"))
    child_tag = H.case("children_are", ("path", "g", "text"))  # the opacity of a dissolved group reaches EVERY kind of child
    os_, on = numstr(H, "go")
    kids, kid_op = [], []
    for i in range(n_children):
        cs, cn = numstr(H, f"k{i}")
        kids.append(element(H, child_tag, {"opacity": cs, "d": "M0,0"}))
        kid_op.append(cn)
    children = list(kids)
    if with_comment:
        children.insert(1 if n_children else 0, comment(H))
    gattr = {"none": {}, "opacity": {"opacity": os_}, "opacity+others": {"opacity": os_, "fill": "red", "id": "g1"}, "others only": {"fill": "red"}}[attrs]
    group = element(H, "g", gattr, children)
    before, after = element(H, "path", {"d": "M1,1"}), element(H, "path", {"d": "M2,2"})
    root = element(H, "svg", {}, [before, group, after])
    clamped = smax(smin(on, 1.0), 0.0) if "opacity" in gattr else 1.0
    removable_spec = Or(attrs == "none", n_children <= 1, H.close(clamped, 0.0), H.close(clamped, 1.0))
    got, e = H.catch(_is_removable_group, group)
    H.prove(e is None, "group.no_exception_on_any_child_mix", detail=repr(e))
    if e is not None:
        return
    H.prove(H.close(got, removable_spec) if H.mode == "sym" else bool(got) == bool(removable_spec), "group.removable_iff_no_attrs_or_at_most_one_child_or_opacity_0_or_1")
    removed, e = H.catch(_try_remove_group, group)
    H.prove(e is None, "group.no_exception_on_any_child_mix", detail=repr(e))
    if e is not None:
        return
    H.prove(H.close(removed, removable_spec) if H.mode == "sym" else bool(removed) == bool(removable_spec), "group.try_remove_reports_the_same_verdict")
    now = list(root)
    if H.truth(removed):
        H.prove(len(now) == 2 + len(children) and now[0] is before and now[-1] is after and all(a is b for a, b in zip(now[1:-1], children)),
                "group.children_take_the_group_place_in_order")
        for k, cn in zip(kids, kid_op):
            g = _clamp01(H, num_of(H, k.attrib["opacity"])) if "opacity" in k.attrib else 1.0
            want = _clamp01(H, cn) * clamped
            H.prove(H.close(g, want) if H.mode == "sym" else abs(g - want) < 1e-9, "group.clamped_opacity_multiplied_into_each_child")
            H.prove(k.attrib.get("d") == "M0,0" and set(k.attrib) <= {"opacity", "d"}, "group.nothing_else_pushed_to_children")
    else:
        H.prove(len(now) == 3 and now[1] is group and list(group) == children, "group.kept_group_stays_with_its_children")
        ok = set(group.attrib) == {"opacity"}
        H.prove(ok, "group.kept_group_carries_only_opacity", detail=str(dict(group.attrib)))
        if ok:
            g = num_of(H, group.attrib["opacity"])
            H.prove(And(H.close(g, clamped), g > 0, g < 1) if H.mode == "sym" else (abs(g - clamped) < 1e-9 and 0 < g < 1), "group.kept_opacity_is_clamped_and_strictly_between_0_and_1")


@obligation((P, "C01"), "cascade.normalize_opacity", functions=["svg_types.SVGShape.normalize_opacity"])
def normalize_opacity(H):
    """normalize_opacity folds fill-opacity (stroke none) or stroke-opacity (fill none) into opacity; the product
    opacity*fill_opacity seen by the fill and opacity*stroke_opacity seen by the stroke never change."""
    fill = H.case("fill", ("none", "red"))
    stroke = H.case("stroke", ("none", "blue"))
    o, fo, so = H.real("o"), H.real("fo"), H.real("so")
    sh = H.call(SVGPath, d="M0,0 L1,1", fill=fill, stroke=stroke, opacity=o, fill_opacity=fo, stroke_opacity=so)
    out = H.call(SVGShape.normalize_opacity, sh, inplace=True)
    H.prove(out is sh, "normalize_opacity.inplace_returns_same_shape")
    # the alpha a renderer uses is opacity x clamp(fill-opacity): each opacity is clamped to [0, 1] before it is used
    from pyvc.sym import smax, smin

    clamp = (lambda v: smax(0, smin(1, v))) if H.mode == "sym" else (lambda v: max(0.0, min(1.0, v)))
    if fill != "none":
        H.prove(H.close(clamp(out.opacity) * clamp(out.fill_opacity), clamp(o) * clamp(fo)), "normalize_opacity.fill_alpha_unchanged")
    if stroke != "none":
        H.prove(H.close(clamp(out.opacity) * clamp(out.stroke_opacity), clamp(o) * clamp(so)), "normalize_opacity.stroke_alpha_unchanged")
    if stroke == "none" and fill != "none":
        H.prove(H.close(out.fill_opacity, 1.0), "normalize_opacity.fill_opacity_folded_into_opacity")
    H.prove(out.fill == fill and out.stroke == stroke, "normalize_opacity.paints_untouched")


@obligation((P, "C04", "C01", "C18"), "tables.attrib_defaults", functions=[])
def attrib_defaults(H):
    """ATTRIB_DEFAULTS and the dataclass defaults of every shape are the INITIAL VALUES of the SVG 1.1 property index
    (an attribute is omitted from the output when it equals this table, and a missing attribute is read as this table, so
    a wrong entry silently changes every document that relies on the default)."""
    import dataclasses

    from picosvg import svg_meta, svg_types

    SPEC = {"clip-rule": "nonzero", "fill": "black", "fill-opacity": 1.0, "fill-rule": "nonzero", "stroke": "none", "stroke-width": 1.0, "stroke-linecap": "butt",
            "stroke-linejoin": "miter", "stroke-miterlimit": 4.0, "stroke-dasharray": "none", "stroke-dashoffset": 0.0, "stroke-opacity": 1.0, "opacity": 1.0, "display": "inline"}
    EMPTY = ("clip-path", "transform", "style", "d", "id")
    table = dict(svg_meta.ATTRIB_DEFAULTS)
    for k, v in SPEC.items():
        got = table.get(k)
        H.prove(got is not None and (float(got) == v if isinstance(v, float) else got == v), f"defaults.initial_value:{k}", detail=f"{got!r} vs {v!r}")
    for k in EMPTY:
        H.prove(table.get(k) == "", f"defaults.empty:{k}", detail=repr(table.get(k)))
    H.prove(set(table) == set(SPEC) | set(EMPTY), "defaults.no_other_entries", detail=str(sorted(set(table) ^ (set(SPEC) | set(EMPTY)))))
    # the shape dataclasses read their defaults from the same table
    for cls in (svg_types.SVGPath, svg_types.SVGRect, svg_types.SVGCircle, svg_types.SVGEllipse, svg_types.SVGLine, svg_types.SVGPolygon, svg_types.SVGPolyline):
        for f in dataclasses.fields(svg_types.SVGShape):
            name = f.name.replace("_", "-")
            if name in SPEC:
                d = {x.name: x.default for x in dataclasses.fields(cls)}[f.name]
                v = SPEC[name]
                H.prove(float(d) == v if isinstance(v, float) else d == v, f"defaults.shape_field:{name}", detail=f"{cls.__name__}.{f.name} = {d!r}")
