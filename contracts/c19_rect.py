"""C19 (deductive part) - Rect algebra and the bounding-box glue.

Functions under contract: Rect.intersection (+ nested _overlap), Rect.union, Rect.x_max/y_max,
Rect.empty, SVGShape.bounding_box (glue over the assumed pathops contract), SVG.bounding_box (fold).
"""
from __future__ import annotations

from picosvg.geometric_types import Rect

from pyvc.registry import obligation
from pyvc.sym import And, Implies, Not, Or, smax, smin

P = "C19"


def rect(H, p):
    return Rect(*H.reals(p, 4))


@obligation(P, "rect.intersection", functions=["geometric_types.Rect.intersection"])
def intersection(H):
    """None iff the open intersection is empty, otherwise exactly [max x, min x_max] x [max y, min y_max]."""
    a, b = rect(H, "a"), rect(H, "b")
    H.assume(And(a.w >= 0, a.h >= 0, b.w >= 0, b.h >= 0))
    r, e = H.catch(Rect.intersection, a, b)
    H.prove(e is None, "intersection.no_exception")
    if e is not None:
        return
    x0, x1 = smax(a.x, b.x), smin(a.x + a.w, b.x + b.w)
    y0, y1 = smax(a.y, b.y), smin(a.y + a.h, b.y + b.h)
    nonempty = And(x0 < x1, y0 < y1)
    if r is None:
        H.prove(Not(nonempty), "intersection.None_only_if_open_intersection_empty")
    else:
        H.prove(nonempty, "intersection.rect_only_if_overlap_has_area")
        H.prove(H.close(tuple(r), (x0, y0, x1 - x0, y1 - y0)), "intersection.is_exact_overlap")
    # membership reading: a point strictly inside both is strictly inside the result
    px, py = H.real("px"), H.real("py")
    inside = lambda R: And(R.x < px, px < R.x + R.w, R.y < py, py < R.y + R.h)
    if r is None:
        H.prove(Not(And(inside(a), inside(b))), "intersection.None_means_no_common_interior_point")
    else:
        H.prove(inside(r) == And(inside(a), inside(b)) if H.mode == "sym" else (inside(r) == (inside(a) and inside(b))), "intersection.pointwise")


@obligation(P, "rect.union", functions=["geometric_types.Rect.union", "geometric_types.Rect.x_max", "geometric_types.Rect.y_max", "geometric_types.Rect.empty"])
def union(H):
    """union is the tight axis-aligned hull of the two rectangles."""
    a, b = rect(H, "a"), rect(H, "b")
    H.assume(And(a.w >= 0, a.h >= 0, b.w >= 0, b.h >= 0))
    r = H.call(Rect.union, a, b)
    H.prove(H.close(tuple(r), (smin(a.x, b.x), smin(a.y, b.y),
                              smax(a.x + a.w, b.x + b.w) - smin(a.x, b.x), smax(a.y + a.h, b.y + b.h) - smin(a.y, b.y))), "union.is_tight_hull")
    H.prove(And(r.w >= 0, r.h >= 0), "union.nonnegative_extent")
    H.prove(H.close(H.call(Rect.empty, a), Or(H.close(a.w, 0), H.close(a.h, 0))), "empty.def")
    H.prove(And(H.close(H.call(Rect.x_max.fget, a), a.x + a.w), H.close(H.call(Rect.y_max.fget, a), a.y + a.h)), "x_max_y_max.def")
