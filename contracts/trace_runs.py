"""Order and binding contracts decided on the CALL TRACE of the real code instead of its syntax (replaces the AST pattern
obligations the first version used, kept for reference in attic/order_static.py.txt): the real function body is executed symbolically with every
callee replaced by a recorder (modular: a callee's own behaviour is its own contract), for every feasible path and for
symbolic option values.  Extracting helpers, renaming locals or restructuring the body cannot change the verdict; changing
the order of effects, dropping a step or mis-binding an option does.

  pipeline.trace   SVG.topicosvg: which steps run, in which partial order, with which arguments, on which object
  cli.trace        picosvg._run: the command line flags reach topicosvg / clip_to_viewbox
"""
from __future__ import annotations

import types

from picosvg.svg import SVG

from pyvc.registry import obligation
from pyvc.sym import And, Not, Or

from . import fake_tree
from .fake_tree import SVGNS, FakeElement

STRIP = ("remove_nonsvg_content", "remove_processing_instructions", "remove_anonymous_symbols", "remove_title_meta_desc")
GEOMETRY = ("absolute", "simplify", "evenodd_to_nonzero_winding", "shapes_to_paths", "expand_shorthand", "resolve_use", "resolve_nested_svgs", "clip_to_viewbox", "apply_style_attributes")
SHAPE_REMOVING = ("remove_unpainted_shapes", "clip_to_viewbox", "remove_empty_subpaths")
ORDER = (("apply_style_attributes", "shapes_to_paths"), ("apply_style_attributes", "resolve_use"), ("apply_style_attributes", "simplify"),
         ("resolve_nested_svgs", "simplify"), ("resolve_use", "simplify"), ("shapes_to_paths", "simplify"), ("expand_shorthand", "simplify"),
         ("simplify", "evenodd_to_nonzero_winding"), ("simplify", "normalize_opacity"), ("simplify", "absolute"), ("simplify", "round_floats"),
         ("evenodd_to_nonzero_winding", "round_floats"), ("absolute", "round_floats"), ("normalize_opacity", "round_floats"),
         ("round_floats", "remove_empty_subpaths"), ("round_floats", "checkpicosvg"), ("remove_empty_subpaths", "remove_unpainted_shapes"),
         ("remove_unpainted_shapes", "checkpicosvg"))


def _record_all_methods(H, cls, trace, returns, skip=()):
    """every function defined on `cls` (except `skip`) becomes a recorder: trace gets (name, receiver, args, kwargs);
    the recorder returns returns[name](receiver, *args, **kwargs) if given, else the receiver (fluent style)"""
    for name, f in list(cls.__dict__.items()):
        if isinstance(f, (staticmethod, classmethod)):
            continue
        if not isinstance(f, types.FunctionType) or name in skip or name.startswith("__"):
            continue

        def rec(I, self_, *a, _name=name, _f=f, **k):
            # recorded by parameter NAME, however the caller spelled the call (positionally or by keyword)
            import inspect

            try:
                ba = inspect.signature(_f).bind_partial(self_, *a, **k)
                names = list(inspect.signature(_f).parameters)
                a, k = (), {n: v for n, v in ba.arguments.items() if n != names[0] and inspect.signature(_f).parameters[n].kind not in (inspect.Parameter.VAR_POSITIONAL, inspect.Parameter.VAR_KEYWORD)}
                extra = ba.arguments.get(next((n for n, p in inspect.signature(_f).parameters.items() if p.kind is inspect.Parameter.VAR_POSITIONAL), ""), ())
                a = tuple(extra)
            except TypeError:
                pass
            trace.append((_name, self_, a, k))
            r = returns.get(_name)
            return r(self_, *a, **k) if r else self_

        H.override(f, rec)


def _same(H, a, b):
    """the recorded argument IS the caller's value (symbolic equality for symbolic options)"""
    from pyvc.sym import is_sym

    if a is b:
        return True
    if a is None or b is None or (is_sym(b) and not is_sym(a) and not isinstance(a, (bool, int, float))):
        return False
    try:
        return H.interp.eq(a, b)
    except Exception:  # noqa
        return False


@obligation(("C01", "C04", "C05", "C07", "C08", "C14", "C17"), "pipeline.trace", functions=["svg.SVG.topicosvg"])
def pipeline_trace(H):
    """topicosvg, for every option value: the copying form clones first and converts the clone in place with the caller's
    options; the in-place form strips ignorable content before anything else, runs the simplifications in an order that
    respects their dependencies, every step in place on the receiver, rounds with the caller's ndigits as the last
    geometry step, sweeps unreferenced gradients after the last step that can remove a shape, hands the caller's
    allow_text / drop_unsupported to the final check and raises ValueError exactly when that reports violations."""
    if H.mode == "concrete":
        doc = ('<svg xmlns="http://www.w3.org/2000/svg" viewBox="0 0 10 10"><!-- c --><title>t</title><g style="fill:red"><rect width="4.00049" height="4" transform="translate(1.00049 0)"/></g>'
               '<defs><linearGradient id="g"><stop offset="0" stop-color="red"/></linearGradient></defs><path d="M0,0 L10,0" fill="url(#g)"/></svg>')
        src = SVG.fromstring(doc)
        before = src.tostring()
        out = src.topicosvg(ndigits=2)
        text = out.tostring()
        H.prove(src.tostring() == before and out is not src, "pipeline.copying_form_leaves_the_receiver_alone")
        H.prove("title" not in text and 'fill="red"' in text and "M1,0" in text and "4,4" in text and "Gradient" not in text, "pipeline.steps_have_their_effect", detail=text)
        return
    fake_tree.install(H)
    inplace = H.case("inplace", (True, False))
    violations = H.case("final_check", ("clean", "violations"))
    nd, allow_text, drop = H.int("ndigits"), H.bool("allow_text"), H.bool("drop_unsupported")
    svg = SVG(FakeElement(SVGNS + "svg", {}))
    clone = SVG(FakeElement(SVGNS + "svg", {}))
    trace = []
    returns = {"_clone": lambda s: clone, "checkpicosvg": lambda s, *a, **k: ("BadElement: /svg[0]/x[0]",) if violations == "violations" else ()}
    _record_all_methods(H, SVG, trace, returns, skip=("topicosvg",))
    real = SVG.__dict__["topicosvg"]
    nested = []

    def topicosvg_rec(I, self_, *a, **k):
        # the outermost call runs the real body; a call made from inside it is a step like any other
        if not nested:
            nested.append(1)
            return I.call_closure(I.closure_of(real), (self_,) + a, k)
        trace.append(("topicosvg", self_, a, k))
        return self_

    H.override(real, topicosvg_rec)
    res, e = H.catch(SVG.topicosvg, svg, ndigits=nd, inplace=inplace, allow_text=allow_text, drop_unsupported=drop)
    names = [t[0] for t in trace]
    if not inplace:
        H.prove(e is None and res is clone, "pipeline.copying_form_returns_the_converted_clone", detail=repr(e))
        ok = names[:1] == ["_clone"] and trace[0][1] is svg and names[1:] == ["topicosvg"] and trace[1][1] is clone
        H.prove(ok, "pipeline.copying_form_clones_then_converts_the_clone", detail=str(names))
        if ok:
            a, k = trace[1][2], trace[1][3]
            H.prove(not a and k.get("inplace") is True, "pipeline.copying_form_converts_the_clone_in_place")
            H.prove(And(_same(H, k.get("ndigits"), nd), _same(H, k.get("allow_text"), allow_text), _same(H, k.get("drop_unsupported"), drop)), "pipeline.copying_form_forwards_all_options")
        H.prove(all(t[1] is not svg or t[0] == "_clone" for t in trace), "pipeline.copying_form_leaves_the_receiver_alone")
        return
    if violations == "violations":
        H.prove(isinstance(e, ValueError), "pipeline.violations_raise_ValueError", detail=repr(e))
    else:
        H.prove(e is None and res is svg, "pipeline.in_place_form_returns_the_receiver", detail=repr(e))
    H.prove(all(t[1] is svg for t in trace), "pipeline.every_step_runs_on_the_receiver")
    steps = [t for t in trace if t[0] not in ("_update_etree",)]
    first = lambda n: names.index(n) if n in names else None
    last = lambda n: max((i for i, x in enumerate(names) if x == n), default=None)
    public_steps = [t for t in steps if not t[0].startswith("_") and t[0] != "checkpicosvg"]
    H.prove(all(t[3].get("inplace") is True for t in public_steps), "pipeline.every_step_is_applied_in_place", detail=str([t[0] for t in public_steps if t[3].get("inplace") is not True]))
    for s in STRIP:
        ok = first(s) is not None and all(first(s) < i for i, t in enumerate(trace) if t[0] not in STRIP and t[0] != "_update_etree")
        H.prove(ok, f"pipeline.strip_first:{s}", detail=str(names))
    for a, b in ORDER:
        H.prove(first(a) is not None and first(b) is not None and first(a) < first(b), f"pipeline.order:{a}<{b}", detail=str(names))
    r = first("round_floats")
    if r is not None:
        H.prove(not [n for n in names[r + 1:] if n in GEOMETRY], "pipeline.rounding_is_the_last_geometry_step", detail=str(names[r + 1:]))
        a, k = trace[r][2], trace[r][3]
        got = a[0] if a else k.get("ndigits")
        H.prove(_same(H, got, nd), "pipeline.round_floats_gets_the_callers_ndigits")
    c = last("checkpicosvg")
    if c is not None:
        a, k = trace[c][2], trace[c][3]
        H.prove(And(not a, _same(H, k.get("allow_text"), allow_text), _same(H, k.get("drop_unsupported"), drop)), "pipeline.final_check_gets_allow_text_and_drop_unsupported")
        # the final check REMOVES unsupported elements when drop_unsupported is set: then (and only then) one more orphan sweep follows it
        after = names[c + 1:]
        if H.truth(drop):
            H.prove(after == ["_remove_orphaned_gradients"], "pipeline.orphan_sweep_after_a_dropping_final_check", detail=str(after))
        else:
            H.prove(all(n == "_remove_orphaned_gradients" for n in after), "pipeline.nothing_but_a_sweep_runs_after_the_final_check", detail=str(after))
    sweeps = [i for i, n in enumerate(names) if n in ("_remove_orphaned_gradients", "simplify")]  # simplify ends with a sweep (simplify.trace)
    removing = [i for i, n in enumerate(names) if n in SHAPE_REMOVING]
    H.prove(bool(sweeps) and (not removing or max(sweeps) > max(removing)), "pipeline.orphan_sweep_after_last_shape_removal", detail=str(names))


@obligation(("C01", "C19"), "cli.trace", functions=["picosvg._run"])
def cli_trace(H):
    """The command line: the document named on the command line (or stdin) is converted with --allow_text and
    --drop_unsupported as given, clipped to the viewBox in place exactly when --clip_to_viewbox is set, and written out."""
    from picosvg import picosvg as cli

    if H.mode == "concrete":
        # a real run of the command line on a document that already LOOKS like a picosvg (defs first, only g / path) but is not one
        import contextlib
        import io
        import sys
        import tempfile

        doc = ('<svg xmlns="http://www.w3.org/2000/svg" viewBox="0 0 30 30"><defs/><path d="m1,1 h5.00049 v5 z" stroke="red" stroke-width="2" transform="translate(10 20)"/></svg>')

        class F:
            allow_text, drop_unsupported, clip_to_viewbox, output_file = False, False, False, "-"

        old_flags, old_stdin = cli.FLAGS, sys.stdin
        buf = io.StringIO()
        try:
            cli.FLAGS = F()
            with tempfile.NamedTemporaryFile("w", suffix=".svg", delete=True) as f:
                f.write(doc)
                f.flush()
                with contextlib.redirect_stdout(buf):
                    cli._run(["picosvg", f.name])
        finally:
            cli.FLAGS, sys.stdin = old_flags, old_stdin
        text = buf.getvalue()
        H.prove("stroke" not in text and "transform" not in text and " h" not in text and "M11,21" in text, "cli.output_is_the_converted_document", detail=text[:300])
        return
    allow_text, drop, clip = H.bool("allow_text"), H.bool("drop_unsupported"), H.bool("clip_to_viewbox")
    source = H.case("input", ("file", "stdin"))
    looks_pico = H.case("input_already_passes_the_structural_check", (False, True))

    class Flags:
        pass

    flags = Flags()
    flags.allow_text, flags.drop_unsupported, flags.clip_to_viewbox, flags.output_file = allow_text, drop, clip, "-"
    parsed, converted = SVG(FakeElement(SVGNS + "svg", {})), SVG(FakeElement(SVGNS + "svg", {}))
    trace = []
    # whatever the input looks like - also when checkpicosvg finds nothing to complain about - it has to go through topicosvg
    returns = {"topicosvg": lambda s, *a, **k: converted, "tostring": lambda s, *a, **k: "<svg/>", "checkpicosvg": lambda s, *a, **k: () if looks_pico else ("BadElement: /svg[0]/rect[0]",)}
    _record_all_methods(H, SVG, trace, returns)
    H.override(SVG.__dict__["parse"].__func__, lambda I, cls, f: (trace.append(("parse", None, (f,), {})), parsed)[1])
    H.override(SVG.__dict__["fromstring"].__func__, lambda I, cls, s: (trace.append(("fromstring", None, (s,), {})), parsed)[1])
    H.override(print, lambda I, *a, **k: trace.append(("print", None, a, k)))
    import sys

    class Stdin:
        __pyvc_abstract__ = True

        def read(self):
            return "<svg xmlns='http://www.w3.org/2000/svg'/>"

    old_flags, old_stdin = cli.FLAGS, sys.stdin
    cli.FLAGS, sys.stdin = flags, Stdin()
    try:
        _, e = H.catch(cli._run, ["picosvg", "in.svg"] if source == "file" else ["picosvg"])
    finally:
        cli.FLAGS, sys.stdin = old_flags, old_stdin
    H.prove(e is None, "cli.no_exception", detail=repr(e))
    names = [t[0] for t in trace]
    H.prove(names[:1] == (["parse"] if source == "file" else ["fromstring"]) and (source != "file" or trace[0][2] == ("in.svg",)), "cli.reads_the_named_file_or_stdin", detail=str(names))
    t = [x for x in trace if x[0] == "topicosvg"]
    ok = len(t) == 1 and t[0][1] is parsed
    H.prove(ok, "cli.converts_the_parsed_document_once")
    if ok:
        k = t[0][3]
        H.prove(And(_same(H, k.get("allow_text"), allow_text), _same(H, k.get("drop_unsupported"), drop), not t[0][2]), "cli.flags_reach_topicosvg")
    clips = [x for x in trace if x[0] == "clip_to_viewbox"]
    if H.truth(clip):
        H.prove(len(clips) == 1 and clips[0][1] is converted and clips[0][3].get("inplace") is True and names.index("clip_to_viewbox") > names.index("topicosvg"), "cli.clip_to_viewbox_applied_in_place_to_the_converted_document")
    else:
        H.prove(not clips, "cli.no_clipping_unless_asked")
    outs = [x for x in trace if x[0] == "tostring"]
    H.prove(len(outs) == 1 and outs[0][1] is converted and names[-1] == "print" and trace[-1][2] == ("<svg/>",), "cli.converted_document_is_written_out", detail=str(names))


# ------------------------------------------------------------------------------------------------ SVG._simplify on a tree
@obligation(("C02", "C03", "C04", "C05", "C01", "C07"), "simplify.trace", functions=["svg.SVG._simplify", "svg.SVG._traverse", "svg.SVG.breadth_first", "svg._replace_el", "svg._reset_attrs", "svg._del_attrs"])
def simplify_trace(H):
    """_simplify on <svg fill><g transform=G clip-path><rect transform=R stroke?/></g><clipPath/></svg>: the rect is
    outlined in its OWN coordinate system first (stroke), every resulting path is then placed with the full CTM (own
    transform first, then the group's), and only then intersected with the clips of the ancestor chain - each resolved with
    the CTM of the element carrying it - under (fill-rule of the path, clip-rule of each clip); the written paths carry no
    stroke settings, no transform and no clip-path, are nonzero when clipped; the group is dissolved; one master defs
    comes first; the root keeps no inheritable attribute; clipPath elements are gone; the shape cache is invalidated."""
    import dataclasses

    from picosvg import svg as S
    from picosvg.svg_transform import Affine2D
    from picosvg.svg_types import SVGPath, SVGShape

    from .c06_gradients import _AffTok, _install_transform_tokens
    from .fake_tree import local
    from .spec import map_pt

    if H.mode == "concrete":
        doc = ('<svg xmlns="http://www.w3.org/2000/svg" viewBox="0 0 100 100" fill="lime"><clipPath id="c"><rect x="0" y="0" width="30" height="100"/></clipPath>'
               '<g transform="translate(10 0)" clip-path="url(#c)"><rect width="40" height="10" transform="translate(0 5)" stroke="black" stroke-width="2"/></g></svg>')
        out = SVG.fromstring(doc).topicosvg()
        boxes = [s.bounding_box() for s in out.shapes()]
        ok = len(boxes) == 2 and all(abs(b.x - 10) < 1.01 and b.x + b.w <= 30 + 1e-6 for b in boxes)
        H.prove(ok, "simplify.stroke_then_transform_then_clip", detail=str(boxes))
        return
    fake_tree.install(H)
    fake_tree.install_xpath(H, SVG)
    _install_transform_tokens(H)
    stroked = H.case("rect_has_stroke", (True, False))
    clipped = H.case("group_has_clip", (True, False))
    own_tr = H.case("rect_has_transform", (True, False))
    own_clip = H.case("rect_has_clip", (True, False))
    zero_width = H.case("stroke_width_zero", (False, True)) if stroked else False
    G = Affine2D(*H.reals("g", 6))
    R = Affine2D(*H.reals("r", 6))
    el = lambda tag, attrib=None, children=(): FakeElement(SVGNS + tag, attrib, children)
    rattr = {"x": "1", "y": "2", "width": "30", "height": "20", "fill-rule": "evenodd", "stroke-width": "0" if zero_width else "3"}
    if stroked:
        rattr["stroke"] = "black"
    if own_tr:
        rattr["transform"] = _AffTok(R)
    if own_clip:
        rattr["clip-path"] = "url(#c2)"
    rect = el("rect", rattr)
    gattr = {"transform": _AffTok(G)}
    if clipped:
        gattr["clip-path"] = "url(#c)"
    sibling = el("path", {"d": "M0,0 L1,0 L1,1 Z", "fill": "url(#used)"})
    group = el("g", gattr, [rect, sibling])
    cp = el("clipPath", {"id": "c"}, [el("rect", {"width": "5", "height": "5"})])
    cp2 = el("clipPath", {"id": "c2"}, [el("rect", {"width": "6", "height": "6"})])
    stop = lambda: el("stop", {"offset": "0", "stop-color": "red"})
    used, orphan = el("linearGradient", {"id": "used"}, [stop()]), el("linearGradient", {"id": "orphan"}, [stop()])
    junk = el("rect", {"id": "junk", "width": "1", "height": "1"})
    src_defs = el("defs", {}, [used, junk, orphan])
    # an opacity group whose only rendered child is one path, with a clipPath written inside it: the clipPath must not count as a child
    lone = el("path", {"d": "M9,9 L8,8 L7,9 Z", "id": "lone"})
    thin_group = el("g", {"opacity": "0.5"}, [lone, el("clipPath", {"id": "c3"}, [el("rect", {"width": "1", "height": "1"})])])
    root = el("svg", {"viewBox": "0 0 100 100", "fill": "lime", "stroke-linecap": "round"}, [src_defs, cp, group, cp2, thin_group])
    svg = SVG(root)
    events = []
    clip_shape = SVGPath(d="M0,0 L5,0 L5,5 Z", clip_rule="evenodd")
    clip_shape2 = SVGPath(d="M0,0 L6,0 L6,6 Z", clip_rule="nonzero")

    def rec_clip(I, self_, url, transform):
        events.append(("resolve_clip", url, transform))
        return clip_shape if url == "url(#c)" else clip_shape2

    def rec_stroke(I, self_, shape):
        events.append(("stroke", shape))
        fill = dataclasses.replace(shape, d="M1,1 L2,2 L3,1 Z")
        outline = dataclasses.replace(shape, d="M7,7 L8,8 L9,7 Z", fill_rule="nonzero")
        return (fill, outline)

    def rec_transform(I, self_, matrix):
        events.append(("transform", self_, matrix))
        return dataclasses.replace(self_, d="M40,40 L41,41 L42,40 Z" if self_.d == "M0,0 L1,0 L1,1 Z" else "M4,4 L5,5 L6,4 Z")

    def rec_intersection(I, shapes, fill_rules=None):
        shapes = tuple(shapes)
        # the real code updates the path in place afterwards: record what was handed over, as it was
        events.append(("intersection", shapes, tuple(fill_rules) if fill_rules is not None else None, tuple(x.d for x in shapes), tuple(x.fill_rule for x in shapes)))
        return (("M", (0.0, 0.0)), ("L", (2.0, 0.0)), ("L", (2.0, 2.0)), ("Z", ()))

    def rec_gradient(I, self_, defs, fill_el, transform, shape_bbox):
        events.append(("transformed_gradient", fill_el, transform, shape_bbox))
        new = el("linearGradient", {"id": fill_el.attrib["id"] + "_0"}, [stop()])
        defs.append(new)
        return new

    H.override(SVG._transformed_gradient, rec_gradient)
    H.override(SVG._apply_gradient_translation, lambda I, self_, g: events.append(("gradient_rounded", g)))
    H.override(SVG._resolve_clip_path, rec_clip)
    H.override(SVG._stroke, rec_stroke)
    H.override(SVGShape.apply_transform, rec_transform)
    H.override(S.intersection, rec_intersection)
    _, e = H.catch(SVG._simplify, svg)
    H.prove(e is None, "simplify.no_exception", detail=repr(e))
    if e is not None:
        return
    kinds = [ev[0] for ev in events]
    p = (H.real("px"), H.real("py"))
    ctm_rect = (lambda q: map_pt(G, map_pt(R, q))) if own_tr else (lambda q: map_pt(G, q))
    # --- the rect
    n_paths = 2 if (stroked and not zero_width) else 1
    strokes = [ev for ev in events if ev[0] == "stroke"]
    H.prove(len(strokes) == (1 if (stroked and not zero_width) else 0), "simplify.stroke_outlined_once_iff_stroked_with_a_width", detail=str(kinds))
    tr_rect = [ev for ev in events if ev[0] == "transform" and ev[1].d != "M0,0 L1,0 L1,1 Z"]
    if tr_rect:
        H.prove(len(tr_rect) == n_paths, "simplify.every_path_of_the_shape_is_placed", detail=str(kinds))
    else:
        H.prove(H.close(tuple(ctm_rect(p)), p), "simplify.no_placement_only_if_the_ctm_is_the_identity", detail=str(kinds))
    for ev in tr_rect:
        H.prove(H.close(map_pt(ev[2], p), ctm_rect(p)), "simplify.placed_with_own_transform_first_then_ancestors")
    if stroked and not zero_width and strokes and tr_rect:
        H.prove(kinds.index("stroke") < min(i for i, ev in enumerate(events) if ev[0] == "transform" and ev in tr_rect), "simplify.stroke_before_transform")
        st = strokes[0][1]
        H.prove(st.d.startswith("M1,2") and getattr(st, "stroke", None) == "black", "simplify.stroke_outlined_in_the_shapes_own_coordinates", detail=st.d)
    inter = [ev for ev in events if ev[0] == "intersection"]
    rc = [ev for ev in events if ev[0] == "resolve_clip"]
    H.prove({ev[1] for ev in rc} == ({"url(#c)"} if clipped else set()) | ({"url(#c2)"} if own_clip else set()), "simplify.clips_of_the_ancestor_chain_are_resolved", detail=str([ev[1] for ev in rc]))
    for ev in rc:
        # each clip lives in the coordinate system of the element that carries it
        want = map_pt(G, p) if ev[1] == "url(#c)" else ctm_rect(p)
        H.prove(H.close(map_pt(ev[2], p), tuple(want)), "simplify.clip_resolved_with_the_ctm_of_the_element_that_carries_it")
    sib_inter = [ev for ev in inter if ev[3][0] in ("M0,0 L1,0 L1,1 Z", "M40,40 L41,41 L42,40 Z")]
    rect_inter = [ev for ev in inter if not any(ev is x for x in sib_inter)]
    H.prove(len(sib_inter) == (1 if clipped else 0) and len(rect_inter) == (n_paths if (clipped or own_clip) else 0), "simplify.every_path_under_a_clip_is_intersected_once", detail=str(kinds))
    for ev in inter:
        shapes, rules = ev[1], ev[2]
        is_rect = any(ev is x for x in rect_inter)
        want_clips = ([clip_shape] if clipped else []) + ([clip_shape2] if own_clip and is_rect else [])  # outermost first
        ok = len(shapes) == 1 + len(want_clips) and all(a_ is b_ for a_, b_ in zip(shapes[1:], want_clips))
        H.prove(ok, "simplify.clips_accumulate_along_the_ancestor_chain", detail=str([x.d for x in shapes]))
        ok = rules is not None and len(rules) == len(shapes) and rules[0] == ev[4][0] and list(rules[1:]) == [c.clip_rule for c in want_clips]
        H.prove(ok, "simplify.intersection_pairs_fill_rule_of_the_path_with_clip_rule_of_the_clip", detail=str(rules))
        # what is intersected is the PLACED path; an unplaced one only if its CTM is the identity
        if ev[3][0] == "M0,0 L1,0 L1,1 Z":
            H.prove(H.close(tuple(map_pt(G, p)), p), "simplify.transform_before_clip", detail=ev[3][0])
        elif ev[3][0] not in ("M4,4 L5,5 L6,4 Z", "M40,40 L41,41 L42,40 Z"):
            H.prove(H.close(tuple(ctm_rect(p)), p), "simplify.transform_before_clip", detail=ev[3][0])
    # --- the tree afterwards
    kids = list(root)
    H.prove(len(kids) >= 1 and local(kids[0]) == "defs" and sum(1 for k in root.iterdescendants() if local(k) == "defs") == 1, "simplify.one_master_defs_comes_first")
    H.prove(not any(local(k) in ("clipPath", "g", "rect") for k in root.iterdescendants()), "simplify.clipPath_and_dissolved_group_are_gone", detail=str([local(k) for k in root.iterdescendants()]))
    lone_out = [k for k in kids if local(k) == "path" and k.attrib.get("d", "").replace(" ", "") == "M9,9L8,8L7,9Z"]
    H.prove(len(lone_out) == 1 and lone_out[0].attrib.get("opacity") == "0.5", "simplify.clipPath_inside_a_group_does_not_keep_the_group_alive", detail=str([(local(k), dict(k.attrib)) for k in kids]))
    kids = [k for k in kids if not any(k is x for x in lone_out)]
    paths = [k for k in kids if local(k) == "path"]
    H.prove(len(paths) == n_paths + 1 and kids[1:] == paths, "simplify.shape_replaced_in_place_by_its_paths", detail=str([local(k) for k in kids]))
    for k in paths:
        a = k.attrib
        H.prove(not any(n.startswith("stroke") for n in a) and "transform" not in a and "clip-path" not in a, "simplify.written_paths_carry_no_stroke_transform_or_clip", detail=str(dict(a)))
        if clipped:
            H.prove(a.get("fill-rule", "nonzero") == "nonzero" and a.get("d", "").replace(" ", "").startswith("M0,0L2,0"), "simplify.clipped_path_is_the_intersection_and_nonzero", detail=str(dict(a)))
        H.prove(a.get("fill") == "lime" or "url(#used" in a.get("fill", ""), "simplify.inherited_paint_written_onto_the_path_own_paint_wins", detail=str(dict(a)))
    # --- gradients: a painted shape under a transform gets a copy of its gradient placed with the shape's CTM; what nothing
    # references any more is swept; defs holds gradients only; source gradients are normalised after all shapes were seen
    tg = [ev for ev in events if ev[0] == "transformed_gradient"]
    sib_out = [k for k in paths if k.attrib.get("d", "").replace(" ", "") in ("M40,40L41,41L42,40Z", "M0,0L1,0L1,1Z", "M0,0L2,0L2,2Z") and "url(" in k.attrib.get("fill", "")]
    H.prove(len(sib_out) == 1, "simplify.gradient_painted_shape_keeps_a_gradient_paint", detail=str([dict(k.attrib) for k in paths]))
    ids_in_defs = [k.attrib.get("id") for k in kids[0]] if kids else []
    if tg:
        H.prove(len(tg) == 1 and tg[0][1] is used and H.close(map_pt(tg[0][2], p), map_pt(G, p)), "simplify.gradient_copy_placed_with_the_ctm_of_the_shape")
        H.prove(bool(sib_out) and sib_out[0].attrib["fill"] == "url(#used_0)" and ids_in_defs == ["used_0"], "simplify.shape_points_at_its_copy_and_unreferenced_gradients_are_swept", detail=str(ids_in_defs))
    else:
        H.prove(H.close(tuple(map_pt(G, p)), p), "simplify.gradient_shared_unchanged_only_if_the_ctm_is_the_identity")
        H.prove(bool(sib_out) and sib_out[0].attrib["fill"] == "url(#used)" and ids_in_defs == ["used"], "simplify.shape_points_at_its_copy_and_unreferenced_gradients_are_swept", detail=str(ids_in_defs))
    H.prove(all(local(k) in ("linearGradient", "radialGradient") for k in kids[0]), "simplify.defs_holds_gradients_only", detail=str([local(k) for k in kids[0]]))
    rounded = [i for i, ev in enumerate(events) if ev[0] == "gradient_rounded"]
    shape_work = [i for i, ev in enumerate(events) if ev[0] in ("transformed_gradient", "transform", "stroke", "intersection")]
    H.prove(sorted(id(events[i][1]) for i in rounded) == sorted((id(used), id(orphan))) and (not shape_work or min(rounded) > max(shape_work)), "simplify.source_gradients_normalised_once_after_all_shapes", detail=str(kinds))
    from picosvg.svg import _INHERITABLE_ATTRIB

    H.prove(not any(n in _INHERITABLE_ATTRIB for n in root.attrib) and root.attrib.get("viewBox") == "0 0 100 100", "simplify.root_keeps_no_inheritable_attribute", detail=str(dict(root.attrib)))
    H.prove(svg.elements is None, "simplify.shape_cache_invalidated")


# ------------------------------------------------------------------------------------------------ copying form of every public method
_COPYING = ("absolute", "shapes_to_paths", "expand_shorthand", "apply_style_attributes", "resolve_use", "simplify", "clip_to_viewbox", "evenodd_to_nonzero_winding",
            "round_floats", "remove_empty_subpaths", "remove_unpainted_shapes", "remove_nonsvg_content", "remove_processing_instructions", "remove_anonymous_symbols",
            "remove_title_meta_desc", "set_attributes", "remove_attributes", "normalize_opacity", "resolve_nested_svgs")


@obligation(("C15",), "state.copy_form", split=("method", _COPYING), functions=["svg.SVG." + m for m in _COPYING])
def copy_form(H):
    """Every public method with an `inplace` option, called WITHOUT it: the receiver is cloned first (through _clone, which
    flushes pending shape edits - state.typestate / histories), the clone is converted in place with the caller's other
    arguments unchanged, the clone is returned and nothing else touches the receiver.  The real method body is run with
    every other SVG method recorded.  Also: the set of methods with an `inplace` option is the set listed here."""
    import inspect

    name = H.case("method", _COPYING)
    if H.mode == "concrete":
        have = sorted(n for n, f in SVG.__dict__.items() if isinstance(f, types.FunctionType) and "inplace" in inspect.signature(f).parameters and n != "topicosvg")
        H.prove(have == sorted(_COPYING), "copy_form.every_method_with_inplace_is_listed", detail=str(sorted(set(have) ^ set(_COPYING))))
        src = SVG.fromstring('<svg xmlns="http://www.w3.org/2000/svg" viewBox="0 0 9 9"><rect width="2.25" height="2" style="fill:red" opacity="1.0"/><!--c--><title>t</title></svg>')
        before = src.tostring()
        args = {"round_floats": (1,), "set_attributes": ((("id", "x"),),), "remove_attributes": (("viewBox",),)}.get(name, ())
        out = getattr(src, name)(*args)
        H.prove(out is not src and src.tostring() == before, "copy_form.receiver_left_alone", detail=name)
        return
    fake_tree.install(H)
    have = sorted(n for n, f in SVG.__dict__.items() if isinstance(f, types.FunctionType) and "inplace" in inspect.signature(f).parameters and n != "topicosvg")
    H.prove(have == sorted(_COPYING), "copy_form.every_method_with_inplace_is_listed", detail=str(sorted(set(have) ^ set(_COPYING))))
    svg = SVG(FakeElement(SVGNS + "svg", {}))
    clone = SVG(FakeElement(SVGNS + "svg", {}))
    trace = []
    _record_all_methods(H, SVG, trace, {"_clone": lambda s: clone}, skip=(name,))
    real = SVG.__dict__[name]
    nested = []

    def rec(I, self_, *a, **k):
        if not nested:
            nested.append(1)
            return I.call_closure(I.closure_of(real), (self_,) + a, k)
        trace.append((name, self_, a, k))
        return self_

    H.override(real, rec)
    nd = H.int("ndigits")
    marker = (("data-x", "1"),)
    args = {"round_floats": (nd,), "set_attributes": (marker,), "remove_attributes": (("id", "class"),)}.get(name, ())
    kwargs = {"xpath": "//svg:g"} if name in ("set_attributes", "remove_attributes") else {}
    res, e = H.catch(getattr(SVG, name), svg, *args, **kwargs)
    H.prove(e is None and res is clone, "copy_form.returns_the_converted_clone", detail=repr(e))
    names = [t[0] for t in trace]
    ok = names[:1] == ["_clone"] and trace[0][1] is svg and names[1:] == [name] and trace[1][1] is clone
    H.prove(ok, "copy_form.clones_then_converts_the_clone", detail=str(names))
    if ok:
        a, k = trace[1][2], dict(trace[1][3])
        # arguments by parameter name, however the call was spelled (positionally or by keyword)
        sig = list(inspect.signature(real).parameters)[1:]
        bound = dict(zip(sig, a))
        bound.update(k)
        H.prove(bound.pop("inplace", None) is True, "copy_form.clone_converted_in_place")
        want = dict(zip(sig, args))
        want.update(kwargs)
        same = all(n in bound and (bound[n] is v or _same(H, bound[n], v) is True or (isinstance(v, (tuple, str)) and bound[n] == v)) for n, v in want.items())
        H.prove(same and set(bound) - {"inplace"} <= set(want) | set(), "copy_form.other_arguments_forwarded_unchanged", detail=f"{bound} vs {want}")
    H.prove(all(t[1] is not svg or t[0] == "_clone" for t in trace), "copy_form.receiver_left_alone", detail=str(names))


# ------------------------------------------------------------------------------------------------ per-shape methods: the bookkeeping around the shape-level operation
_SHAPE_MAPS = ("absolute", "shapes_to_paths", "expand_shorthand", "evenodd_to_nonzero_winding", "round_floats", "remove_empty_subpaths", "normalize_opacity")


@obligation(("C15", "C09", "C01"), "state.shape_map", split=("method", _SHAPE_MAPS), functions=["svg.SVG." + m for m in _SHAPE_MAPS] + ["svg.SVG._elements", "svg.SVG._set_element", "svg.SVG._update_etree", "svg.SVG.shapes"])
def shape_map(H):
    """The document-level methods that map an operation over the shapes, in place, on <svg><g><rect/><path evenodd/></g>
    <circle/></svg>: every shape the method applies to is handed to the shape-level operation exactly once (with the
    caller's arguments), ITS result is what the next serialisation writes at ITS place, shapes the method does not apply to
    are written back as they were, and the receiver is returned.  The shape-level operations are recorders here; what they
    compute is under contract in C09 / C01 / C05 / C13."""
    import dataclasses

    from picosvg.svg_types import SVGCircle, SVGPath, SVGRect, SVGShape

    from .fake_tree import local

    name = H.case("method", _SHAPE_MAPS)
    if H.mode == "concrete":
        svg = SVG.fromstring('<svg xmlns="http://www.w3.org/2000/svg" viewBox="0 0 9 9"><g><rect id="s0" width="2.26" height="2" fill-opacity="0.5"/><path id="s1" d="M1,1 h2.26 v2 z M5,5" fill-rule="evenodd"/></g><circle id="s2" r="1.26"/></svg>')
        args = (1,) if name == "round_floats" else ()
        out = getattr(svg, name)(*args, inplace=True)
        ids = [e.attrib.get("id") for e in out.toetree().iter() if e.attrib.get("id")]
        H.prove(out is svg and ids == ["s0", "s1", "s2"], "shape_map.every_shape_written_back_at_its_place", detail=str(ids))
        return
    fake_tree.install(H)
    fake_tree.install_xpath(H, SVG)
    el = lambda tag, attrib=None, children=(): FakeElement(SVGNS + tag, attrib, children)
    rect = el("rect", {"id": "s0", "width": "2", "height": "3"})
    path = el("path", {"id": "s1", "d": "M1,1 L2,2 L3,1 Z", "fill-rule": "evenodd"})
    circle = el("circle", {"id": "s2", "r": "4"})
    group = el("g", {"opacity": "0.5"}, [rect, path])
    root = el("svg", {"viewBox": "0 0 9 9"}, [group, circle])
    svg = SVG(root)
    ops = []
    nd = H.int("ndigits")

    def tag_of(shape):
        return shape.id

    def returning(op):
        def rec(I, self_, *a, **k):
            ops.append((op, tag_of(self_), a, k, type(self_).__name__))
            mark = getattr(self_, "d", "") if isinstance(self_, SVGPath) and getattr(self_, "d", "").startswith("M9") else "M9"
            if k.get("inplace") and isinstance(self_, SVGPath):
                self_.d = f"{mark} {op}"  # the real operation changes the receiver and returns it
                return self_
            return SVGPath(id=self_.id, d=f"{mark} {op}", fill_rule=self_.fill_rule)
        return rec

    def in_place(op):
        def rec(I, self_, *a, **k):
            ops.append((op, tag_of(self_), a, k, type(self_).__name__))
            if isinstance(self_, SVGPath):
                self_.d = f"M9 {op}"
            else:
                self_.clip_rule = "evenodd"  # a visible mark on a non-path shape
            return self_
        return rec

    for cls in (SVGShape, SVGPath, SVGRect, SVGCircle):
        for op in ("absolute", "as_path", "explicit_lines", "expand_shorthand", "remove_overlaps", "remove_empty_subpaths"):
            f = cls.__dict__.get(op)
            if f is not None:
                H.override(f, returning(op))
        for op in ("round_floats", "normalize_opacity"):
            f = cls.__dict__.get(op)
            if f is not None:
                H.override(f, in_place(op))
    args = (nd,) if name == "round_floats" else ()
    res, e = H.catch(getattr(SVG, name), svg, *args, inplace=True)
    H.prove(e is None and res is svg, "shape_map.returns_the_receiver", detail=repr(e))
    if e is not None:
        return
    chain = {"absolute": ["absolute"], "shapes_to_paths": ["as_path"], "expand_shorthand": ["explicit_lines", "expand_shorthand"], "evenodd_to_nonzero_winding": ["as_path", "remove_overlaps"],
             "round_floats": ["round_floats"], "remove_empty_subpaths": ["remove_empty_subpaths"], "normalize_opacity": ["normalize_opacity"]}[name]
    applies = {"expand_shorthand": ("s1",), "evenodd_to_nonzero_winding": ("s1",), "remove_empty_subpaths": ("s1",)}.get(name, ("s0", "s1", "s2"))
    for t in ("s0", "s1", "s2"):
        got = [o[0] for o in ops if o[1] == t]
        H.prove(got == (chain if t in applies else []), "shape_map.operation_applied_exactly_once_to_the_shapes_it_concerns", detail=f"{t}: {got}")
    if name == "round_floats":
        H.prove(all((o[2][0] if o[2] else o[3].get("ndigits")) is nd and o[3].get("inplace") is True for o in ops), "shape_map.callers_arguments_reach_the_operation")
    if name in ("expand_shorthand", "remove_empty_subpaths", "normalize_opacity", "evenodd_to_nonzero_winding"):
        last = [o for o in ops if o[0] == chain[-1]]
        H.prove(all(o[3].get("inplace") is True for o in last), "shape_map.last_operation_in_place_on_the_fresh_copy")
    before_ops = len(ops)
    _, e2 = H.catch(SVG._update_etree, svg)
    H.prove(e2 is None, "shape_map.cache_can_be_written_back", detail=repr(e2))
    if e2 is not None:
        return
    H.prove(len(ops) == before_ops, "shape_map.serialising_does_not_run_the_operation_again")
    flat = [k for k in root.iterdescendants() if k.attrib.get("id") in ("s0", "s1", "s2")]
    H.prove([k.attrib.get("id") for k in flat] == ["s0", "s1", "s2"] and [k.getparent() is group for k in flat] == [True, True, False] and list(root) [0] is group, "shape_map.every_shape_written_back_at_its_place",
            detail=str([(local(k), dict(k.attrib)) for k in flat]))
    for k in flat:
        t = k.attrib["id"]
        if t in applies:
            if name in ("round_floats", "normalize_opacity"):
                marked = k.attrib.get("d", "") == f"M9 {name}" if t == "s1" else k.attrib.get("clip-rule") == "evenodd"
            else:
                marked = local(k) == "path" and k.attrib.get("d", "") == "M9 " + " ".join(chain)
            H.prove(marked, "shape_map.the_result_of_the_operation_is_what_gets_written", detail=str((local(k), dict(k.attrib))))
        else:
            same = {"s0": local(k) == "rect" and k.attrib.get("width") == "2", "s1": k.attrib.get("d") == "M1,1 L2,2 L3,1 Z", "s2": local(k) == "circle" and k.attrib.get("r") == "4"}[t]
            H.prove(same, "shape_map.untouched_shapes_written_back_as_they_were", detail=str((local(k), dict(k.attrib))))


# ------------------------------------------------------------------------------------------------ shape -> path: fields and the normalisation chain
_BASIC_SHAPES = ("SVGRect", "SVGCircle", "SVGEllipse", "SVGLine", "SVGPolygon", "SVGPolyline")


@obligation(("C04", "C05", "C09", "C02"), "shape.as_path.fields", split=("shape", _BASIC_SHAPES), functions=["svg_types.SVGShape._copy_common_fields"] + ["svg_types." + c + ".as_path" for c in _BASIC_SHAPES])
def as_path_fields(H):
    """as_path of every basic shape hands EVERY presentation field of the shape (paint, stroke settings incl. dash array and
    dash offset, opacities, rules, transform, clip-path, style, display, id) to the path unchanged - whatever their
    values (symbolic numbers, arbitrary tokens)."""
    import dataclasses

    from picosvg import svg_types as T
    from picosvg.svg_transform import Affine2D

    name = H.case("shape", _BASIC_SHAPES)
    cls = getattr(T, name)
    shape_fields = {f.name for f in dataclasses.fields(T.SVGShape)}
    geometry = {"SVGRect": dict(x=1.0, y=2.0, width=30.0, height=20.0), "SVGCircle": dict(cx=5.0, cy=6.0, r=7.0), "SVGEllipse": dict(cx=5.0, cy=6.0, rx=7.0, ry=3.0),
                "SVGLine": dict(x1=1.0, y1=2.0, x2=3.0, y2=5.0), "SVGPolygon": dict(points="1,2 3,4 5,0"), "SVGPolyline": dict(points="1,2 3,4 5,0")}[name]
    values = {}
    for f in dataclasses.fields(T.SVGShape):
        if isinstance(f.default, float):
            values[f.name] = H.real("v_" + f.name)
        elif isinstance(f.default, Affine2D):
            values[f.name] = Affine2D(*H.reals("t_" + f.name, 6))
        else:
            values[f.name] = "token-" + f.name
    if H.mode == "concrete":
        values = {k: (v if not isinstance(v, str) else {"fill_rule": "evenodd", "clip_rule": "evenodd", "stroke_linecap": "round", "stroke_linejoin": "bevel", "display": "inline"}.get(k, v)) for k, v in values.items()}
    shape = H.call(cls, **geometry, **values)
    path, e = H.catch(cls.as_path, shape)
    H.prove(e is None and type(path).__name__ == "SVGPath", "as_path.returns_a_path", detail=repr(e))
    if e is not None:
        return
    H.prove(shape_fields <= {f.name for f in dataclasses.fields(T.SVGPath)}, "as_path.path_has_every_shape_field")
    for n in sorted(shape_fields):
        got, want = getattr(path, n), values[n]
        same = H.close(tuple(got), tuple(want)) if isinstance(want, Affine2D) else (got == want if isinstance(want, str) else H.close(got, want))
        H.prove(same, f"as_path.field_handed_over:{n}", detail=f"{got!r} vs {want!r}")


@obligation(("C09", "C13", "C03", "C04", "C19", "C02", "C18"), "path.as_cmd_seq.chain", functions=["svg_types.SVGShape.as_cmd_seq"])
def as_cmd_seq_chain(H):
    """as_cmd_seq (what every boolean operation, stroke, bounding box and transform consumes) normalises a copy of the path by
    explicit_lines, expand_shorthand, absolute and arcs_to_cubics, each applied to the result of the previous one, with the
    shorthand expanded BEFORE arcs become cubics: S/s after an arc starts at the current point (SVG 8.3.6), which is lost once
    the arc is a C.  The receiver is not changed."""
    from picosvg.svg_types import SVGPath

    if H.mode == "concrete":
        p = SVGPath(d="M0,0 A10,10 0 0 1 20,0 S30,10 40,0")
        cmds = list(p.as_cmd_seq())
        last = cmds[-1]
        H.prove(last[0] == "C" and abs(last[1][0] - 20) < 1e-9 and abs(last[1][1]) < 1e-9 and p.d == "M0,0 A10,10 0 0 1 20,0 S30,10 40,0", "as_cmd_seq.shorthand_expanded_before_arcs_become_cubics", detail=str(last))
        return
    trace = []
    objs = {}

    def rec(op):
        def r(I, self_, *a, **k):
            out = self_ if k.get("inplace") else SVGPath(d=self_.d)
            trace.append((op, id(self_), k.get("inplace", False), id(out)))
            objs[id(out)] = out
            return out
        return r

    for op in ("explicit_lines", "expand_shorthand", "absolute", "arcs_to_cubics"):
        H.override(SVGPath.__dict__[op], rec(op))
    src = SVGPath(d="M0,0 a10,10 0 0 1 20,0 s10,10 20,0 h5")
    res, e = H.catch(SVGPath.as_cmd_seq, src)
    H.prove(e is None, "as_cmd_seq.no_exception", detail=repr(e))
    names = [t[0] for t in trace]
    H.prove(sorted(names) == sorted(["explicit_lines", "expand_shorthand", "absolute", "arcs_to_cubics"]), "as_cmd_seq.all_four_normalisations_run_once", detail=str(names))
    if sorted(names) != sorted(["explicit_lines", "expand_shorthand", "absolute", "arcs_to_cubics"]):
        return
    H.prove(names.index("expand_shorthand") < names.index("arcs_to_cubics"), "as_cmd_seq.shorthand_expanded_before_arcs_become_cubics", detail=str(names))
    H.prove(trace[0][1] == id(src) and not trace[0][2] and all(trace[i][1] == trace[i - 1][3] for i in range(1, 4)), "as_cmd_seq.each_step_works_on_the_result_of_the_previous_and_never_on_the_receiver", detail=str(trace))
    H.prove(src.d == "M0,0 a10,10 0 0 1 20,0 s10,10 20,0 h5" and res is objs.get(trace[-1][3]), "as_cmd_seq.receiver_unchanged_result_is_the_last_step")


# ------------------------------------------------------------------------------------------------ shape-level boolean operations (glue over svg_pathops)
@obligation(("C13", "C03", "C19"), "shapes.boolean_glue", split=("op", ("union", "intersection", "difference")), functions=["svg_types.union", "svg_types.intersection", "svg_types.difference"])
def boolean_glue(H):
    """svg_types.union / intersection / difference: EVERY shape handed in contributes its geometry (its normalised command
    sequence), whatever its paint says - a clip child with fill="none" or opacity 0 still clips (SVG 14.3.5) - each under its
    clip-rule (or the rules the caller names, for intersection), in the caller's order; and the engine runs WHEN THE FUNCTION
    IS CALLED: the result does not change if an operand is modified before the commands are consumed (picosvg's own idiom is
    p.update_path(op((p, q)), inplace=True), which empties p first)."""
    from picosvg import svg_pathops, svg_types
    from picosvg.svg_types import SVGPath, SVGShape

    op = H.case("op", ("union", "intersection", "difference"))
    fn = getattr(svg_types, op)
    if H.mode == "concrete":
        p, q = SVGPath(d="M0,0 L10,0 L10,10 L0,10 Z", fill="none", opacity=0.0), SVGPath(d="M5,5 L15,5 L15,15 L5,15 Z")
        res = fn((p, q))
        p.d = ""  # what update_path(..., inplace=True) does before it iterates
        cmds = list(res)
        xs = [a for c, args in cmds for a in args[0::2]]
        want = {"union": (0, 15), "intersection": (5, 10), "difference": (0, 10)}[op]
        H.prove(bool(xs) and (min(xs), max(xs)) == want, "boolean_glue.engine_runs_at_call_time_with_every_operand", detail=str(cmds)[:200])
        return
    calls = []

    def rec(name):
        def r(I, seqs, rules):
            seqs = [list(x) for x in seqs]
            calls.append((name, seqs, list(rules)))
            return iter([("M", (0.0, 0.0)), ("L", (1.0, 0.0)), ("L", (1.0, 1.0)), ("Z", ())])
        return r

    for name in ("union", "intersection", "difference"):
        H.override(getattr(svg_pathops, name), rec(name))
    seq_of = {}

    def rec_cmd_seq(I, self_):
        seq_of[id(self_)] = [("M", (float(len(seq_of)), 0.0))]
        return iter(seq_of[id(self_)])

    H.override(SVGShape.as_cmd_seq, rec_cmd_seq)
    shapes = [SVGPath(d="M0,0 L1,0 L1,1 Z", fill="none", clip_rule="evenodd"), SVGPath(d="M2,2 L3,2 L3,3 Z", opacity=0.0), SVGPath(d="M4,4 L5,4 L5,5 Z", display="none", fill_opacity=0.0, clip_rule="evenodd")]
    explicit = H.case("rules_given", (False, True)) if op == "intersection" else False
    kwargs = {"fill_rules": ("nonzero", "evenodd", "nonzero")} if explicit else {}
    res, e = H.catch(fn, tuple(shapes), **kwargs)
    H.prove(e is None, "boolean_glue.no_exception", detail=repr(e))
    if e is not None:
        return
    H.prove(len(calls) == 1 and calls[0][0] == op, "boolean_glue.engine_runs_at_call_time_with_every_operand", detail=str([c[0] for c in calls]))
    if len(calls) != 1:
        return
    _, seqs, rules = calls[0]
    H.prove(len(seqs) == 3 and all(seqs[i] == seq_of.get(id(shapes[i])) for i in range(3)), "boolean_glue.every_shape_contributes_in_the_callers_order_whatever_its_paint", detail=str(seqs))
    H.prove(rules == (["nonzero", "evenodd", "nonzero"] if explicit else ["evenodd", "nonzero", "evenodd"]), "boolean_glue.each_shape_under_its_clip_rule_or_the_named_rule", detail=str(rules))


# ------------------------------------------------------------------------------------------------ the final gate
@obligation(("C01", "C17", "C08"), "gate.checkpicosvg", functions=["svg.SVG.checkpicosvg"])
def gate_check(H):
    """checkpicosvg on <svg><defs><linearGradient><stop/></linearGradient><mask/></defs><g opacity><path/><path/><image/>
    <g><path/><text/></g></g><path id=dup/><path id=dup/><text/></svg>: every element that is not defs / gradient / stop / g / path
    at an allowed place is reported - WHEREVER it sits, also deep inside groups that are themselves fine - or removed when
    drop_unsupported is set; text passes only with allow_text and only at the root; a reused id and a missing defs are
    reported; a conforming tree gives ()."""
    from .fake_tree import local

    if H.mode == "concrete":
        bad = SVG.fromstring('<svg xmlns="http://www.w3.org/2000/svg" xmlns:xlink="http://www.w3.org/1999/xlink"><defs/><g opacity="0.5"><path d="M0,0 L1,0 L1,1 Z"/><path d="M2,0 L3,0 L3,1 Z"/><image xlink:href="x.png"/></g></svg>').checkpicosvg()
        H.prove(any("image" in b for b in bad), "gate.unsupported_element_reported_wherever_it_sits", detail=str(bad))
        return
    fake_tree.install(H)
    fake_tree.install_xpath(H, SVG)
    allow_text = H.case("allow_text", (False, True))
    drop = H.case("drop_unsupported", (False, True))
    el = lambda tag, attrib=None, children=(): FakeElement(SVGNS + tag, attrib, children)
    image, deep_text, mask, root_text = el("image", {}), el("text", {}), el("mask", {}), el("text", {})
    inner = el("g", {"opacity": "0.3"}, [el("path", {"d": "M0,0"}), deep_text])
    group = el("g", {"opacity": "0.5"}, [el("path", {"d": "M0,0"}), el("path", {"d": "M1,1"}), image, inner])
    defs = el("defs", {}, [el("linearGradient", {"id": "g"}, [el("stop", {"offset": "0", "id": "stopdup"})]), el("linearGradient", {"id": "g_0"}, [el("stop", {"offset": "0", "id": "stopdup"})]), mask])
    root = el("svg", {}, [defs, group, el("path", {"id": "dup", "d": "M0,0"}), el("path", {"id": "dup", "d": "M1,1"}), root_text])
    svg = SVG(root)
    errs, e = H.catch(SVG.checkpicosvg, svg, allow_text=allow_text, drop_unsupported=drop)
    H.prove(e is None and isinstance(errs, tuple), "gate.returns_a_tuple", detail=repr(e))
    if e is not None:
        return
    present = lambda x: any(k is x for k in root.iterdescendants())
    named = lambda word: any(word in s for s in errs)
    for name, node, where in (("image", image, "/svg[0]/g[0]/image[0]"), ("mask", mask, "/svg[0]/defs[0]/mask[0]"), ("text deep inside groups", deep_text, "/svg[0]/g[0]/g[0]/text[0]")):
        if drop:
            H.prove(not present(node) and not named(where), "gate.unsupported_element_dropped_wherever_it_sits", detail=f"{name}: {errs}")
        else:
            H.prove(present(node) and named(where), "gate.unsupported_element_reported_wherever_it_sits", detail=f"{name}: {errs}")
    if allow_text:
        H.prove(present(root_text) and not named("/svg[0]/text[0]"), "gate.text_at_the_root_passes_with_allow_text", detail=str(errs))
    elif drop:
        H.prove(not present(root_text), "gate.text_dropped_without_allow_text", detail=str(errs))
    else:
        H.prove(named("/svg[0]/text[0]"), "gate.text_reported_without_allow_text", detail=str(errs))
    H.prove(any("reuses id" in s and '"dup"' in s for s in errs), "gate.reused_id_reported", detail=str(errs))
    H.prove(any("reuses id" in s and "stopdup" in s for s in errs), "gate.reused_id_reported_on_gradient_stops_too", detail=str(errs))
    # a conforming tree
    ok_root = el("svg", {}, [el("defs", {}, [el("linearGradient", {"id": "g"}, [el("stop", {"offset": "0"})])]), el("g", {"opacity": "0.5"}, [el("path", {"d": "M0,0"}), el("path", {"d": "M1,1"})]), el("path", {"d": "M2,2"})])
    H.prove(H.call(SVG.checkpicosvg, SVG(ok_root), allow_text=allow_text, drop_unsupported=drop) == (), "gate.conforming_tree_passes")
    no_defs = el("svg", {}, [el("path", {"d": "M2,2"})])
    H.prove(any("MissingElement" in s and "defs" in s for s in H.call(SVG.checkpicosvg, SVG(no_defs), allow_text=allow_text, drop_unsupported=drop)), "gate.missing_defs_reported")


@obligation(("C02", "C13", "C03", "C09"), "shape.apply_transform", functions=["svg_types.SVGShape.apply_transform"])
def shape_apply_transform(H):
    """SVGShape.apply_transform(T): a NEW path whose data is svg_pathops.transform(as_cmd_seq(), T) - the engine gets the
    shape's normalised commands and exactly the caller's matrix - unless T is degenerate (|det| <= float epsilon, and only
    then), where the path collapses to M0,0; every other field is carried over; the receiver is not modified."""
    import sys

    from picosvg import svg_pathops
    from picosvg.svg_transform import Affine2D
    from picosvg.svg_types import SVGPath, SVGRect, SVGShape

    kind = H.case("receiver", ("path", "rect"))
    if H.mode == "concrete":
        p = SVGPath(d="M0,0 L4,0 L4,3 Z", fill="red")
        q = p.apply_transform(Affine2D(2e-5, 0, 0, 2e-5, 1, 2))
        H.prove(p.d == "M0,0 L4,0 L4,3 Z" and q is not p and q.fill == "red" and q.d != "M0,0", "apply_transform.collapses_only_for_degenerate_matrices", detail=q.d)
        return
    T = Affine2D(*H.reals("t", 6))
    det = T[0] * T[3] - T[1] * T[2]
    calls = []
    src_cmds = [("M", (1.0, 2.0)), ("L", (3.0, 4.0))]

    def rec_transform(I, cmds, affine):
        calls.append((list(cmds), affine))
        return iter([("M", (7.0, 8.0)), ("L", (9.0, 1.0))])

    H.override(svg_pathops.transform, rec_transform)
    H.override(SVGShape.as_cmd_seq, lambda I, self_: iter(list(src_cmds)))
    shape = SVGPath(d="M1,2 L3,4", fill="red", opacity=0.5, id="s") if kind == "path" else SVGRect(x=1.0, y=2.0, width=3.0, height=4.0, fill="red", opacity=0.5, id="s")
    before = (getattr(shape, "d", None), shape.fill, shape.opacity, shape.id)
    res, e = H.catch(SVGShape.apply_transform, shape, T)
    H.prove(e is None and isinstance(res, SVGPath) and res is not shape, "apply_transform.returns_a_new_path", detail=repr(e))
    if e is not None:
        return
    H.prove((getattr(shape, "d", None), shape.fill, shape.opacity, shape.id) == before, "apply_transform.receiver_not_modified")
    H.prove(res.fill == "red" and res.opacity == 0.5 and res.id == "s", "apply_transform.other_fields_carried_over")
    eps = sys.float_info.epsilon
    if calls:
        ok = len(calls) == 1 and calls[0][0] == src_cmds
        H.prove(ok, "apply_transform.engine_gets_the_normalised_commands_once")
        H.prove(H.close(tuple(calls[0][1]), tuple(T)), "apply_transform.engine_gets_the_callers_matrix")
        H.prove(res.d.replace(" ", "") == "M7,8L9,1", "apply_transform.result_is_the_engines_answer", detail=res.d)
        H.prove(Or(det > eps, -det > eps), "apply_transform.collapses_only_for_degenerate_matrices")
    else:
        H.prove(res.d.replace(" ", "") == "M0,0", "apply_transform.degenerate_matrix_collapses_to_a_point", detail=res.d)
        H.prove(And(det <= eps, -det <= eps), "apply_transform.collapses_only_for_degenerate_matrices")


# ------------------------------------------------------------------------------------------------ small parsers and shape spellings (concrete inputs, real code)
@obligation(("C09", "C04", "C02"), "shape.polygon_polyline", functions=["svg_types.SVGPolygon.as_path", "svg_types.SVGPolyline.as_path"])
def polygon_polyline(H):
    """polygon -> "M" + points + " Z": ALWAYS closed, also when the point list repeats its first point at the end (the closing
    edge gives the start corner a join instead of two caps); polyline -> "M" + points, never closed; no points -> empty path."""
    from picosvg.svg_types import SVGPolygon, SVGPolyline

    pts = H.case("points", ("30,30 90,30 90,90 30,90", "30,30 90,30 90,90 30,90 30,30", "1 2 3 4", "5,5", ""))
    poly, line = SVGPolygon(points=pts, stroke="black"), SVGPolyline(points=pts, stroke="black")
    a, e1 = H.catch(SVGPolygon.as_path, poly)
    b, e2 = H.catch(SVGPolyline.as_path, line)
    H.prove(e1 is None and e2 is None, "polygon.no_exception", detail=f"{e1!r} {e2!r}")
    if e1 is not None or e2 is not None:
        return
    cmds_a, cmds_b = [c for c, _ in a], [c for c, _ in b]
    if pts:
        n = len(pts.replace(",", " ").split()) // 2
        H.prove(cmds_a == ["M"] + ["L"] * (n - 1) + ["Z"], "polygon.always_closed_one_segment_per_point", detail=str(cmds_a))
        H.prove(cmds_b == ["M"] + ["L"] * (n - 1), "polyline.never_closed", detail=str(cmds_b))
        flat = [float(x) for x in pts.replace(",", " ").split()]
        H.prove([v for _, args in a for v in args] == flat and [v for _, args in b for v in args] == flat, "polygon.points_kept_in_order")
        H.prove(a.stroke == "black" and b.stroke == "black", "polygon.paint_carried_over")
    else:
        H.prove(cmds_a == [] and cmds_b == [], "polygon.no_points_no_path")


@obligation(("C05", "C01", "C18"), "css.declarations", functions=["svg_meta.parse_css_declarations"])
def css_declarations(H):
    """parse_css_declarations(style, output): every well-formed `name: value` declaration is written to output; when a
    property is declared more than once the LAST declaration wins (CSS 2.1 6.4.1); a declaration overrides a value that
    output already holds; with property_names only the named properties are taken and the rest is returned; white space around
    names and values is dropped; an empty style changes nothing."""
    from picosvg.svg_meta import parse_css_declarations

    def run(style, start=None, names=None):
        out = dict(start or {})
        rest, e = H.catch(parse_css_declarations, style, out, names) if names is not None else H.catch(parse_css_declarations, style, out)
        return out, rest, e

    out, rest, e = run("fill:#f00; fill : #00f ;opacity:0.2;stroke:none;opacity:0.8")
    H.prove(e is None and out == {"fill": "#00f", "opacity": "0.8", "stroke": "none"}, "css.last_declaration_of_a_repeated_property_wins", detail=f"{out} {e!r}")
    out, rest, e = run("fill:red", {"fill": "blue", "d": "M0,0"})
    H.prove(e is None and out == {"fill": "red", "d": "M0,0"}, "css.declaration_overrides_the_existing_value", detail=str(out))
    out, rest, e = run("fill:red;stroke-width:2;font-family:serif", None, {"fill", "stroke-width"})
    H.prove(e is None and out == {"fill": "red", "stroke-width": "2"} and "font-family" in (rest or ""), "css.only_named_properties_are_taken_the_rest_is_returned", detail=f"{out} {rest!r}")
    out, rest, e = run("", {"fill": "blue"})
    H.prove(e is None and out == {"fill": "blue"}, "css.empty_style_changes_nothing")
    out, rest, e = run(" ; ;fill:red;; ")
    H.prove(e is None and out == {"fill": "red"}, "css.empty_declarations_are_skipped", detail=f"{out} {e!r}")
    out, rest, e = run("fill red")
    H.prove(isinstance(e, ValueError), "css.malformed_declaration_is_ValueError", detail=repr(e))


@obligation(("C19", "C02", "C06"), "viewbox.parse", functions=["svg_meta.parse_view_box", "svg.SVG.view_box"])
def viewbox_parse(H):
    """parse_view_box reads the four numbers of a viewBox in every spelling the SVG number grammar allows (comma and / or white
    space separated, leading dot, sign, exponent); anything else is a ValueError; SVG.view_box falls back to width / height."""
    from picosvg.geometric_types import Rect
    from picosvg.svg_meta import parse_view_box

    for text, want in (("0 0 24 24", (0, 0, 24, 24)), ("-.5 -.5 12 12", (-0.5, -0.5, 12, 12)), (".5,.5,12,12", (0.5, 0.5, 12, 12)), ("0, 0, 24, 24", (0, 0, 24, 24)), ("+.25 -1e1 1.5E2 3e0", (0.25, -10, 150, 3)),
                       ("  10\t20\n30 40", (10, 20, 30, 40)), ("-5-5 10 10", None), ("0 0 24", None), ("0 0 24 24 1", None), ("a b c d", None)):
        r, e = H.catch(parse_view_box, text.strip() if want is not None and text.startswith(" ") else text)
        if want is None:
            H.prove(isinstance(e, ValueError), "viewbox.malformed_is_ValueError", detail=f"{text!r}: {r!r} {e!r}")
        elif ", " in text:
            # comma followed by white space is valid SVG; picosvg refuses it (ValueError: a rejected document, not a wrong one) -
            # what must never happen is a silently different rectangle
            H.prove(isinstance(e, ValueError) or (e is None and tuple(r) == tuple(float(v) for v in want)), "viewbox.never_a_silently_different_rectangle", detail=f"{text!r}: {r!r} {e!r}")
        else:
            H.prove(e is None and tuple(r) == tuple(float(v) for v in want), "viewbox.four_numbers_in_every_spelling", detail=f"{text!r}: {r!r} {e!r}")
    if H.mode == "sym":
        fake_tree.install(H)
    mk = (lambda attrib: SVG(FakeElement(SVGNS + "svg", attrib))) if H.mode == "sym" else (lambda attrib: SVG.fromstring('<svg xmlns="http://www.w3.org/2000/svg" ' + " ".join(f'{k}="{v}"' for k, v in attrib.items()) + "/>"))
    H.prove(H.call(SVG.view_box, mk({"width": "30", "height": "40"})) == Rect(0, 0, 30, 40), "viewbox.falls_back_to_width_and_height")
    H.prove(H.call(SVG.view_box, mk({"width": "30"})) is None, "viewbox.none_without_viewBox_and_size")
    H.prove(H.call(SVG.view_box, mk({"viewBox": "1 2 3 4", "width": "30", "height": "40"})) == Rect(1, 2, 3, 4), "viewbox.viewBox_wins_over_width_and_height")



@obligation(("C18", "C05", "C15"), "element.written_when_it_differs_from_the_inherited_value", functions=["svg.to_element"])
def to_element_inherited(H):
    """to_element(shape, **inherited): an attribute is omitted only if it EQUALS the value the element would inherit; a shape
    that states the initial value (stroke-width 1, fill-opacity 1, fill black) under an ancestor that sets something else -
    including 0 - keeps its own attribute (otherwise it would inherit the ancestor's and e.g. stop painting)."""
    from picosvg.svg import to_element
    from picosvg.svg_types import SVGPath

    if H.mode == "sym":
        fake_tree.install(H)
    p = SVGPath(d="M0,0 L1,0 L1,1 Z")  # every presentation field at its initial value
    for inherited, must_write in (({"stroke-width": "0"}, {"stroke-width": "1"}), ({"fill-opacity": "0"}, {"fill-opacity": "1"}), ({"stroke-opacity": "0", "opacity": "0"}, {"stroke-opacity": "1", "opacity": "1"}),
                                  ({"fill": "red"}, {"fill": "black"}), ({"fill": "black", "stroke-width": "1"}, {}), ({"stroke-width": "2.5", "fill-rule": "evenodd"}, {"stroke-width": "1", "fill-rule": "nonzero"})):
        el, e = H.catch(to_element, p, **inherited)
        H.prove(e is None, "to_element.no_exception", detail=repr(e))
        if e is not None:
            continue
        got = {k: v for k, v in el.attrib.items() if k != "d"}
        H.prove(got == must_write, "to_element.own_value_written_exactly_when_it_differs_from_the_inherited_one", detail=f"inherited {inherited}: wrote {got}, expected {must_write}")
    # "equals" is about the VALUE: an ancestor may spell the same number differently (.5, 0.50, 1e0).  Writing the number out on the
    # element would turn an inherited value into an own one, which then wins over what a <use> says (use_overrides_inherited_... in the corpus)
    q = SVGPath(d="M0,0 L1,0 L1,1 Z", fill_opacity=0.5, stroke_width=2.5)
    for shape, inherited, must_write in ((q, {"fill-opacity": ".5", "stroke-width": "2.50"}, {}), (q, {"fill-opacity": "5e-1", "stroke-width": "2.5"}, {}), (p, {"opacity": "1.0", "stroke-miterlimit": "4.0"}, {}),
                                         (q, {"fill-opacity": ".25", "stroke-width": "none"}, {"fill-opacity": "0.5", "stroke-width": "2.5"})):
        el, e = H.catch(to_element, shape, **inherited)
        H.prove(e is None, "to_element.no_exception", detail=repr(e))
        if e is not None:
            continue
        got = {k: v for k, v in el.attrib.items() if k != "d"}
        H.prove(got == must_write, "to_element.a_number_spelled_differently_by_the_ancestor_is_still_the_same_value", detail=f"inherited {inherited}: wrote {got}, expected {must_write}")



@obligation(("C15", "C05"), "state.flush", functions=["svg.SVG._update_etree", "svg.SVG._swap_elements", "svg.SVG._inherited_attrib"])
def state_flush(H):
    """_update_etree, the flush primitive every operation relies on: with nothing cached it does nothing; otherwise every cached
    entry (element, shapes) is written back - the element is replaced IN PLACE by the elements of its shapes, attributes equal to
    what the element inherits from its ancestors AS THEY ARE NOW (the memo of inherited attributes is not allowed to be stale)
    are omitted, the others written - and the cache is empty afterwards, so that a second flush changes nothing."""
    from picosvg.svg_types import SVGPath, SVGRect

    from .fake_tree import local

    if H.mode == "concrete":
        svg = SVG.fromstring('<svg xmlns="http://www.w3.org/2000/svg"><g fill="red"><rect width="2" height="3" fill="red"/></g></svg>')
        svg.shapes()
        svg.svg_root[0].attrib["fill"] = "blue"
        svg._update_etree()
        r = svg.svg_root[0][0]
        H.prove(r.attrib.get("fill") == "red" and svg.elements is None, "flush.written_relative_to_the_ancestors_as_they_are_now", detail=str(dict(r.attrib)))
        return
    fake_tree.install(H)
    fake_tree.install_xpath(H, SVG)
    el = lambda tag, attrib=None, children=(): FakeElement(SVGNS + tag, attrib, children)
    state = H.case("cache", ("none", "empty", "filled"))
    rect, path = el("rect", {"width": "2", "height": "3"}), el("path", {"d": "M0,0"})
    before, after = el("path", {"d": "M9,9"}), el("path", {"d": "M8,8"})
    group = el("g", {"fill": "red", "stroke-width": "2"}, [before, rect, after])
    root = el("svg", {"viewBox": "0 0 9 9"}, [group, path])
    svg = SVG(root)
    if state == "none":
        svg.elements = None
    elif state == "empty":
        svg.elements = []
    else:
        svg.elements = [(rect, (SVGPath(d="M1,1 L2,2", fill="red", stroke_width=1.0, id="a"), SVGPath(d="M3,3 L4,4", fill="blue", stroke_width=2.0, id="b"))), (path, (SVGRect(width=5.0, height=6.0, fill="red", id="c"),))]
    # a stale memo would answer for the tree as it was: poison it with an answer for an earlier document if the code does not clear it
    _, e = H.catch(SVG._update_etree, svg)
    H.prove(e is None, "flush.no_exception", detail=repr(e))
    if e is not None:
        return
    if state != "filled":
        H.prove(list(group) == [before, rect, after] and list(root) == [group, path] and not svg.elements, "flush.nothing_cached_nothing_happens")
        return
    H.prove(svg.elements is None, "flush.cache_empty_afterwards")
    kids = list(group)
    ok = len(kids) == 4 and kids[0] is before and kids[3] is after and [k.attrib.get("id") for k in kids[1:3]] == ["a", "b"] and all(local(k) == "path" for k in kids[1:3])
    H.prove(ok, "flush.element_replaced_in_place_by_the_elements_of_its_shapes_in_order", detail=str([(local(k), dict(k.attrib)) for k in kids]))
    if ok:
        a, b = kids[1].attrib, kids[2].attrib
        # inherited from the group: fill red, stroke-width 2
        H.prove("fill" not in a and a.get("stroke-width") == "1", "flush.attributes_equal_to_the_inherited_value_are_omitted_others_written", detail=str(dict(a)))
        H.prove(b.get("fill") == "blue" and "stroke-width" not in b, "flush.attributes_equal_to_the_inherited_value_are_omitted_others_written", detail=str(dict(b)))
    top = list(root)
    ok = len(top) == 2 and top[0] is group and local(top[1]) == "rect" and top[1].attrib.get("id") == "c"
    H.prove(ok, "flush.every_cached_entry_is_written", detail=str([(local(k), dict(k.attrib)) for k in top]))
    if ok:
        H.prove(top[1].attrib.get("fill") == "red" and top[1].attrib.get("width") == "5", "flush.root_level_shape_compared_with_the_defaults", detail=str(dict(top[1].attrib)))
    snapshot = [(local(k), dict(k.attrib)) for k in root.iterdescendants()]
    H.call(SVG._update_etree, svg)
    H.prove([(local(k), dict(k.attrib)) for k in root.iterdescendants()] == snapshot, "flush.second_flush_changes_nothing")


@obligation(("C01", "C14", "C17"), "meta.splitns", functions=["svg_meta.splitns", "svg_meta.strip_ns"])
def splitns_names(H):
    """splitns / strip_ns take a qualified name apart at the closing brace and nowhere else: the local name is everything after it,
    whatever characters XML allows in a name (hyphen, dot, underscore, digits, non-ASCII letters) - `g-emoji` is not `g`, so the tag
    classifiers and the allow-list of the final gate never mistake an unknown element for a known one."""
    from picosvg.svg_meta import splitns, strip_ns

    ns = "http://www.w3.org/2000/svg"
    for local in ("g", "g-emoji", "g.layer", "stop-marker", "linearGradient-x", "path_1", "defs2", "svg:g".replace(":", "-"), "é-g", "a"):
        for q, want in ((f"{{{ns}}}{local}", (ns, local)), (local, (None, local)), (f"{{urn:x-y.z}}{local}", ("urn:x-y.z", local))):
            r, e = H.catch(splitns, q)
            H.prove(e is None and tuple(r) == want, "splitns.namespace_and_full_local_name", detail=f"{q!r}: {r!r} {e!r}")
            r, e = H.catch(strip_ns, q)
            H.prove(e is None and r == local, "strip_ns.full_local_name", detail=f"{q!r}: {r!r} {e!r}")


@obligation(("C06", "C07", "C02"), "meta.number_or_percentage", functions=["svg_meta.number_or_percentage"])
def number_or_percentage_spellings(H):
    """number_or_percentage reads every spelling of an SVG number - the ones picosvg itself writes included (exponent notation for
    magnitudes below 1e-4, which a second pass reads back) - and a percentage as that fraction of the scale; anything else is a
    ValueError, never a silently different number."""
    from picosvg.svg_meta import number_or_percentage

    scale = H.real("scale")
    for text, want in (("5e-05", 5e-05), ("2.5E-7", 2.5e-7), ("1e2", 100.0), ("-1.5e+1", -15.0), ("-.5", -0.5), ("+3", 3.0), ("7.", 7.0), ("0.25", 0.25), ("12", 12.0)):
        r, e = H.catch(number_or_percentage, text, scale)
        H.prove(e is None and r == want, "number_or_percentage.every_number_spelling", detail=f"{text!r}: {r!r} {e!r}")
    for text, frac in (("50%", 0.5), ("0%", 0.0), ("12.5%", 0.125), ("-10%", -0.1), ("150%", 1.5)):
        r, e = H.catch(number_or_percentage, text, scale)
        H.prove(e is None and H.close(r, frac * scale), "number_or_percentage.percentage_of_the_scale", detail=f"{text!r}: {r!r} {e!r}")
    for text in ("", "abc", "5e", "1.2.3", "%"):
        r, e = H.catch(number_or_percentage, text, scale)
        H.prove(isinstance(e, ValueError), "number_or_percentage.malformed_is_ValueError", detail=f"{text!r}: {r!r} {e!r}")
