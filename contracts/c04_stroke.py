"""C04 - strokes become filled outlines drawn above the fill (the part the repository's own code decides).

The outline geometry (caps, joins, miter limit, dash phase, 0.25-unit resolution) is Skia's stroker: no contract on
repository code can decide it (DESIGN, C04 "not decided").  Proved here, over the assumed pathops contract:
  stroke glue      cap / join names map to the engine's constants of the same name, every parameter reaches the
                   engine parameter of the same meaning, conics are removed, the result is simplified (engine failure
                   there falls back to the unsimplified outline, as documented)
  dash arrays      "none" -> no dashes, odd-length lists are doubled, even ones kept, offset passed unchanged
  bookkeeping      SVG._stroke: stroke piece takes the stroke paint and opacity*clamp(stroke_opacity), fill piece keeps the fill
                   and opacity*clamp(fill_opacity), both end with fill_opacity 1 and no stroke properties, stroke drawn above fill,
                   ids cleared exactly when two pieces are returned
  tolerance        positive, 0.1% of the smaller viewBox side, 0.1 without a viewBox
"""
from __future__ import annotations

import dataclasses

import pathops
from picosvg import svg_pathops
from picosvg.geometric_types import Rect
from picosvg.svg import SVG
from picosvg.svg_types import SVGPath, SVGShape

from pyvc import pathdata
from pyvc.registry import obligation
from pyvc.sym import smax, smin
from pyvc.sym import And, Not, Or

from . import fake_pathops
from .c13_pathops import _cmds, _geom, _terms_equal

P = "C04"
CAPS = {"butt": pathops.LineCap.BUTT_CAP, "round": pathops.LineCap.ROUND_CAP, "square": pathops.LineCap.SQUARE_CAP}
JOINS = {"miter": pathops.LineJoin.MITER_JOIN, "round": pathops.LineJoin.ROUND_JOIN, "bevel": pathops.LineJoin.BEVEL_JOIN}


@obligation(P, "stroke.glue", functions=["svg_pathops.stroke"])
def glue(H):
    """svg_pathops.stroke: names -> engine constants of the same name (anything else: ValueError); width, cap, join,
    miter limit, dash array, dash offset bound to the engine parameters of the same meaning; conics converted with the
    given tolerance; then simplified with fix_winding, falling back to the outline itself if the engine cannot."""
    with fake_pathops.installed(H) as world:
        cap = H.case("cap", tuple(CAPS) + ("arrow",))
        join = H.case("join", tuple(JOINS) + ("arcs",))
        fail = H.case("engine", ("works", "simplify fails"))
        if fail != "works":
            world.fail.add("simplify")
        width, miter, tol, off = H.real("width"), H.real("miter"), H.real("tol"), H.real("offset")
        dashes = [H.real("d0"), H.real("d1")]
        cmds = _cmds(H, "a")
        o = H.reals("o", 4)
        world.result_segments = [(pathops.PathVerb.MOVE, ((o[0], o[1]),)), (pathops.PathVerb.LINE, ((o[2], o[3]),))]
        run = (lambda *a: list(svg_pathops.stroke(*a))) if H.mode == "concrete" else svg_pathops.stroke
        res, e = H.catch(run, cmds, cap, join, width, miter, tol, dashes, off)
        if cap == "arrow" or join == "arcs":
            H.prove(isinstance(e, ValueError), "glue.unknown_cap_or_join_is_ValueError")
            return
        H.prove(e is None, "glue.no_exception", detail=repr(e))
        if e is not None:
            return
        st = [z for z in world.events if z[0] == "stroke"]
        ok = len(st) == 1
        H.prove(ok, "glue.strokes_once")
        if not ok:
            return
        w_, cap_, join_, miter_, dash_, off_ = st[0][2]
        H.prove(cap_ is CAPS[cap] and join_ is JOINS[join], "glue.cap_and_join_constants_have_the_same_name")
        H.prove(And(H.close(w_, width), H.close(miter_, miter), H.close(off_, off), len(dash_) == 2 and H.close(tuple(dash_), tuple(dashes))),
                "glue.width_miterlimit_dasharray_dashoffset_reach_their_parameters")
        conv = [z for z in world.events if z[0] == "convertConicsToQuads"]
        H.prove(len(conv) == 1 and H.close(conv[0][2], tol), "glue.conics_converted_with_given_tolerance")
        names = [z[0] for z in world.events if z[0] in ("stroke", "convertConicsToQuads", "simplify", "iterate")]
        H.prove(names == ["stroke", "convertConicsToQuads", "simplify", "iterate"], "glue.stroke_then_conics_then_simplify_then_read")
        it = [z for z in world.events if z[0] == "iterate"][0][1]
        base = ("noconics", ("stroke", _geom(cmds, "nonzero"), width, CAPS[cap], JOINS[join], miter, tuple(dashes), off), tol)
        want = base if fail != "works" else ("simplified", base, True)
        H.prove(_terms_equal(H, it.region(), want), "glue.returns_simplified_outline_or_the_outline_itself_when_engine_fails")
        res = list(res)
        H.prove(len(res) == 2 and [c for c, _ in res] == ["M", "L"], "glue.returns_engine_output")


_DASH = {"none": [], "": [], "5": [5.0, 5.0], "5,3": [5.0, 3.0], "5 3 2": [5.0, 3.0, 2.0, 5.0, 3.0, 2.0], "5, 3": [5.0, 3.0], "1,2,3,4": [1.0, 2.0, 3.0, 4.0], "0.5 1.5 2.5 3.5 4.5": [0.5, 1.5, 2.5, 3.5, 4.5] * 2,
         # a zero-length dash or gap is an entry like any other (SVG 1.1 11.4: only negative values are errors): it keeps its slot and counts for the parity
         "4 0 2 6": [4.0, 0.0, 2.0, 6.0], "0 3": [0.0, 3.0], "3 0 1": [3.0, 0.0, 1.0, 3.0, 0.0, 1.0]}


@obligation(P, "stroke.commands", functions=["svg_types.SVGShape.stroke_commands"])
def commands(H):
    """stroke_commands: dash list parsed (none -> empty, odd length doubled, even kept) and every stroke property of the shape
    handed, unchanged, to the stroker parameter of the same meaning together with the shape's own command sequence."""
    pathdata.install(H)
    dash = H.case("dasharray", tuple(_DASH))
    cap, join = H.case("cap", tuple(CAPS)), H.case("join", tuple(JOINS))
    width, miter, off, tol = H.real("width"), H.real("miter"), H.real("offset"), H.real("tol")
    shape = H.call(SVGPath, d="M0,0 L4,0 L4,3 Z", stroke="black", stroke_width=width, stroke_linecap=cap, stroke_linejoin=join,
                   stroke_miterlimit=miter, stroke_dasharray=dash, stroke_dashoffset=off)
    calls = H.capture_args(svg_pathops, "stroke", lambda: H.call(SVGShape.stroke_commands, shape, tol), result=lambda *a, **k: iter(()))
    ok = len(calls) == 1
    H.prove(ok, "commands.strokes_once")
    if not ok:
        return
    a, k = calls[0]
    names = ("svg_cmds", "svg_linecap", "svg_linejoin", "stroke_width", "stroke_miterlimit", "tolerance", "dash_array", "dash_offset")
    bound = dict(zip(names, a))
    bound.update(k)
    H.prove(set(bound) == set(names), "commands.all_eight_parameters_given")
    if set(bound) != set(names):
        return
    H.prove(bound["svg_linecap"] == cap and bound["svg_linejoin"] == join, "commands.cap_and_join_passed_by_name")
    H.prove(And(H.close(bound["stroke_width"], width), H.close(bound["stroke_miterlimit"], miter), H.close(bound["tolerance"], tol)), "commands.width_miterlimit_tolerance_unchanged")
    H.prove(H.close(bound["dash_offset"], off), "commands.dash_offset_passed_unchanged")
    H.prove(list(bound["dash_array"]) == _DASH[dash], "commands.dash_array_none_empty_odd_doubled_even_kept", detail=f"{list(bound['dash_array'])!r}")
    seq = bound["svg_cmds"]
    got = [(c, tuple(x)) for c, x in (H.call(SVGPath.__iter__, seq) if isinstance(seq, SVGPath) else seq)]
    H.prove(got == [("M", (0.0, 0.0)), ("L", (4.0, 0.0)), ("L", (4.0, 3.0)), ("Z", ())], "commands.strokes_the_shape_own_outline")


def _svg(view="0 0 100 50"):
    return SVG.fromstring(f'<svg xmlns="http://www.w3.org/2000/svg" viewBox="{view}"/>' if view else '<svg xmlns="http://www.w3.org/2000/svg"/>')


@obligation((P, "C05", "C01", "C08"), "stroke.bookkeeping", functions=["svg.SVG._stroke", "svg._reset_attrs"])
def bookkeeping(H):
    """SVG._stroke: (fill piece, stroke piece) in paint order, or (stroke piece,) when the fill cannot paint."""
    pathdata.install(H)
    fill_paints = H.case("fill_paints", (True, False))
    opacity, fo, so = H.real("opacity"), H.real("fill_opacity"), H.real("stroke_opacity")
    svg = _svg()
    shape = H.call(SVGPath, d="M0,0 L4,0 L4,3 Z", id="s1", fill="red", stroke="blue", opacity=opacity, fill_opacity=fo, stroke_opacity=so,
                   stroke_width=3.0, stroke_linecap="round", stroke_linejoin="bevel", stroke_miterlimit=7.0, stroke_dasharray="1 2", stroke_dashoffset=0.5,
                   fill_rule="evenodd", clip_rule="evenodd")
    outline = [("M", (1.0, 1.0)), ("L", (2.0, 2.0)), ("Z", ())]
    seen = {}

    def fake_stroke_commands(shape_self, tolerance):
        seen["tol"] = tolerance
        seen["self"] = shape_self
        return iter(list(outline))

    def run():
        def inner():
            seen["out"] = H.catch(SVG._stroke, svg, shape)

        H.capture_args(SVGShape, "might_paint", inner, result=lambda *a, **k: fill_paints)

    H.capture_args(SVGShape, "stroke_commands", run, result=fake_stroke_commands)
    out, e = seen["out"]
    H.prove(e is None, "bookkeeping.no_exception", detail=repr(e))
    if e is not None:
        return
    out = tuple(out)
    H.prove(H.close(seen.get("tol"), 0.05), "bookkeeping.stroker_gets_the_document_tolerance")
    H.prove(len(out) == (2 if fill_paints else 1), "bookkeeping.two_pieces_iff_fill_can_paint")
    if len(out) != (2 if fill_paints else 1):
        return
    stroke = out[-1]
    H.prove(stroke is not shape, "bookkeeping.stroke_piece_is_a_new_shape")
    H.prove(stroke.fill == "blue", "bookkeeping.stroke_piece_painted_with_stroke_paint")
    # a renderer clamps every opacity to [0, 1] before using it (SVG 1.1 11.x "values outside the range 0.0 - 1.0 are clamped")
    clamp = lambda v: smax(0, smin(1, v)) if H.mode == "sym" else max(0.0, min(1.0, v))
    H.prove(H.close(clamp(stroke.opacity), clamp(opacity) * clamp(so)), "bookkeeping.stroke_piece_opacity_is_opacity_times_clamped_stroke_opacity")
    H.prove(H.close(stroke.fill_opacity, 1.0), "bookkeeping.stroke_piece_fill_opacity_reset")
    H.prove(stroke.fill_rule == "nonzero" and stroke.clip_rule == "nonzero", "bookkeeping.stroke_outline_is_nonzero")
    got = [(c, tuple(x)) for c, x in H.call(SVGPath.__iter__, stroke)]
    H.prove(got == outline, "bookkeeping.stroke_piece_geometry_is_the_stroker_output")
    defaults = {f.name: f.default for f in dataclasses.fields(stroke) if f.name.startswith("stroke")}
    for piece, nm in ((stroke, "stroke"),) + (((out[0], "fill"),) if fill_paints else ()):
        H.prove(all(getattr(piece, k) == v for k, v in defaults.items()), f"bookkeeping.{nm}_piece_has_no_stroke_properties_left")
    if fill_paints:
        fill = out[0]
        H.prove(fill is shape and fill.fill == "red" and fill.fill_rule == "evenodd", "bookkeeping.fill_piece_first_so_stroke_is_drawn_above_it")
        H.prove(H.close(clamp(fill.opacity), clamp(opacity) * clamp(fo)), "bookkeeping.fill_piece_opacity_is_opacity_times_clamped_fill_opacity")
        H.prove(H.close(fill.fill_opacity, 1.0), "bookkeeping.fill_piece_fill_opacity_reset")
        H.prove(fill.id == "" and stroke.id == "", "bookkeeping.ids_cleared_when_shape_is_split")
    else:
        H.prove(stroke.id == "s1", "bookkeeping.single_piece_keeps_id")


@obligation(P, "stroke.tolerance", functions=["svg.SVG._default_tolerance", "svg.SVG.tolerance"])
def tolerance(H):
    """tolerance is positive and 0.1% of the smaller viewBox side; 0.1 without a viewBox."""
    has = H.case("viewbox", (True, False))
    svg = _svg()
    w, h = H.real("w"), H.real("h")
    H.assume(And(w > 0, h > 0))
    box = Rect(H.real("x"), H.real("y"), w, h) if has else None
    seen = {}
    H.capture_args(SVG, "view_box", lambda: seen.setdefault("t", H.call(SVG.tolerance.fget, svg)), result=lambda *a: box)
    t = seen["t"]
    if has:
        from pyvc.sym import smin

        H.prove(And(t > 0, H.close(t, smin(w, h) / 1000)), "tolerance.is_0.1pct_of_smaller_side")
    else:
        H.prove(H.close(t, 0.1), "tolerance.default_without_viewbox")
