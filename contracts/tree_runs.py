"""Tree-walking functions of svg.py executed symbolically over a model of the element tree (fake_tree.FakeElement:
attrib = ordered dict, children = ordered list with parent pointers; XPath answered for the few queries used - the
assumed contract of lxml, DESIGN 3.6).  Numbers in attributes and transform matrices are symbolic; the tree shape and
the attribute names are case-split.  These replace "trust the call-site pattern" by "run the real function":

  use.instance      SVG._resolve_use: where an instance lands (target transform, then translate(x, y), then the use's
                    transform), which paint / opacity it gets (own value wins, opacity multiplies ONCE), ids stripped
  clip.region       SVG._resolve_clip_path: children placed with (own, clipPath, CTM) transforms, union of children,
                    nested clip resolved with the composed transform and intersected
  gradient.template SVG._apply_gradient_template: attributes / stops taken from the href chain, own values win
"""
from __future__ import annotations

from picosvg import svg as S
from picosvg.svg import SVG
from picosvg.svg_transform import Affine2D
from picosvg.svg_types import SVGPath, SVGShape

from pyvc.registry import obligation
from pyvc.sym import And, Not, Or

from . import fake_tree
from .c06_gradients import _AffTok, _install_transform_tokens
from .fake_tree import SVGNS, FakeElement, local, num_of, numstr
from .spec import map_pt

XLINK = "{http://www.w3.org/1999/xlink}href"


def _tok(H, prefix):
    m = Affine2D(*H.reals(prefix, 6))
    return _AffTok(m), m


def _el(tag, attrib=None, children=()):
    return FakeElement(SVGNS + tag, attrib, children)


@obligation(("C02", "C03", "C05", "C08"), "use.instance", functions=["svg.SVG._resolve_use", "svg._try_remove_group", "svg._inherit_attrib", "svg._inherit_matrix_multiply"])
def use_instance(H):
    """Every <use> is replaced, in place, by a copy of its target: a point of the target is mapped by the target's own
    transform, then translate(x, y), then the use's transform; the copy keeps its own paint, otherwise takes the use's;
    opacity is the product of both (once); ids do not survive on the copy; the original stays."""
    if H.mode == "concrete":
        doc = ('<svg xmlns="http://www.w3.org/2000/svg" xmlns:xlink="http://www.w3.org/1999/xlink"><defs><rect id="t" width="4" height="4" opacity="0.8" transform="scale(2)"/></defs>'
               '<g><use xlink:href="#t" x="3" y="5" transform="rotate(90)" opacity="0.5" fill="red"/></g></svg>')
        svg = SVG.fromstring(doc).resolve_use()
        el = svg.xpath("//svg:g/svg:rect")[0]
        m = tuple(round(v, 6) for v in Affine2D.fromstring(el.attrib["transform"]))
        H.prove(m == (0.0, 2.0, -2.0, 0.0, -5.0, 3.0), "use.point_goes_through_target_then_translate_then_use_transform", detail=str(m))
        H.prove(abs(float(el.attrib["opacity"]) - 0.4) < 1e-9 and el.attrib.get("fill") == "red" and "id" not in el.attrib, "use.opacity_multiplied_once")
        return
    fake_tree.install(H)
    fake_tree.install_xpath(H, SVG)
    _install_transform_tokens(H)
    has_xy = H.case("use_has_xy", (True, False))
    use_tr = H.case("use_has_transform", (True, False))
    tgt_tr = H.case("target_has_transform", (True, False))
    tgt_fill = H.case("target_has_fill", (True, False))
    use_op = H.case("use_has_opacity", (True, False))
    use_clip = H.case("use_has_clip", (True, False))
    xs, xn = numstr(H, "x")
    ys, yn = numstr(H, "y")
    uos, uon = numstr(H, "uo")
    tos, ton = numstr(H, "to")
    utok, um = _tok(H, "u")
    ttok, tm = _tok(H, "t")
    tattr = {"id": "t", "width": "4", "height": "4", "opacity": tos}
    if tgt_tr:
        tattr["transform"] = ttok
    if tgt_fill:
        tattr["fill"] = "blue"
    target = _el("rect", tattr)
    uattr = {XLINK: "#t", "fill": "red", "width": "9", "height": "9"}
    if has_xy:
        uattr.update(x=xs, y=ys)
    if use_tr:
        uattr["transform"] = utok
    if use_op:
        uattr["opacity"] = uos
    if use_clip:
        uattr["clip-path"] = "url(#c)"
    use = _el("use", uattr)
    before, after = _el("path", {"d": "M0,0"}), _el("path", {"d": "M1,1"})
    holder = _el("g", {"id": "holder"}, [before, use, after])
    root = _el("svg", {}, [_el("defs", {}, [target, _el("clipPath", {"id": "c"}, [_el("rect", {"width": "2", "height": "2"})])]), holder])
    svg = SVG(root)
    _, e = H.catch(SVG._resolve_use, svg, root)
    H.prove(e is None, "use.no_exception", detail=repr(e))
    if e is not None:
        return
    kids = list(holder)
    # the instance: the copy of the target, directly in place of the use or inside the group that stands for the use
    rects = [k for k in ([kids[1]] + list(kids[1].iterdescendants()) if len(kids) == 3 else []) if local(k) == "rect"]
    ok = len(kids) == 3 and kids[0] is before and kids[2] is after and len(rects) == 1 and rects[0] is not target and local(kids[1]) in ("rect", "g")
    H.prove(ok, "use.instance_takes_the_place_of_the_use_element")
    if not ok:
        return
    inst = rects[0]
    chain = [inst]  # the instance and its new ancestors below the holder, innermost first
    while chain[-1] is not kids[1]:
        chain.append(chain[-1].getparent())
    H.prove(all(local(c) == "g" and len(c) == 1 for c in chain[1:]), "use.instance_wrapped_only_by_groups_made_for_it")
    H.prove(all("id" not in c.attrib for c in chain) and target.attrib.get("id") == "t" and list(list(root)[0])[0] is target, "use.copy_has_no_id_original_untouched")
    H.prove(all(XLINK not in c.attrib and all(k not in c.attrib for k in ("x", "y")) for c in chain) and inst.attrib.get("width") == "4", "use.placement_attributes_not_copied_onto_the_instance")

    def cascade(name):
        """own value of the innermost element that sets it"""
        for c in chain:
            if name in c.attrib:
                return c.attrib[name]
        return None

    H.prove(cascade("fill") == ("blue" if tgt_fill else "red"), "use.own_paint_wins_otherwise_the_use_paint")
    # the alpha a renderer composites with: every element's opacity clamped to [0, 1], then multiplied along the chain
    from pyvc.sym import smax, smin

    c01 = lambda v: smax(0, smin(1, v))
    want_op = c01(ton) * (c01(uon) if use_op else 1)
    got_op = 1
    for c in chain:
        if "opacity" in c.attrib:
            got_op = got_op * c01(num_of(H, c.attrib["opacity"]))
    H.prove(H.close(got_op, want_op), "use.opacity_multiplied_once")
    p = (H.real("px"), H.real("py"))
    from .spec import mat_mul, translate_m

    def total_from(i):
        """matrix from the coordinate system of chain[i]'s content to the holder's: transforms of chain[i:], innermost first"""
        m = (1, 0, 0, 1, 0, 0)
        for c in chain[i:]:
            tr = c.attrib.get("transform")
            if tr is not None:
                if not isinstance(tr, _AffTok):
                    return None
                m = mat_mul(tuple(tr.m), m)
        return m

    placement = (1, 0, 0, 1, 0, 0)
    if has_xy:
        placement = mat_mul(translate_m(xn, yn), placement)
    if use_tr:
        placement = mat_mul(tuple(um), placement)
    want = mat_mul(placement, tuple(tm)) if tgt_tr else placement
    got = total_from(0)
    H.prove(got is not None, "use.transforms_written_as_matrices")
    if got is not None:
        for a_, b_ in zip(got, want):
            H.prove(H.close(a_, b_), "use.point_goes_through_target_then_translate_then_use_transform")
    # the clip of the use lives in the use's coordinate system: placement only, NOT the target's own transform
    carriers = [i for i, c in enumerate(chain) if "clip-path" in c.attrib]
    if use_clip:
        H.prove(len(carriers) == 1 and chain[carriers[0]].attrib["clip-path"] == "url(#c)", "use.clip_path_kept_exactly_once", detail=str([dict(c.attrib) for c in chain]))
        if len(carriers) == 1:
            got_clip = total_from(carriers[0])
            if got_clip is not None:
                for a_, b_ in zip(got_clip, placement):
                    H.prove(H.close(a_, b_), "use.clip_stays_in_the_coordinate_system_of_the_use")
    else:
        H.prove(not carriers, "use.no_clip_invented")


@obligation(("C03",), "clip.region", functions=["svg.SVG._resolve_clip_path", "svg._element_transform", "svg.from_element"])
def clip_region(H):
    """_resolve_clip_path(url, CTM): child i is placed by (its own transform, the clipPath's transform, the CTM) in that
    order; the region is the union of the children; a clip-path on the clipPath is resolved with (clipPath transform, CTM)
    and intersected with it."""
    if H.mode == "concrete":
        doc = ('<svg xmlns="http://www.w3.org/2000/svg" viewBox="0 0 100 100"><defs><clipPath id="inner"><rect x="0" y="10" width="100" height="30"/></clipPath>'
               '<clipPath id="outer" transform="translate(40 0)" clip-path="url(#inner)"><rect x="0" y="0" width="20" height="100"/></clipPath></defs></svg>')
        clip = SVG.fromstring(doc)._resolve_clip_path("url(#outer)")
        bb = clip.bounding_box()
        H.prove(abs(bb.x - 40) < 1e-6 and abs(bb.y - 10) < 1e-6 and abs(bb.w - 20) < 1e-6 and abs(bb.h - 30) < 1e-6, "clip.nested_clip_resolved_with_composed_transform", detail=str(bb))
        return
    fake_tree.install(H)
    fake_tree.install_xpath(H, SVG)
    _install_transform_tokens(H)
    nested = H.case("clipPath_has_own_clip", (True, False))
    cp_tr = H.case("clipPath_has_transform", (True, False))
    child_tr = H.case("child_has_transform", (True, False))
    cp_rule = H.case("clipPath_sets_clip_rule", (True, False))
    ctm = Affine2D(*H.reals("ctm", 6))
    cptok, cpm = _tok(H, "cp")
    chtok, chm = _tok(H, "ch")
    in_tok, inm = _tok(H, "in")
    c1 = _el("rect", dict({"width": "3", "height": "4"}, **({"transform": chtok} if child_tr else {})))
    c2 = _el("circle", {"r": "5", "clip-rule": "nonzero"})
    attrs = {"id": "outer"}
    if cp_rule:
        attrs["clip-rule"] = "evenodd"
    if cp_tr:
        attrs["transform"] = cptok
    if nested:
        attrs["clip-path"] = "url(#inner)"
    outer = _el("clipPath", attrs, [c1, c2])
    inner = _el("clipPath", {"id": "inner", "transform": in_tok}, [_el("rect", {"width": "7", "height": "8"})])
    root = _el("svg", {}, [_el("defs", {}, [outer, inner])])
    svg = SVG(root)
    placed = []

    def fake_apply(I, shape, matrix):
        placed.append((shape, matrix))
        return ("placed", len(placed) - 1)

    ops = []

    def fake_union(I, shapes):
        ops.append(("union", list(shapes)))
        return ("union", len(ops) - 1)

    def fake_intersection(I, shapes, fill_rules=None):
        ops.append(("intersection", list(shapes), fill_rules))
        return ("intersection", len(ops) - 1)

    H.override(SVGShape.apply_transform, fake_apply)
    H.override(S.union, fake_union)
    H.override(S.intersection, fake_intersection)
    H.override(SVGPath.from_commands.__func__, lambda I, cls, cmds: ("path-of", cmds))
    H.override(SVG._resolve_use, lambda I, self, scope: None)
    res, e = H.catch(SVG._resolve_clip_path, svg, "url(#outer)", ctm)
    H.prove(e is None, "clip.no_exception", detail=repr(e))
    if e is not None:
        return
    p = (H.real("px"), H.real("py"))

    def through(ms, q):
        for m in ms:
            q = map_pt(m, q)
        return q

    n_outer = 2
    ok = len(placed) == n_outer + (1 if nested else 0)
    H.prove(ok, "clip.every_child_is_placed_once")
    if not ok:
        return
    chain_outer = ([cpm] if cp_tr else []) + [ctm]
    H.prove(type(placed[0][0]).__name__ == "SVGRect" and type(placed[1][0]).__name__ == "SVGCircle", "clip.children_read_in_document_order")
    # clip-rule is an inherited property: a child without its own value takes the clipPath's, a child's own value wins
    H.prove(placed[0][0].clip_rule == ("evenodd" if cp_rule else "nonzero") and placed[1][0].clip_rule == "nonzero", "clip.children_inherit_clip_rule_from_the_clipPath",
            detail=f"{placed[0][0].clip_rule}, {placed[1][0].clip_rule}")
    H.prove(H.close(map_pt(placed[0][1], p), through(([chm] if child_tr else []) + chain_outer, p)), "clip.child_placed_by_own_then_clipPath_then_CTM")
    H.prove(H.close(map_pt(placed[1][1], p), through(chain_outer, p)), "clip.untransformed_child_placed_by_clipPath_then_CTM")
    if nested:
        # the inner clipPath is resolved in the coordinate system of the outer one: (inner transform, outer transform, CTM)
        H.prove(H.close(map_pt(placed[2][1], p), through([inm] + chain_outer, p)), "clip.nested_clip_resolved_with_composed_transform")
        kinds = [o[0] for o in ops]
        H.prove(kinds == ["union", "union", "intersection"] and res == ("path-of", ("intersection", 2)), "clip.region_is_union_of_children_intersected_with_nested_clip")
        if kinds == ["union", "union", "intersection"]:
            a, b = ops[2][1]
            H.prove(a == ("path-of", ("union", 0)) and b == ("path-of", ("union", 1)) and ops[2][2] is None, "clip.intersection_of_the_two_clip_regions_under_clip_rule")
    else:
        H.prove([o[0] for o in ops] == ["union"] and res == ("path-of", ("union", 0)), "clip.region_is_union_of_children")
    H.prove(ops[0][1] == [("placed", 0), ("placed", 1)], "clip.union_over_all_children_in_order")


@obligation(("C06",), "gradient.template", functions=["svg.SVG._apply_gradient_template"])
def gradient_template(H):
    """href templates: every attribute the gradient does not set itself comes from the nearest template in the chain that
    sets it (however long the chain, whichever link carries the stops); stops are taken from the template only if the
    gradient has none, without ids; the href is removed."""
    if H.mode == "concrete":
        doc = ('<svg xmlns="http://www.w3.org/2000/svg" xmlns:xlink="http://www.w3.org/1999/xlink"><defs><linearGradient id="base" gradientUnits="userSpaceOnUse" x1="10" spreadMethod="reflect"/>'
               '<linearGradient id="mid" xlink:href="#base"><stop offset="0" stop-color="red"/></linearGradient><linearGradient id="top" xlink:href="#mid"/></defs></svg>')
        svg = SVG.fromstring(doc)
        top = svg.xpath('//svg:linearGradient[@id="top"]')[0]
        svg._apply_gradient_template(top)
        H.prove(top.attrib.get("x1") == "10" and top.attrib.get("gradientUnits") == "userSpaceOnUse" and top.attrib.get("spreadMethod") == "reflect" and len(top) == 1,
                "template.attributes_come_from_the_whole_chain", detail=str(dict(top.attrib)))
        return
    fake_tree.install(H)
    fake_tree.install_xpath(H, SVG)
    stops_at = H.case("stops_at", ("base", "mid", "top", "mid and base"))
    own_x1 = H.case("top_sets_x1", (True, False))
    stop = lambda c: _el("stop", {"offset": "0", "stop-color": c, "id": "s-" + c})
    base = _el("linearGradient", {"id": "base", "gradientUnits": "userSpaceOnUse", "x1": "10", "y1": "1", "spreadMethod": "reflect"}, [stop("red")] if "base" in stops_at else [])
    mid = _el("linearGradient", {"id": "mid", XLINK: "#base", "y1": "2"}, [stop("lime")] if "mid" in stops_at else [])
    top = _el("linearGradient", dict({"id": "top", XLINK: "#mid"}, **({"x1": "77"} if own_x1 else {})), [stop("blue")] if stops_at == "top" else [])
    root = _el("svg", {}, [_el("defs", {}, [base, mid, top])])
    svg = SVG(root)
    H.override(SVG.xpath_one, lambda I, self, q: I.call_value(SVG.xpath, (self, q), {"expected_result_range": range(1, 2)})[0])
    _, e = H.catch(SVG._apply_gradient_template, svg, top)
    H.prove(e is None, "template.no_exception", detail=repr(e))
    if e is not None:
        return
    a = top.attrib
    H.prove(XLINK not in a, "template.href_removed")
    H.prove(a.get("x1") == ("77" if own_x1 else "10"), "template.own_value_wins_else_inherited_through_the_whole_chain")
    H.prove(a.get("y1") == "2" and a.get("gradientUnits") == "userSpaceOnUse" and a.get("spreadMethod") == "reflect", "template.attributes_come_from_the_whole_chain")
    H.prove(a.get("id") == "top", "template.id_kept")
    want = {"base": "red", "mid": "lime", "top": "blue", "mid and base": "lime"}[stops_at]
    kids = list(top)
    H.prove(len(kids) == 1 and kids[0].attrib.get("stop-color") == want, "template.stops_from_nearest_template_that_has_some")
    if kids and stops_at != "top":
        H.prove("id" not in kids[0].attrib and kids[0] is not (list(mid) or list(base) or [None])[0], "template.copied_stops_are_copies_without_ids")


class _VBTok:
    """a viewBox attribute value standing for a symbolic rectangle"""
    __pyvc_abstract__ = True

    def __init__(self, rect):
        self.rect = rect

    def __pyvc_truth__(self, interp):
        return True

    def __pyvc_copy__(self):
        return self


@obligation(("C02", "C03", "C06", "C15"), "nested.viewport", split=("overflow", (None, "hidden", "visible", "scroll")), functions=["svg.SVG._unnest_svg", "svg.SVG._iter_nested_svgs", "svg.SVG._swap_elements"])
def nested_viewport(H):
    """_unnest_svg: the inner svg becomes a group holding its children in order; a point of the content is mapped by the
    viewBox->viewport mapping (rect_to_rect(viewBox, viewport, preserveAspectRatio, default xMidYMid) when a viewBox is
    given, translate(x, y) otherwise) FIRST and by the svg's own transform second; width / height default to the enclosing
    size; unless overflow is visible the group is clipped to the viewport rectangle (x, y, width, height) through a fresh
    clipPath; any other overflow value is refused."""
    from picosvg.geometric_types import Rect
    from picosvg import svg_meta

    if H.mode == "concrete":
        doc = ('<svg xmlns="http://www.w3.org/2000/svg" viewBox="0 0 100 100"><svg x="10" y="20" width="40" height="40" viewBox="0 0 20 20" transform="translate(1 2)"><rect width="20" height="20"/></svg></svg>')
        out = SVG.fromstring(doc).topicosvg()
        bb = [s.bounding_box() for s in out.shapes()][0]
        H.prove(abs(bb.x - 11) < 1e-6 and abs(bb.y - 22) < 1e-6 and abs(bb.w - 40) < 1e-6 and abs(bb.h - 40) < 1e-6, "nested.viewbox_onto_viewport_then_own_transform", detail=str(bb))
        return
    fake_tree.install(H)
    fake_tree.install_xpath(H, SVG)
    _install_transform_tokens(H)
    has_xy = H.case("has_x_y", (True, False))
    has_wh = H.case("has_width_height", (True, False))
    has_vb = H.case("has_viewBox", (True, False))
    par = H.case("preserveAspectRatio", (None, "xMinYMax slice"))
    has_tr = H.case("has_transform", (True, False))
    overflow = H.case("overflow", (None, "hidden", "visible", "scroll"))
    if par and not has_vb:
        return  # preserveAspectRatio is only read together with a viewBox
    xs, xn = numstr(H, "x")
    ys, yn = numstr(H, "y")
    ws, wn = numstr(H, "w")
    hs, hn = numstr(H, "h")
    pw, ph = H.real("parent_w"), H.real("parent_h")
    vb = Rect(*H.reals("vb", 4))
    ttok, tm = _tok(H, "t")
    attrib = {}
    if has_xy:
        attrib.update(x=xs, y=ys)
    if has_wh:
        attrib.update(width=ws, height=hs)
    if has_vb:
        attrib["viewBox"] = _VBTok(vb)
    if par:
        attrib["preserveAspectRatio"] = par
    if has_tr:
        attrib["transform"] = ttok
    if overflow:
        attrib["overflow"] = overflow
    k1 = _el("path", {"d": "M0,0"})
    innermost = _el("svg", {"width": "7"}, [_el("path", {"d": "M9,9"})])
    k2 = _el("g", {}, [innermost])  # an svg nested in the nested svg, not a direct child
    attrib.update({"fill": "red", "opacity": "0.5", "display": "inline", "stroke-width": "3"})  # presentation attributes of the nested svg
    grad_attrib = {"id": "ug", "gradientUnits": "userSpaceOnUse", "x1": "10%", "x2": "90%", "y2": "50%"}
    k3 = _el("linearGradient", dict(grad_attrib), [_el("stop", {"offset": "0"})])  # percentages refer to the viewport of whoever USES the gradient
    inner = _el("svg", attrib, [k1, k2, k3])
    root = _el("svg", {}, [inner, _el("clipPath", {"id": "nested-svg-viewport-0"})])
    svg = SVG(root)
    V = Affine2D(*H.reals("v", 6))
    r2r = []

    def rec_r2r(I, *a):
        a = a[1:] if a and a[0] is Affine2D else a
        r2r.append(a)
        return V

    H.override(Affine2D.__dict__["rect_to_rect"].__func__, rec_r2r)
    H.override(svg_meta.parse_view_box, lambda I, s: s.rect)
    H.override(S.parse_view_box, lambda I, s: s.rect)
    real_unnest = SVG.__dict__["_unnest_svg"]
    recursive = []
    replacement = _el("g", {"id": "unnested-innermost"})

    def rec_unnest(I, self_, el, w_, h_):
        if el is inner:
            return I.call_closure(I.closure_of(real_unnest), (self_, el, w_, h_), {})
        recursive.append((el, w_, h_))
        return (replacement,)

    H.override(real_unnest, rec_unnest)
    res, e = H.catch(SVG._unnest_svg, svg, inner, pw, ph)
    if overflow == "scroll":
        H.prove(isinstance(e, NotImplementedError), "nested.unsupported_overflow_is_refused", detail=repr(e))
        return
    H.prove(e is None, "nested.no_exception", detail=repr(e))
    if e is not None:
        return
    x, y = (xn, yn) if has_xy else (0, 0)
    w, h = (wn, hn) if has_wh else (pw, ph)
    clipped = overflow != "visible"
    ok = isinstance(res, tuple) and len(res) == (2 if clipped else 1)
    H.prove(ok, "nested.overflow_hidden_clips_visible_does_not")
    if not ok:
        return
    g = res[-1] if not clipped else (list(res[1]) or [None])[0]
    H.prove(g is not None and g.tag == SVGNS + "g" and list(g) == [k1, k2, k3] and len(inner) == 0, "nested.children_move_into_an_svg_group_in_order", detail=repr(getattr(g, "tag", None)))
    if g is None:
        return
    H.prove(dict(k3.attrib) == grad_attrib, "nested.gradients_defined_inside_are_not_rewritten", detail=str(dict(k3.attrib)))
    H.prove(all(c.tag.startswith(SVGNS) for c in [g] + ([res[0], res[1]] if clipped else [])), "nested.every_new_element_is_in_the_svg_namespace")
    # an svg element establishes a viewport AND carries presentation attributes for its content, like a group does
    holder_chain = [g] + ([res[1]] if clipped else [])
    carried = {k: next((h.attrib[k] for h in holder_chain if k in h.attrib), None) for k in ("fill", "opacity", "display", "stroke-width")}
    H.prove(carried == {"fill": "red", "opacity": "0.5", "display": "inline", "stroke-width": "3"}, "nested.presentation_attributes_of_the_nested_svg_reach_its_content", detail=str(carried))
    # an svg inside the nested svg is resolved first, against the size of the viewBox it lives in (the viewport's when there is none)
    ok = len(recursive) == 1 and recursive[0][0] is innermost and list(k2) == [replacement]
    H.prove(ok, "nested.inner_svgs_are_unnested_too_in_place")
    if ok:
        ew, eh = (vb.w, vb.h) if has_vb else (wn if has_wh else pw, hn if has_wh else ph)
        H.prove(And(H.close(recursive[0][1], ew), H.close(recursive[0][2], eh)), "nested.inner_svg_sized_by_the_enclosing_viewbox")
    p = (H.real("px"), H.real("py"))
    same = And(x == vb.x, y == vb.y, w == vb.w, h == vb.h) if has_vb else True
    # viewport mapping
    if r2r:
        a = r2r[0]
        ok = len(r2r) == 1 and len(a) == 3 and a[2] == (par or "xMidYMid")
        H.prove(ok, "nested.preserveAspectRatio_defaults_to_xMidYMid")
        if ok:
            H.prove(And(H.close(tuple(a[0]), tuple(vb)), H.close(tuple(a[1]), (x, y, w, h))), "nested.viewbox_onto_viewport_in_that_order_default_size_is_parent_size")
        q = map_pt(V, p)
    else:
        # no mapping asked for: only right without a viewBox (content placed at x, y), or when the viewBox coincides with the viewport -
        # in which case the mapping viewBox -> viewport is the IDENTITY, not a translation by (x, y)
        if has_vb:
            H.prove(same, "nested.viewbox_ignored_only_if_equal_to_the_viewport")
            q = p
        else:
            q = (p[0] + x, p[1] + y)
    if has_tr:
        q = map_pt(tm, q)
    tr = g.attrib.get("transform")
    if tr is None:
        # stated per matrix entry (six small queries instead of one point-mapping query)
        from .spec import mat_mul, translate_m

        total = tuple(V) if r2r else ((1, 0, 0, 1, 0, 0) if has_vb else translate_m(x, y))
        if has_tr:
            total = mat_mul(tuple(tm), total)
        for a_, b_ in zip(total, (1, 0, 0, 1, 0, 0)):
            H.prove(H.close(a_, b_), "nested.no_transform_only_if_placement_is_identity")
    else:
        H.prove(isinstance(tr, _AffTok) and H.close(map_pt(tr.m, p), tuple(q)), "nested.viewbox_onto_viewport_then_own_transform")
    if clipped:
        cp, holder = res
        H.prove(local(cp) == "clipPath" and local(holder) == "g" and holder.attrib.get("clip-path") == f"url(#{cp.attrib.get('id')})" and list(holder) == [g], "nested.group_clipped_through_the_new_clipPath")
        H.prove(cp.attrib.get("id") not in (None, "nested-svg-viewport-0"), "nested.clipPath_id_is_fresh", detail=str(cp.attrib.get("id")))
        rects = list(cp)
        ok = len(rects) == 1 and local(rects[0]) == "rect"
        H.prove(ok, "nested.clip_is_one_rectangle")
        if ok:
            ra = rects[0].attrib
            val = lambda k: num_of(H, ra[k]) if k in ra else 0
            H.prove(And(H.close(val("x"), x), H.close(val("y"), y), H.close(val("width"), w), H.close(val("height"), h)), "nested.clip_rectangle_is_the_viewport")
            H.prove("transform" not in holder.attrib and "transform" not in cp.attrib and "transform" not in ra, "nested.viewport_clip_not_subject_to_the_content_transform")


def _numbers_are_plain(H):
    """symbolic attribute values stand for plain numbers (no unit, no percent sign)"""
    if H.mode == "sym":
        from pyvc.sym import SStr

        H.interp.models[("symattr", SStr, "endswith")] = lambda s, *a: False
        H.ctx.notes.append("symbolic gradient coordinates are plain numbers (percentages are covered by gradient.from_element)")


def _decompose_stub(H, tau):
    """Affine2D.decompose_translation replaced by its proven contract (affine.decompose, C11): (translate(t), linear part)
    with  linear(t) within tau of the translation column"""
    calls = []

    def stub(I, self_):
        tx, ty = H.real(f"tx{len(calls)}"), H.real(f"ty{len(calls)}")
        a, b, c, d, e, f = self_
        H.assume(And(a * tx + c * ty - e <= tau, e - a * tx - c * ty <= tau, b * tx + d * ty - f <= tau, f - b * tx - d * ty <= tau))
        calls.append((self_, tx, ty))
        return Affine2D(1, 0, 0, 1, tx, ty), Affine2D(a, b, c, d, 0, 0)

    H.override(Affine2D.decompose_translation, stub)
    return calls


@obligation(("C06",), "gradient.translation", split=("gradient", ("linear", "radial")), functions=["svg.SVG._apply_gradient_translation", "svg.to_element"])
def gradient_translation(H):
    """_apply_gradient_translation: the translation part of gradientTransform moves into the coordinates.  Afterwards the
    transform has no translation and its linear part is the old one (rounded to 6 digits); every coordinate PAIR - (x1,y1),
    (x2,y2) of a linear gradient, (cx,cy) AND (fx,fy) of a radial one - is shifted by the same vector d with
    linear(d) = old translation column (up to the 6-digit rounding of d); radii, units, spread, id and stops are untouched.
    decompose_translation is used through its contract."""
    if H.mode == "concrete":
        doc = ('<svg xmlns="http://www.w3.org/2000/svg" viewBox="0 0 100 100"><defs><radialGradient id="g" gradientUnits="userSpaceOnUse" cx="10" cy="20" r="5" fx="12" fy="21" fr="1" '
               'gradientTransform="matrix(2 0 0 4 6 8)" spreadMethod="reflect"><stop offset="0"/></radialGradient></defs></svg>')
        svg = SVG.fromstring(doc)
        g = svg.xpath("//svg:radialGradient")[0]
        svg._apply_gradient_translation(g)
        a = g.attrib
        ok = (a["cx"], a["cy"], a["fx"], a["fy"], a["r"], a["fr"]) == ("13", "22", "15", "23", "5", "1") and a["gradientTransform"] == "matrix(2 0 0 4 0 0)" and a["spreadMethod"] == "reflect" and len(g) == 1
        H.prove(ok, "translation.coordinates_shift_so_that_the_canvas_position_is_kept", detail=str(dict(a)))
        return
    fake_tree.install(H)
    _install_transform_tokens(H)
    _numbers_are_plain(H)
    kind = H.case("gradient", ("linear", "radial"))
    tau = 1e-9
    calls = _decompose_stub(H, tau)
    names = ("x1", "y1", "x2", "y2") if kind == "linear" else ("cx", "cy", "fx", "fy", "r", "fr")
    pairs = (("x1", "y1"), ("x2", "y2")) if kind == "linear" else (("cx", "cy"), ("fx", "fy"))
    defaults = {"x1": 0, "y1": 0, "x2": 100, "y2": 0, "cx": 50, "cy": 50, "r": 50, "fr": 0}
    vals, attrib = {}, {"id": "g", "gradientUnits": "userSpaceOnUse", "spreadMethod": "reflect"}
    for n in names:
        if n in ("r", "fr"):
            attrib[n], vals[n] = {"r": ("7.5", 7.5), "fr": ("1.25", 1.25)}[n]  # radii: concrete (they are not touched at all)
        else:
            attrib[n], vals[n] = numstr(H, n)
    mtok, M = _tok(H, "m")
    attrib["gradientTransform"] = mtok
    # stops in document order with offsets that are NOT ascending (legal: a renderer raises each to the running maximum, it never re-orders)
    stop, stop2, stop3 = _el("stop", {"offset": "0.7", "stop-color": "red"}), _el("stop", {"offset": "0.4", "stop-color": "lime"}), _el("stop", {"offset": "1", "stop-color": "blue"})
    g = _el("linearGradient" if kind == "linear" else "radialGradient", attrib, [stop, stop2, stop3])
    root = _el("svg", {"viewBox": "0 0 100 100"}, [_el("defs", {}, [g])])
    svg = SVG(root)
    _, e = H.catch(SVG._apply_gradient_translation, svg, g)
    H.prove(e is None, "translation.no_exception", detail=repr(e))
    if e is not None:
        return
    a = g.attrib
    H.prove(a.get("id") == "g" and a.get("gradientUnits") == "userSpaceOnUse" and a.get("spreadMethod") == "reflect" and list(g) == [stop, stop2, stop3] and [dict(k.attrib) for k in g] == [{"offset": "0.7", "stop-color": "red"}, {"offset": "0.4", "stop-color": "lime"}, {"offset": "1", "stop-color": "blue"}], "translation.id_units_spread_and_stops_untouched", detail=str(dict(a)))

    def val(n):
        if n in a:
            return num_of(H, a[n])
        if n in ("fx", "fy"):
            return val("c" + n[1])
        return defaults[n]

    tr = a.get("gradientTransform")
    Mn = tr.m if isinstance(tr, _AffTok) else Affine2D.identity()
    H.prove(tr is None or isinstance(tr, _AffTok), "translation.transform_written_as_a_matrix")
    H.prove(And(H.close(Mn[4], 0), H.close(Mn[5], 0)), "translation.no_translation_left_in_the_transform")
    for i in range(4):
        H.prove(And(Mn[i] - M[i] <= 5e-7, M[i] - Mn[i] <= 5e-7), "translation.linear_part_kept_up_to_rounding")
    if kind == "radial":
        H.prove(And(H.close(val("r"), vals["r"]), H.close(val("fr"), vals["fr"])), "translation.radii_untouched")
    ma, mb, mc, md, me, mf = M
    absv = lambda v: (v if H.truth(v >= 0) else -v)
    slack_x = (absv(ma) + absv(mc)) * 5e-7 + tau + 1e-12
    slack_y = (absv(mb) + absv(md)) * 5e-7 + tau + 1e-12
    for xn, yn in pairs:
        dx, dy = val(xn) - vals[xn], val(yn) - vals[yn]
        ex, ey = ma * dx + mc * dy - me, mb * dx + md * dy - mf
        H.prove(And(ex <= slack_x, -ex <= slack_x), f"translation.coordinates_shift_so_that_the_canvas_position_is_kept")
        H.prove(And(ey <= slack_y, -ey <= slack_y), f"translation.coordinates_shift_so_that_the_canvas_position_is_kept")
    H.prove(len(calls) == 1, "translation.decomposed_once")


@obligation(("C06", "C08"), "gradient.transformed", functions=["svg.SVG._transformed_gradient", "svg.SVG._new_id", "svg.SVG._add_to_defs", "svg_types._SVGGradient.as_user_space_units"])
def gradient_transformed(H):
    """_transformed_gradient(defs, fill, CTM, bbox): a NEW gradient element is added to defs under an id nothing else uses;
    it is in user space and its gradientTransform maps a point by the source gradient's own transform first, then (for
    objectBoundingBox units) the unit square onto the shape's bounding box, then the shape's CTM - each entry rounded to 6
    digits; stops are copied; the translation is folded afterwards (gradient.translation); the source gradient is untouched."""
    from picosvg.geometric_types import Rect

    from .spec import mat_mul

    if H.mode == "concrete":
        doc = ('<svg xmlns="http://www.w3.org/2000/svg" viewBox="0 0 100 100"><defs><linearGradient id="g" gradientTransform="scale(2)"><stop offset="0"/></linearGradient><linearGradient id="g_0"/></defs></svg>')
        svg = SVG.fromstring(doc)
        src = svg.xpath('//svg:linearGradient[@id="g"]')[0]
        new = svg._transformed_gradient(svg.xpath("//svg:defs")[0], src, Affine2D(0, 1, -1, 0, 0, 0), Rect(10, 20, 30, 40))
        m = tuple(Affine2D.fromstring(new.attrib["gradientTransform"]))
        H.prove(m[:4] == (0.0, 60.0, -80.0, 0.0), "transformed.own_then_bbox_then_ctm", detail=str(dict(new.attrib)))
        H.prove(new.attrib["id"] == "g_1" and len(new) == 1 and src.attrib.get("gradientTransform") == "scale(2)", "transformed.fresh_id_source_untouched")
        return
    fake_tree.install(H)
    fake_tree.install_xpath(H, SVG)
    _install_transform_tokens(H)
    units = H.case("units", ("objectBoundingBox", "userSpaceOnUse", None))
    own = H.case("source_has_gradientTransform", (True, False))
    taken = H.case("first_candidate_id_taken", (True, False))
    gtok, GT = _tok(H, "gt")
    T = Affine2D(*H.reals("t", 6))
    bbox = Rect(*H.reals("bb", 4))
    H.assume(And(bbox.w > 0, bbox.h > 0))
    attrib = {"id": "g", "x1": "0", "y1": "0", "x2": "1", "y2": "0"}
    if units:
        attrib["gradientUnits"] = units
    if own:
        attrib["gradientTransform"] = gtok
    s1, s2 = _el("stop", {"offset": "0", "stop-color": "red"}), _el("stop", {"offset": "1", "stop-color": "blue"})
    src = _el("linearGradient", attrib, [s1, s2])
    before = dict(src.attrib)
    defs = _el("defs", {}, [src] + ([_el("linearGradient", {"id": "g_0"})] if taken else []))
    root = _el("svg", {"viewBox": "0 0 100 100"}, [defs])
    svg = SVG(root)
    folded = []
    H.override(SVG._apply_gradient_translation, lambda I, self_, el: folded.append((el, el.getparent() is not None)))
    new, e = H.catch(SVG._transformed_gradient, svg, defs, src, T, bbox)
    H.prove(e is None, "transformed.no_exception", detail=repr(e))
    if e is not None:
        return
    H.prove(new is not src and local(new) == "linearGradient" and sum(1 for k in defs if k is new) == 1, "transformed.new_element_added_to_defs_once")
    want_id = "g_1" if taken else "g_0"
    H.prove(new.attrib.get("id") == want_id and sum(1 for k in root.iterdescendants() if k.attrib.get("id") == want_id) == 1, "transformed.id_is_fresh", detail=str(new.attrib.get("id")))
    H.prove(dict(src.attrib) == before and list(src) == [s1, s2], "transformed.source_gradient_untouched")
    kids = list(new)
    H.prove(len(kids) == 2 and all(a is not b for a in kids for b in (s1, s2)) and [k.attrib.get("stop-color") for k in kids] == ["red", "blue"], "transformed.stops_are_copied_in_order")
    H.prove(new.attrib.get("gradientUnits") == "userSpaceOnUse", "transformed.result_is_in_user_space", detail=str(new.attrib.get("gradientUnits")))
    H.prove(len(folded) == 1 and folded[0][0] is new, "transformed.translation_folded_on_the_new_gradient")
    # expected matrix, entry by entry
    exp = tuple(GT) if own else (1, 0, 0, 1, 0, 0)
    if units != "userSpaceOnUse":
        exp = mat_mul((bbox.w, 0, 0, bbox.h, bbox.x, bbox.y), exp)
    exp = mat_mul(tuple(T), exp)
    tr = new.attrib.get("gradientTransform")
    got = tuple(tr.m) if isinstance(tr, _AffTok) else (1, 0, 0, 1, 0, 0)
    for i in range(6):
        H.prove(And(got[i] - exp[i] <= 5e-7, exp[i] - got[i] <= 5e-7), "transformed.own_then_bbox_then_ctm")


@obligation(("C19",), "viewbox.clip", functions=["svg.SVG.clip_to_viewbox", "svg.SVG._elements", "svg.SVG._set_element", "svg.SVG._update_etree", "geometric_types.Rect.intersection"])
def viewbox_clip(H):
    """clip_to_viewbox(inplace=True) on one rectangle: a shape whose bounding box misses the viewBox is removed; one that
    lies inside is left exactly as it was; one that straddles the border is replaced by the intersection of its outline
    (under its own fill rule) with the rectangle  bounding box INTERSECT viewBox  (clip rule of a plain rectangle), written
    back as a nonzero path in the same place."""
    import dataclasses

    from picosvg.geometric_types import Rect
    from picosvg import svg_meta
    from picosvg.svg_types import SVGPath, SVGRect, SVGShape
    from pyvc.sym import smax, smin

    if H.mode == "concrete":
        doc = '<svg xmlns="http://www.w3.org/2000/svg" viewBox="10 10 50 50"><rect x="0" y="20" width="30" height="10"/><rect x="70" y="0" width="5" height="5"/><rect x="20" y="20" width="5" height="5"/></svg>'
        out = SVG.fromstring(doc).clip_to_viewbox()
        bbs = [s.bounding_box() for s in out.shapes()]
        H.prove(len(bbs) == 2 and abs(bbs[0].x - 10) < 1e-9 and abs(bbs[0].w - 20) < 1e-9 and bbs[1] == Rect(20, 20, 5, 5), "viewbox.clip_rectangle_is_bbox_intersect_viewbox", detail=str(bbs))
        return
    fake_tree.install(H)
    fake_tree.install_xpath(H, SVG)
    where = H.case("rect_is", ("outside", "inside", "straddling"))
    vb = Rect(*H.reals("vb", 4))
    H.assume(And(vb.w > 0, vb.h > 0))
    xs, x = numstr(H, "x")
    ys, y = numstr(H, "y")
    ws, w = numstr(H, "w")
    hs, h = numstr(H, "h")
    H.assume(And(w > 0, h > 0))
    ix0, iy0 = smax(x, vb.x), smax(y, vb.y)
    ix1, iy1 = smin(x + w, vb.x + vb.w), smin(y + h, vb.y + vb.h)
    overlap = And(ix1 > ix0, iy1 > iy0)
    inside = And(x >= vb.x, y >= vb.y, x + w <= vb.x + vb.w, y + h <= vb.y + vb.h)
    H.assume({"outside": Or(ix1 < ix0, iy1 < iy0), "inside": inside, "straddling": And(overlap, Not(inside))}[where])
    rect = _el("rect", {"x": xs, "y": ys, "width": ws, "height": hs, "fill-rule": "evenodd", "fill": "red"})
    before_attrib = dict(rect.attrib)
    neighbour = _el("path", {"d": "M0,0"})
    holder = _el("g", {"opacity": "0.5"}, [neighbour, rect])
    root = _el("svg", {"viewBox": _VBTok(vb)}, [holder])
    svg = SVG(root)
    H.override(svg_meta.parse_view_box, lambda I, s: s.rect)
    H.override(S.parse_view_box, lambda I, s: s.rect)
    as_path_calls, inter = [], []

    def rec_as_path(I, self_):
        as_path_calls.append(self_)
        return SVGPath(d="M1,1 L2,2 L3,1 Z", fill_rule=self_.fill_rule, clip_rule=self_.clip_rule, fill=self_.fill)

    def rec_intersection(I, shapes, fill_rules=None):
        shapes = tuple(shapes)
        inter.append((shapes, tuple(fill_rules) if fill_rules is not None else None))
        return (("M", (0.0, 0.0)), ("L", (2.0, 0.0)), ("L", (2.0, 2.0)), ("Z", ()))

    H.override(SVGRect.as_path, rec_as_path)
    H.override(S.intersection, rec_intersection)
    # bounds come from Skia (assumed contract, section 3.2 / pathops.bounding_box of C13): a rectangle's outline is bounded by the
    # rectangle itself; the neighbour path fills the viewBox exactly and must therefore be left alone
    H.override(SVGShape.bounding_box, lambda I, self_: Rect(self_.x, self_.y, self_.width, self_.height) if isinstance(self_, SVGRect) else Rect(vb.x, vb.y, vb.w, vb.h))
    res, e = H.catch(SVG.clip_to_viewbox, svg, inplace=True)
    H.prove(e is None and res is svg, "viewbox.no_exception_returns_self", detail=repr(e))
    if e is not None:
        return
    kids = [k for k in root.iterdescendants() if local(k) in ("rect", "path") and k is not neighbour and k.attrib.get("d") != "M0,0"]
    if where == "outside":
        H.prove(not kids and not inter, "viewbox.shape_outside_is_removed", detail=str([local(k) for k in root.iterdescendants()]))
        # the opacity group is left with one child: it must not survive as a one-child group (the pico grammar), its opacity goes to the child
        top = [k for k in root if isinstance(k.tag, str)]
        ok = len(top) == 1 and local(top[0]) == "path" and top[0].attrib.get("opacity") == "0.5"
        H.prove(ok, "viewbox.group_left_with_one_child_is_dissolved_and_hands_its_opacity_down", detail=str([(local(k), dict(k.attrib)) for k in root.iterdescendants()]))
        return
    if where == "inside":
        ok = not inter and len(kids) == 1 and local(kids[0]) == "rect" and kids[0].getparent() is holder
        H.prove(ok, "viewbox.shape_inside_is_left_alone", detail=str([dict(k.attrib) for k in kids]))
        if ok:
            # the cache writes every shape back: the same rectangle (numbers re-printed, zero coordinates omitted), same paint
            a = kids[0].attrib
            val = lambda k: num_of(H, a[k]) if k in a else 0
            H.prove(And(H.close(val("x"), x), H.close(val("y"), y), H.close(val("width"), w), H.close(val("height"), h)), "viewbox.shape_inside_is_left_alone")
            H.prove(a.get("fill") == "red" and a.get("fill-rule") == "evenodd", "viewbox.shape_inside_is_left_alone", detail=str(dict(a)))
        return
    H.prove(len(inter) == 1, "viewbox.straddling_shape_is_intersected_once", detail=str(len(inter)))
    if len(inter) != 1:
        return
    shapes, rules = inter[0]
    clip_rects = [r for r in as_path_calls if r.fill_rule != "evenodd"]
    ok = len(shapes) == 2 and len(clip_rects) == 1 and rules == ("evenodd", "nonzero")
    H.prove(ok, "viewbox.shape_under_its_fill_rule_clip_under_plain_rule", detail=str(rules))
    if ok:
        c = clip_rects[0]
        H.prove(And(H.close(c.x, ix0), H.close(c.y, iy0), H.close(c.width, ix1 - ix0), H.close(c.height, iy1 - iy0)), "viewbox.clip_rectangle_is_bbox_intersect_viewbox")
        H.prove(And(H.close(c.rx, 0), H.close(c.ry, 0)), "viewbox.clip_rectangle_has_square_corners")
    H.prove(len(kids) == 1 and local(kids[0]) == "path" and kids[0].getparent() is holder and list(holder)[1] is kids[0], "viewbox.clipped_shape_written_back_in_place", detail=str([local(k) for k in holder]))
    if len(kids) == 1:
        a = kids[0].attrib
        H.prove(a.get("d", "").replace(" ", "").startswith("M0,0L2,0") and a.get("fill-rule", "nonzero") == "nonzero" and a.get("fill") == "red", "viewbox.result_is_the_intersection_nonzero_paint_kept", detail=str(dict(a)))


_DEFS_IDS = ("b", "d", "f")


@obligation(("C07", "C08"), "defs.insert_position", functions=["svg.SVG._add_to_defs"])
def defs_insert_position(H):
    """_add_to_defs keeps a defs that is sorted by id sorted: the new element goes right before the first entry with a
    greater id, after everything when there is none; an element without id is not added; nothing else moves.  (Exhaustive
    over defs of 0-3 entries and every relative position of the new id - the scan is a plain loop over the children, the
    ids are concrete strings; the order must not depend on the insertion sequence, or pass 1 and pass 2 of a conversion
    produce different documents.)"""
    n = H.case("entries", (0, 1, 2, 3))
    new_id = H.case("new_id", ("a", "c", "e", "g", None))
    if H.mode == "concrete":
        from lxml import etree

        mk = lambda i: etree.Element(SVGNS + "linearGradient", {"id": i} if i else {})
    else:
        fake_tree.install(H)
        mk = lambda i: _el("linearGradient", {"id": i} if i else {})
    existing = [mk(i) for i in _DEFS_IDS[:n]]
    defs = mk(None)
    defs.tag = SVGNS + "defs"
    for e_ in existing:
        defs.append(e_)
    new = mk(new_id)
    svg = SVG(defs)
    _, e = H.catch(SVG._add_to_defs, svg, defs, new)
    H.prove(e is None, "defs.no_exception", detail=repr(e))
    kids = list(defs)
    if new_id is None:
        H.prove(kids == existing, "defs.element_without_id_is_not_added")
        return
    rest = [k for k in kids if k is not new]
    H.prove(len(kids) == n + 1 and all(a is b for a, b in zip(rest, existing)), "defs.added_once_nothing_else_moves")
    ids = [k.attrib.get("id") for k in kids]
    greater = [i for i in _DEFS_IDS[:n] if i > new_id]
    if greater:
        H.prove(ids == sorted(ids), "defs.new_element_goes_before_the_first_greater_id", detail=str(ids))
    else:
        H.prove(ids == sorted(ids), "defs.greater_than_all_goes_last", detail=str(ids))


@obligation(("C08", "C02", "C03"), "nested.siblings", functions=["svg.SVG.resolve_nested_svgs", "svg.SVG._unnest_svg", "svg.SVG._swap_elements", "svg.SVG._new_id"])
def nested_siblings(H):
    """resolve_nested_svgs with several nested svgs on one level (two siblings at the root, one inside a group) and one
    clipPath id of the same family already taken: every viewport clipPath gets an id of its own (each choice of a fresh id
    must see the clipPaths inserted before it), every clipping group refers to ITS clipPath, whose rectangle is ITS viewport;
    the nested svgs are gone, their content is where they were; the receiver is returned."""
    if H.mode == "concrete":
        doc = ('<svg xmlns="http://www.w3.org/2000/svg" viewBox="0 0 100 100"><svg x="1" y="2" width="10" height="10"><rect width="5" height="5"/></svg><g><svg x="30" width="20" height="20"><rect width="5" height="5"/></svg></g>'
               '<svg x="60" y="60" width="30" height="30"><rect width="5" height="5"/></svg></svg>')
        out = SVG.fromstring(doc).resolve_nested_svgs()
        ids = [e.attrib["id"] for e in out.xpath("//svg:clipPath")]
        H.prove(len(ids) == 3 and len(set(ids)) == 3, "nested.every_viewport_clip_has_its_own_id", detail=str(ids))
        return
    fake_tree.install(H)
    fake_tree.install_xpath(H, SVG)
    _install_transform_tokens(H)
    mk = lambda x, y, w, h, tag: _el("svg", {"x": x, "y": y, "width": w, "height": h}, [_el("path", {"d": "M0,0", "id": tag})])
    a, b, c = mk("1", "2", "10", "11", "pa"), mk("30", "0", "20", "21", "pb"), mk("60", "61", "30", "31", "pc")
    group = _el("g", {"opacity": "0.5"}, [b])
    taken = _el("clipPath", {"id": "nested-svg-viewport-0"}, [_el("rect", {"width": "1", "height": "1"})])
    root = _el("svg", {"viewBox": "0 0 100 100"}, [taken, a, group, c])
    svg = SVG(root)
    res, e = H.catch(SVG.resolve_nested_svgs, svg, inplace=True)
    H.prove(e is None and res is svg, "nested.no_exception_returns_the_receiver", detail=repr(e))
    if e is not None:
        return
    everything = list(root.iterdescendants())
    H.prove(not any(local(k) == "svg" for k in everything), "nested.no_nested_svg_left")
    cps = [k for k in everything if local(k) == "clipPath" and k is not taken]
    ids = [k.attrib.get("id") for k in cps]
    H.prove(len(cps) == 3 and len(set(ids + ["nested-svg-viewport-0"])) == 4, "nested.every_viewport_clip_has_its_own_id", detail=str(ids))
    for tag, (x, y, w, h), parent in (("pa", (1, 2, 10, 11), root), ("pb", (30, 0, 20, 21), group), ("pc", (60, 61, 30, 31), root)):
        leaf = next((k for k in everything if k.attrib.get("id") == tag), None)
        chain = []
        k = leaf
        while k is not None and k is not parent:
            chain.append(k)
            k = k.getparent()
        holders = [k for k in chain if "clip-path" in k.attrib]
        ok = leaf is not None and k is parent and len(holders) == 1
        H.prove(ok, "nested.content_stays_where_the_nested_svg_was_under_one_clipping_group", detail=tag)
        if not ok:
            continue
        ref = holders[0].attrib["clip-path"]
        mine = [cp for cp in cps if f"url(#{cp.attrib.get('id')})" == ref]
        ok = len(mine) == 1 and len(mine[0]) == 1 and local(list(mine[0])[0]) == "rect"
        H.prove(ok, "nested.clipping_group_refers_to_its_own_clipPath", detail=f"{tag}: {ref} among {ids}")
        if ok:
            ra = list(mine[0])[0].attrib
            val = lambda n: float(ra[n]) if n in ra else 0.0
            H.prove((val("x"), val("y"), val("width"), val("height")) == (x, y, w, h), "nested.own_clipPath_is_the_own_viewport", detail=str(dict(ra)))



@obligation(("C08", "C02"), "use.ids", functions=["svg.SVG._resolve_use"])
def use_ids(H):
    """Instantiating a <use> never duplicates an id: EVERY element of the copy loses its id - shapes, groups and gradients
    alike (a gradient that lives inside the target would otherwise exist twice under one id, and whatever resolves
    url(#id) afterwards finds two elements, or none once both are swept)."""
    if H.mode == "concrete":
        doc = ('<svg xmlns="http://www.w3.org/2000/svg" xmlns:xlink="http://www.w3.org/1999/xlink" viewBox="0 0 9 9"><defs><linearGradient id="base"><stop offset="0" stop-color="red"/></linearGradient>'
               '<g id="t"><linearGradient id="shine" xlink:href="#base"/><rect id="r" width="2" height="2" fill="url(#shine)"/></g></defs><use xlink:href="#t"/><use xlink:href="#t" x="3"/></svg>')
        out = SVG.fromstring(doc).resolve_use()
        ids = [e.attrib["id"] for e in out.svg_root.iter() if "id" in e.attrib]
        H.prove(len(ids) == len(set(ids)), "use.no_id_occurs_twice_after_instantiation", detail=str(ids))
        return
    fake_tree.install(H)
    fake_tree.install_xpath(H, SVG)
    _install_transform_tokens(H)
    placed = H.case("use_has_xy", (False, True))
    tpl = _el("g", {"id": "t"}, [_el("linearGradient", {"id": "shine", XLINK: "#base"}), _el("rect", {"id": "r", "width": "2", "height": "2", "fill": "url(#shine)"}), _el("g", {"id": "inner"}, [_el("path", {"id": "p", "d": "M0,0"})])])
    base = _el("linearGradient", {"id": "base"}, [_el("stop", {"offset": "0", "id": "s0"})])
    u1 = _el("use", dict({XLINK: "#t"}, **({"x": "3", "y": "4"} if placed else {})))
    u2 = _el("use", {XLINK: "#t"})
    root = _el("svg", {}, [_el("defs", {}, [base, tpl]), u1, u2])
    svg = SVG(root)
    _, e = H.catch(SVG._resolve_use, svg, root)
    H.prove(e is None, "use.no_exception", detail=repr(e))
    if e is not None:
        return
    ids = [k.attrib["id"] for k in root.iterdescendants() if "id" in k.attrib]
    H.prove(sorted(ids) == sorted(["base", "s0", "t", "shine", "r", "inner", "p"]), "use.no_id_occurs_twice_after_instantiation", detail=str(ids))
    H.prove(not any(local(k) == "use" for k in root.iterdescendants()), "use.every_use_is_instantiated")
    H.prove(sum(1 for k in root.iterdescendants() if local(k) == "rect") == 3 and sum(1 for k in root.iterdescendants() if local(k) == "linearGradient") == 4, "use.whole_subtree_is_copied_each_time")


@obligation(("C19", "C15", "C02", "C06", "C04"), "state.viewbox_is_read_from_the_tree", functions=["svg.SVG.view_box", "svg.SVG.set_attributes", "svg.SVG.remove_attributes"])
def viewbox_fresh(H):
    """view_box() answers for the root element AS IT IS NOW: after the viewBox (or width / height) was changed in place - by
    set_attributes, remove_attributes or directly on the element - the next answer is the new rectangle (a remembered answer
    would make clip_to_viewbox, nested svg sizing and gradient percentages work on a canvas the document no longer has)."""
    from picosvg.geometric_types import Rect

    how = H.case("changed_by", ("set_attributes", "remove_attributes", "direct edit"))
    if H.mode == "sym":
        fake_tree.install(H)
        fake_tree.install_xpath(H, SVG)
        root = _el("svg", {"viewBox": "0 0 100 100", "width": "30", "height": "40"}, [_el("rect", {"width": "1", "height": "1"})])
        svg = SVG(root)
        H.override(SVG.xpath, lambda I, self_, q, el=None, expected_result_range=None: [self_.svg_root] if q in ("/svg:svg", "/svg:svg[1]") else [])
    else:
        svg = SVG.fromstring('<svg xmlns="http://www.w3.org/2000/svg" viewBox="0 0 100 100" width="30" height="40"><rect width="1" height="1"/></svg>')
        root = svg.svg_root
    first = H.call(SVG.view_box, svg)
    H.prove(first == Rect(0, 0, 100, 100), "viewbox.first_answer")
    tol_of = getattr(type(svg), "tolerance").fget
    tol_first = H.call(tol_of, svg)  # everything that reads the view box on the way
    if how == "set_attributes":
        _, e = H.catch(SVG.set_attributes, svg, (("viewBox", "20 30 50 40"),), inplace=True)
        want = Rect(20, 30, 50, 40)
    elif how == "remove_attributes":
        _, e = H.catch(SVG.remove_attributes, svg, ("viewBox",), inplace=True)
        want = Rect(0, 0, 30, 40)
    else:
        svg.svg_root.attrib["viewBox"] = "1 2 3 4"
        e, want = None, Rect(1, 2, 3, 4)
    H.prove(e is None, "viewbox.edit_succeeds", detail=repr(e))
    got = H.call(SVG.view_box, svg)
    H.prove(got == want, "viewbox.answer_follows_the_tree", detail=f"{got} vs {want}")
    # the stroker's tolerance is a fixed fraction of the smaller side of the CURRENT view box (a remembered one outlines round caps and
    # joins of the re-framed document with the precision of the old canvas)
    tol = H.call(tol_of, svg)
    ratio = tol_first / 100.0  # min(100, 100) * pct / 100 on the first canvas
    H.prove(abs(float(tol) - min(want.w, want.h) * ratio) <= 1e-9, "tolerance.follows_the_current_view_box", detail=f"{tol} vs {min(want.w, want.h) * ratio}")
