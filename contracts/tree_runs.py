"""Tree-walking functions of svg.py executed symbolically over a model of the element tree (fake_tree.FakeElement:
attrib = ordered dict, children = ordered list with parent pointers; XPath answered for the few queries used - the
assumed contract of lxml, DESIGN 3.6).  Numbers in attributes and transform matrices are symbolic; the tree shape and
the attribute names are case-split.  These replace "trust the call-site pattern" by "run the real function":

  use.instance      SVG._resolve_use: where an instance lands (target transform, then translate(x, y), then the use's
                    transform), which paint / opacity it gets (own value wins, opacity multiplies ONCE), ids stripped
  clip.region       SVG._resolve_clip_path: children placed with (own, clipPath, CTM) transforms, union of children,
                    nested clip resolved with the composed transform and intersected
  gradient.template SVG._apply_gradient_template: attributes / stops taken from the href chain, own values win
"""
from __future__ import annotations

from picosvg import svg as S
from picosvg.svg import SVG
from picosvg.svg_transform import Affine2D
from picosvg.svg_types import SVGPath, SVGShape

from pyvc.registry import obligation
from pyvc.sym import And, Or

from . import fake_tree
from .c06_gradients import _AffTok, _install_transform_tokens
from .fake_tree import SVGNS, FakeElement, local, num_of, numstr
from .spec import map_pt

XLINK = "{http://www.w3.org/1999/xlink}href"


def _tok(H, prefix):
    m = Affine2D(*H.reals(prefix, 6))
    return _AffTok(m), m


def _el(tag, attrib=None, children=()):
    return FakeElement(SVGNS + tag, attrib, children)


@obligation(("C02", "C05", "C08"), "use.instance", functions=["svg.SVG._resolve_use", "svg._try_remove_group", "svg._inherit_attrib", "svg._inherit_matrix_multiply"])
def use_instance(H):
    """Every <use> is replaced, in place, by a copy of its target: a point of the target is mapped by the target's own
    transform, then translate(x, y), then the use's transform; the copy keeps its own paint, otherwise takes the use's;
    opacity is the product of both (once); ids do not survive on the copy; the original stays."""
    if H.mode == "concrete":
        doc = ('<svg xmlns="http://www.w3.org/2000/svg" xmlns:xlink="http://www.w3.org/1999/xlink"><defs><rect id="t" width="4" height="4" opacity="0.8" transform="scale(2)"/></defs>'
               '<g><use xlink:href="#t" x="3" y="5" transform="rotate(90)" opacity="0.5" fill="red"/></g></svg>')
        svg = SVG.fromstring(doc).resolve_use()
        el = svg.xpath("//svg:g/svg:rect")[0]
        m = tuple(round(v, 6) for v in Affine2D.fromstring(el.attrib["transform"]))
        H.prove(m == (0.0, 2.0, -2.0, 0.0, -5.0, 3.0), "use.point_goes_through_target_then_translate_then_use_transform", detail=str(m))
        H.prove(abs(float(el.attrib["opacity"]) - 0.4) < 1e-9 and el.attrib.get("fill") == "red" and "id" not in el.attrib, "use.opacity_multiplied_once")
        return
    fake_tree.install(H)
    fake_tree.install_xpath(H, SVG)
    _install_transform_tokens(H)
    has_xy = H.case("use_has_xy", (True, False))
    use_tr = H.case("use_has_transform", (True, False))
    tgt_tr = H.case("target_has_transform", (True, False))
    tgt_fill = H.case("target_has_fill", (True, False))
    use_op = H.case("use_has_opacity", (True, False))
    xs, xn = numstr(H, "x")
    ys, yn = numstr(H, "y")
    uos, uon = numstr(H, "uo")
    tos, ton = numstr(H, "to")
    utok, um = _tok(H, "u")
    ttok, tm = _tok(H, "t")
    tattr = {"id": "t", "width": "4", "height": "4", "opacity": tos}
    if tgt_tr:
        tattr["transform"] = ttok
    if tgt_fill:
        tattr["fill"] = "blue"
    target = _el("rect", tattr)
    uattr = {XLINK: "#t", "fill": "red", "width": "9", "height": "9"}
    if has_xy:
        uattr.update(x=xs, y=ys)
    if use_tr:
        uattr["transform"] = utok
    if use_op:
        uattr["opacity"] = uos
    use = _el("use", uattr)
    before, after = _el("path", {"d": "M0,0"}), _el("path", {"d": "M1,1"})
    holder = _el("g", {"id": "holder"}, [before, use, after])
    root = _el("svg", {}, [_el("defs", {}, [target]), holder])
    svg = SVG(root)
    _, e = H.catch(SVG._resolve_use, svg, root)
    H.prove(e is None, "use.no_exception", detail=repr(e))
    if e is not None:
        return
    kids = list(holder)
    ok = len(kids) == 3 and kids[0] is before and kids[2] is after and local(kids[1]) == "rect" and kids[1] is not target
    H.prove(ok, "use.instance_takes_the_place_of_the_use_element")
    if not ok:
        return
    inst = kids[1]
    H.prove("id" not in inst.attrib and target.attrib.get("id") == "t" and list(list(root)[0])[0] is target, "use.copy_has_no_id_original_untouched")
    H.prove(XLINK not in inst.attrib and all(k not in inst.attrib for k in ("x", "y")) and inst.attrib.get("width") == "4", "use.placement_attributes_not_copied_onto_the_instance")
    H.prove(inst.attrib.get("fill") == ("blue" if tgt_fill else "red"), "use.own_paint_wins_otherwise_the_use_paint")
    want_op = ton * (uon if use_op else 1)
    H.prove(H.close(num_of(H, inst.attrib["opacity"]), want_op), "use.opacity_multiplied_once")
    p = (H.real("px"), H.real("py"))
    q = map_pt(tm, p) if tgt_tr else p
    if has_xy:
        q = (q[0] + xn, q[1] + yn)
    if use_tr:
        q = map_pt(um, q)
    tr = inst.attrib.get("transform")
    if tr is None:
        # no transform left on the instance: only right if the whole placement is the identity matrix
        # (stated per matrix entry - six small queries instead of one point-mapping query)
        from .spec import mat_mul, translate_m

        total = tuple(tm) if tgt_tr else (1, 0, 0, 1, 0, 0)
        if has_xy:
            total = mat_mul(translate_m(xn, yn), total)
        if use_tr:
            total = mat_mul(tuple(um), total)
        for i, (a, b) in enumerate(zip(total, (1, 0, 0, 1, 0, 0))):
            H.prove(H.close(a, b), "use.no_transform_only_if_placement_is_identity")
    else:
        H.prove(isinstance(tr, _AffTok) and H.close(map_pt(tr.m, p), tuple(q)), "use.point_goes_through_target_then_translate_then_use_transform")


@obligation(("C03",), "clip.region", functions=["svg.SVG._resolve_clip_path", "svg._element_transform", "svg.from_element"])
def clip_region(H):
    """_resolve_clip_path(url, CTM): child i is placed by (its own transform, the clipPath's transform, the CTM) in that
    order; the region is the union of the children; a clip-path on the clipPath is resolved with (clipPath transform, CTM)
    and intersected with it."""
    if H.mode == "concrete":
        doc = ('<svg xmlns="http://www.w3.org/2000/svg" viewBox="0 0 100 100"><defs><clipPath id="inner"><rect x="0" y="10" width="100" height="30"/></clipPath>'
               '<clipPath id="outer" transform="translate(40 0)" clip-path="url(#inner)"><rect x="0" y="0" width="20" height="100"/></clipPath></defs></svg>')
        clip = SVG.fromstring(doc)._resolve_clip_path("url(#outer)")
        bb = clip.bounding_box()
        H.prove(abs(bb.x - 40) < 1e-6 and abs(bb.y - 10) < 1e-6 and abs(bb.w - 20) < 1e-6 and abs(bb.h - 30) < 1e-6, "clip.nested_clip_resolved_with_composed_transform", detail=str(bb))
        return
    fake_tree.install(H)
    fake_tree.install_xpath(H, SVG)
    _install_transform_tokens(H)
    nested = H.case("clipPath_has_own_clip", (True, False))
    cp_tr = H.case("clipPath_has_transform", (True, False))
    child_tr = H.case("child_has_transform", (True, False))
    ctm = Affine2D(*H.reals("ctm", 6))
    cptok, cpm = _tok(H, "cp")
    chtok, chm = _tok(H, "ch")
    in_tok, inm = _tok(H, "in")
    c1 = _el("rect", dict({"width": "3", "height": "4"}, **({"transform": chtok} if child_tr else {})))
    c2 = _el("circle", {"r": "5"})
    attrs = {"id": "outer"}
    if cp_tr:
        attrs["transform"] = cptok
    if nested:
        attrs["clip-path"] = "url(#inner)"
    outer = _el("clipPath", attrs, [c1, c2])
    inner = _el("clipPath", {"id": "inner", "transform": in_tok}, [_el("rect", {"width": "7", "height": "8"})])
    root = _el("svg", {}, [_el("defs", {}, [outer, inner])])
    svg = SVG(root)
    placed = []

    def fake_apply(I, shape, matrix):
        placed.append((shape, matrix))
        return ("placed", len(placed) - 1)

    ops = []

    def fake_union(I, shapes):
        ops.append(("union", list(shapes)))
        return ("union", len(ops) - 1)

    def fake_intersection(I, shapes, fill_rules=None):
        ops.append(("intersection", list(shapes), fill_rules))
        return ("intersection", len(ops) - 1)

    H.override(SVGShape.apply_transform, fake_apply)
    H.override(S.union, fake_union)
    H.override(S.intersection, fake_intersection)
    H.override(SVGPath.from_commands.__func__, lambda I, cls, cmds: ("path-of", cmds))
    H.override(SVG._resolve_use, lambda I, self, scope: None)
    res, e = H.catch(SVG._resolve_clip_path, svg, "url(#outer)", ctm)
    H.prove(e is None, "clip.no_exception", detail=repr(e))
    if e is not None:
        return
    p = (H.real("px"), H.real("py"))

    def through(ms, q):
        for m in ms:
            q = map_pt(m, q)
        return q

    n_outer = 2
    ok = len(placed) == n_outer + (1 if nested else 0)
    H.prove(ok, "clip.every_child_is_placed_once")
    if not ok:
        return
    chain_outer = ([cpm] if cp_tr else []) + [ctm]
    H.prove(type(placed[0][0]).__name__ == "SVGRect" and type(placed[1][0]).__name__ == "SVGCircle", "clip.children_read_in_document_order")
    H.prove(H.close(map_pt(placed[0][1], p), through(([chm] if child_tr else []) + chain_outer, p)), "clip.child_placed_by_own_then_clipPath_then_CTM")
    H.prove(H.close(map_pt(placed[1][1], p), through(chain_outer, p)), "clip.untransformed_child_placed_by_clipPath_then_CTM")
    if nested:
        # the inner clipPath is resolved in the coordinate system of the outer one: (inner transform, outer transform, CTM)
        H.prove(H.close(map_pt(placed[2][1], p), through([inm] + chain_outer, p)), "clip.nested_clip_resolved_with_composed_transform")
        kinds = [o[0] for o in ops]
        H.prove(kinds == ["union", "union", "intersection"] and res == ("path-of", ("intersection", 2)), "clip.region_is_union_of_children_intersected_with_nested_clip")
        if kinds == ["union", "union", "intersection"]:
            a, b = ops[2][1]
            H.prove(a == ("path-of", ("union", 0)) and b == ("path-of", ("union", 1)) and ops[2][2] is None, "clip.intersection_of_the_two_clip_regions_under_clip_rule")
    else:
        H.prove([o[0] for o in ops] == ["union"] and res == ("path-of", ("union", 0)), "clip.region_is_union_of_children")
    H.prove(ops[0][1] == [("placed", 0), ("placed", 1)], "clip.union_over_all_children_in_order")


@obligation(("C06",), "gradient.template", functions=["svg.SVG._apply_gradient_template"])
def gradient_template(H):
    """href templates: every attribute the gradient does not set itself comes from the nearest template in the chain that
    sets it (however long the chain, whichever link carries the stops); stops are taken from the template only if the
    gradient has none, without ids; the href is removed."""
    if H.mode == "concrete":
        doc = ('<svg xmlns="http://www.w3.org/2000/svg" xmlns:xlink="http://www.w3.org/1999/xlink"><defs><linearGradient id="base" gradientUnits="userSpaceOnUse" x1="10" spreadMethod="reflect"/>'
               '<linearGradient id="mid" xlink:href="#base"><stop offset="0" stop-color="red"/></linearGradient><linearGradient id="top" xlink:href="#mid"/></defs></svg>')
        svg = SVG.fromstring(doc)
        top = svg.xpath('//svg:linearGradient[@id="top"]')[0]
        svg._apply_gradient_template(top)
        H.prove(top.attrib.get("x1") == "10" and top.attrib.get("gradientUnits") == "userSpaceOnUse" and top.attrib.get("spreadMethod") == "reflect" and len(top) == 1,
                "template.attributes_come_from_the_whole_chain", detail=str(dict(top.attrib)))
        return
    fake_tree.install(H)
    fake_tree.install_xpath(H, SVG)
    stops_at = H.case("stops_at", ("base", "mid", "top", "mid and base"))
    own_x1 = H.case("top_sets_x1", (True, False))
    stop = lambda c: _el("stop", {"offset": "0", "stop-color": c, "id": "s-" + c})
    base = _el("linearGradient", {"id": "base", "gradientUnits": "userSpaceOnUse", "x1": "10", "y1": "1", "spreadMethod": "reflect"}, [stop("red")] if "base" in stops_at else [])
    mid = _el("linearGradient", {"id": "mid", XLINK: "#base", "y1": "2"}, [stop("lime")] if "mid" in stops_at else [])
    top = _el("linearGradient", dict({"id": "top", XLINK: "#mid"}, **({"x1": "77"} if own_x1 else {})), [stop("blue")] if stops_at == "top" else [])
    root = _el("svg", {}, [_el("defs", {}, [base, mid, top])])
    svg = SVG(root)
    H.override(SVG.xpath_one, lambda I, self, q: I.call_value(SVG.xpath, (self, q), {"expected_result_range": range(1, 2)})[0])
    _, e = H.catch(SVG._apply_gradient_template, svg, top)
    H.prove(e is None, "template.no_exception", detail=repr(e))
    if e is not None:
        return
    a = top.attrib
    H.prove(XLINK not in a, "template.href_removed")
    H.prove(a.get("x1") == ("77" if own_x1 else "10"), "template.own_value_wins_else_inherited_through_the_whole_chain")
    H.prove(a.get("y1") == "2" and a.get("gradientUnits") == "userSpaceOnUse" and a.get("spreadMethod") == "reflect", "template.attributes_come_from_the_whole_chain")
    H.prove(a.get("id") == "top", "template.id_kept")
    want = {"base": "red", "mid": "lime", "top": "blue", "mid and base": "lime"}[stops_at]
    kids = list(top)
    H.prove(len(kids) == 1 and kids[0].attrib.get("stop-color") == want, "template.stops_from_nearest_template_that_has_some")
    if kids and stops_at != "top":
        H.prove("id" not in kids[0].attrib and kids[0] is not (list(mid) or list(base) or [None])[0], "template.copied_stops_are_copies_without_ids")
