"""Effect-order and argument-binding obligations on the real AST (DESIGN 5.1 / 5.2): the pipeline of SVG.topicosvg,
the per-shape order inside SVG._simplify, and the command line.  Partial orders, so re-ordering independent steps
stays green.  Serves C01, C04, C05, C07, C08, C14.
"""
from __future__ import annotations

import ast

from pyvc.registry import ComponentResult, Finding, component

import os as _os

_REPO = _os.environ.get("PYVC_REPO", "/repo")
SVG_PY = _REPO + "/src/picosvg/svg.py"
CLI_PY = _REPO + "/src/picosvg/picosvg.py"

STRIP = ("remove_nonsvg_content", "remove_processing_instructions", "remove_anonymous_symbols", "remove_title_meta_desc")
SHAPE_REMOVING = ("remove_unpainted_shapes", "clip_to_viewbox")


def _method(cls, name):
    return next(n for n in cls.body if isinstance(n, ast.FunctionDef) and n.name == name)


def _svg_class():
    tree = ast.parse(open(SVG_PY).read(), SVG_PY)
    return next(n for n in tree.body if isinstance(n, ast.ClassDef) and n.name == "SVG")


def _inplace_region(fn):
    body = list(fn.body)
    for i, st in enumerate(body):
        if isinstance(st, ast.If) and isinstance(st.test, ast.UnaryOp) and isinstance(st.test.operand, ast.Name) and st.test.operand.id == "inplace":
            return st.body, body[:i] + st.orelse + body[i + 1:]
    return [], body


def _self_calls_top_level(stmts):
    """[(name, call node, statement index, conditional?)] for self.<name>(...) calls, in source order"""
    out = []
    for i, st in enumerate(stmts):
        cond = isinstance(st, (ast.If, ast.For, ast.While, ast.Try))
        for n in ast.walk(st):
            if isinstance(n, ast.Call) and isinstance(n.func, ast.Attribute) and isinstance(n.func.value, ast.Name) and n.func.value.id == "self":
                out.append((n.func.attr, n, i, cond))
    out.sort(key=lambda t: (t[1].lineno, t[1].col_offset))
    return out


class _Acc:
    def __init__(self):
        self.res = ComponentResult()
        self.res.rule = "one obligation per ordering / binding fact, decided on the AST of the function as it is on disk"

    def ob(self, ok, key, text, props_witness=None):
        self.res.obligations += 1
        if ok:
            self.res.discharged += 1
            if len(self.res.samples) < 5:
                self.res.samples.append(dict(obligation=key, verdict="holds"))
        else:
            w = props_witness() if props_witness else None
            self.res.findings.append(Finding(key=key, text=text + (f" - witness: {w}" if w else ""), replay=dict(obligation=key, witness=w), confirmed=bool(w)))


def _before(calls, a, b, strict_all=False):
    """every unconditional occurrence of b is preceded by an unconditional occurrence of a"""
    ia = [i for (n, c, i, cond) in calls if n == a and not cond]
    ib = [i for (n, c, i, cond) in calls if n == b]
    if not ib:
        return True  # nothing to order
    if not ia:
        return False
    return min(ia) < min(ib)


def _kw(call, name):
    for k in call.keywords:
        if k.arg == name:
            return ast.unparse(k.value)
    return None


def _orphan_witness():
    """a gradient whose only user is an unpainted shape: pass 1 keeps it, pass 2 drops it"""
    from picosvg.svg import SVG

    doc = ('<svg xmlns="http://www.w3.org/2000/svg" viewBox="0 0 10 10"><defs><linearGradient id="g"><stop offset="0" stop-color="red"/></linearGradient></defs>'
           '<path d="M0,0 L10,0" fill="url(#g)"/><rect width="5" height="5"/></svg>')
    one = SVG.fromstring(doc).topicosvg().tostring()
    two = SVG.fromstring(one).topicosvg().tostring()
    if "linearGradient" in one:
        return f"gradient used only by the unpainted path M0,0 L10,0 survives conversion unused (and a second pass drops it: idempotent={one == two})"
    return None


def pipeline_obligations(part="order"):
    A = _Acc()
    cls = _svg_class()
    fn = _method(cls, "topicosvg")
    copy_region, region = _inplace_region(fn)
    calls = _self_calls_top_level(region)
    names = [n for (n, c, i, cond) in calls]
    A.res.functions = ["svg.SVG.topicosvg", "svg.SVG._simplify", "svg.SVG.simplify", "picosvg._run"]
    steps = [n for n in names if n not in ("_update_etree",)]
    others = [n for n in steps if n not in STRIP]
    for s in STRIP:
        A.ob(s in names, f"order:strip_present:{s}", f"topicosvg no longer runs {s}")
        for o in dict.fromkeys(others):
            A.ob(_before(calls, s, o), f"order:strip_first:{s}<{o}", f"topicosvg runs {o} before ignorable content is stripped by {s}")
    for a, b in (("apply_style_attributes", "shapes_to_paths"), ("apply_style_attributes", "resolve_use"), ("apply_style_attributes", "simplify"),
                 ("resolve_nested_svgs", "simplify"), ("resolve_use", "simplify"), ("shapes_to_paths", "simplify"), ("expand_shorthand", "simplify"),
                 ("simplify", "evenodd_to_nonzero_winding"), ("simplify", "normalize_opacity"), ("simplify", "absolute"), ("simplify", "round_floats"),
                 ("evenodd_to_nonzero_winding", "round_floats"), ("absolute", "round_floats"), ("normalize_opacity", "round_floats"),
                 ("round_floats", "remove_empty_subpaths"), ("round_floats", "checkpicosvg"), ("remove_empty_subpaths", "remove_unpainted_shapes"),
                 ("remove_unpainted_shapes", "checkpicosvg")):
        A.ob(a in names and b in names and _before(calls, a, b), f"order:{a}<{b}", f"topicosvg must run {a} before {b}")
    # nothing that changes coordinates after rounding
    after_round = names[names.index("round_floats") + 1:] if "round_floats" in names else []
    bad = [n for n in after_round if n in ("absolute", "simplify", "evenodd_to_nonzero_winding", "shapes_to_paths", "expand_shorthand", "resolve_use", "resolve_nested_svgs", "clip_to_viewbox")]
    A.ob(not bad, "order:rounding_is_last_geometry_step", f"geometry is changed after round_floats by {bad}")
    # argument binding
    rf = next((c for (n, c, i, cond) in calls if n == "round_floats"), None)
    A.ob(rf is not None and rf.args and ast.unparse(rf.args[0]) == "ndigits", "binding:round_floats(ndigits)", "round_floats is not called with the caller's ndigits")
    cp = next((c for (n, c, i, cond) in calls if n == "checkpicosvg"), None)
    A.ob(cp is not None and _kw(cp, "allow_text") == "allow_text" and _kw(cp, "drop_unsupported") == "drop_unsupported", "binding:checkpicosvg(allow_text, drop_unsupported)",
         "checkpicosvg does not receive the caller's allow_text / drop_unsupported")
    clone_call = next((n for st in copy_region for n in ast.walk(st) if isinstance(n, ast.Call) and isinstance(n.func, ast.Attribute) and n.func.attr == "topicosvg"), None)
    A.ob(clone_call is not None and all(_kw(clone_call, k) == k for k in ("ndigits", "allow_text", "drop_unsupported")) and _kw(clone_call, "inplace") == "True",
         "binding:copy_branch_forwards_all_options", "the copying form of topicosvg does not forward ndigits / allow_text / drop_unsupported unchanged")
    # violations => ValueError
    gate = [st for st in region if isinstance(st, ast.If) and ast.unparse(st.test) == "violations" and any(isinstance(x, ast.Raise) and "ValueError" in ast.unparse(x) for x in st.body)]
    A.ob(bool(gate), "gate:violations_raise_ValueError", "a non-empty checkpicosvg() result no longer raises ValueError")
    every = [a.arg for a in fn.args.kwonlyargs]
    A.ob(set(every) >= {"ndigits", "inplace", "allow_text", "drop_unsupported"}, "binding:options_are_keyword_only", "topicosvg lost one of its options")

    # orphan sweep after the last shape-removing step (C07 / C08)
    simplify = _method(cls, "_simplify")
    sweeps_in_simplify = any(isinstance(n, ast.Call) and isinstance(n.func, ast.Attribute) and n.func.attr == "_remove_orphaned_gradients" for n in ast.walk(simplify))
    sweep_positions = [i for (n, c, i, cond) in calls if n == "_remove_orphaned_gradients" and not cond]
    if sweeps_in_simplify:
        sweep_positions += [i for (n, c, i, cond) in calls if n == "simplify" and not cond]
    removing = [i for (n, c, i, cond) in calls if n in SHAPE_REMOVING]
    ok = bool(sweep_positions) and (not removing or max(sweep_positions) > max(removing))
    if part == "orphans":
        A = _Acc()
        A.res.functions = ["svg.SVG.topicosvg", "svg.SVG._simplify", "svg.SVG._remove_orphaned_gradients"]
    (A.ob if part == "orphans" else (lambda *a, **k: None))(ok, "order:orphan_sweep_after_last_shape_removal", "topicosvg removes shapes (remove_unpainted_shapes) after the last sweep of unreferenced gradients, so a gradient used only by a removed shape survives",
         _orphan_witness)
    if part == "orphans":
        return A.res

    # ---- _simplify, per-shape order: stroke -> reset stroke attrs -> transform -> clip ; root cleanup
    src_lines = {}
    for n in ast.walk(simplify):
        if isinstance(n, ast.Call):
            f = ast.unparse(n.func)
            src_lines.setdefault(f, []).append(n.lineno)
    first = lambda f: min(src_lines.get(f, [10 ** 9]))
    A.ob(first("self._stroke") < first("p.apply_transform"), "order:stroke_before_transform", "_simplify applies the outer transform before computing the stroke outline")
    A.ob(first("p.apply_transform") < first("intersection"), "order:transform_before_clip", "_simplify clips before transforming")
    A.ob(first("self._stroke") < first("_reset_attrs") < first("to_element"), "order:stroke_attrs_reset_before_writing_back", "_simplify writes shapes back before resetting stroke attributes")
    dels = [n for n in ast.walk(simplify) if isinstance(n, ast.Call) and ast.unparse(n.func) == "_del_attrs" and n.args and ast.unparse(n.args[0]) == "self.svg_root"]
    ok = any(len(d.args) == 2 and isinstance(d.args[1], ast.Starred) and ast.unparse(d.args[1].value) == "_INHERITABLE_ATTRIB" for d in dels)
    A.ob(ok, "binding:root_cleanup_deletes_every_inheritable_attribute", "_simplify no longer deletes *_INHERITABLE_ATTRIB from the root svg (some inheritable presentation attributes survive on the root)")
    tail = [ast.unparse(st) for st in simplify.body[-4:]]
    A.ob(any("_remove_orphaned_gradients" in t for t in tail) and tail[-1].replace(" ", "") == "self.elements=None", "order:_simplify_ends_by_sweeping_and_invalidating", "_simplify no longer ends with the orphan sweep, the defs purge and `self.elements = None`")
    purge = any(isinstance(n, ast.For) and "defs" in ast.unparse(n.iter) and "_is_gradient" in ast.unparse(n.iter) for n in ast.walk(simplify))
    A.ob(purge, "order:defs_purged_of_non_gradients", "_simplify no longer removes non-gradient elements from the master defs")
    # intersection call in _simplify: target under its fill rule, clips under their clip rule
    isect = [n for n in ast.walk(simplify) if isinstance(n, ast.Call) and ast.unparse(n.func) == "intersection"]
    ok = bool(isect) and ast.unparse(isect[0].args[0]).replace(" ", "") == "(p,*context.clips)" and (_kw(isect[0], "fill_rules") or "").replace(" ", "") == "(p.fill_rule,*(c.clip_rulefor cincontext.clips))".replace(" ", "")
    ok2 = bool(isect) and "p.fill_rule" in (_kw(isect[0], "fill_rules") or "") and "c.clip_rule" in (_kw(isect[0], "fill_rules") or "") and (_kw(isect[0], "fill_rules") or "").index("p.fill_rule") < (_kw(isect[0], "fill_rules") or "").index("c.clip_rule")
    A.ob(ok2, "binding:clip_intersection_rules", "the clip intersection in _simplify no longer pairs the shape with its fill-rule and the clips with their clip-rule")

    # ---- command line
    cli = ast.parse(open(CLI_PY).read(), CLI_PY)
    call = next((n for n in ast.walk(cli) if isinstance(n, ast.Call) and isinstance(n.func, ast.Attribute) and n.func.attr == "topicosvg"), None)
    A.ob(call is not None and _kw(call, "allow_text") == "FLAGS.allow_text" and _kw(call, "drop_unsupported") == "FLAGS.drop_unsupported", "binding:cli_flags",
         "the command line no longer hands --allow_text / --drop_unsupported to topicosvg")
    return A.res


@component(("C01", "C04", "C05", "C14", "C03"), "pipeline.order_and_binding", "static")
def pipeline_component(tier, seed):
    return pipeline_obligations()


@component(("C07", "C08"), "pipeline.orphan_sweep_last", "static")
def orphan_component(tier, seed):
    return pipeline_obligations("orphans")


# ------------------------------------------------------------------------------------------------ call-site bindings (5.1)
def _find_calls(fn, pred):
    return [n for n in ast.walk(fn) if isinstance(n, ast.Call) and pred(n)]


def _src(n):
    return ast.unparse(n).replace(" ", "").replace("\n", "").replace("'", '"')


def callsite_obligations():
    """Composition order and argument binding at the call sites that the tree-walking code uses to place content.
    Decided on the AST (argument expressions), so a refactor that renames the locals involved has to be re-recorded here."""
    A = _Acc()
    tree = ast.parse(open(SVG_PY).read(), SVG_PY)
    cls = next(n for n in tree.body if isinstance(n, ast.ClassDef) and n.name == "SVG")
    fns = {n.name: n for n in tree.body if isinstance(n, ast.FunctionDef)}
    A.res.functions = ["svg._element_transform", "svg.SVG._resolve_use", "svg.SVG._unnest_svg", "svg.SVG._resolve_clip_path", "svg.SVG._transformed_gradient",
                       "svg.SVG._traverse", "svg._inherit_matrix_multiply", "svg.SVG.clip_to_viewbox", "svg_types._SVGGradient.as_user_space_units"]

    def ltr_args(fn):
        return [_src(c.args[0]) for c in _find_calls(fn, lambda c: _src(c.func).endswith("compose_ltr")) if c.args]

    # element CTM: the element's own transform first, then the ancestors'
    A.ob("(Affine2D.fromstring(raw),current_transform)" in ltr_args(fns["_element_transform"]), "callsite:_element_transform:own_transform_then_ancestors",
         "_element_transform no longer composes (own transform, then current transform) left to right")
    et = fns["_element_transform"]
    A.ob('attr_name="gradientTransform"' in _src(et) and "_is_gradient(el.tag)" in _src(et), "callsite:_element_transform:gradients_use_gradientTransform", "gradient elements must read gradientTransform")
    # use: translate(x, y) first, then the use transform; group removal must not push opacity (it is inherited right after)
    ru = _method(cls, "_resolve_use")
    A.ob('(affine,Affine2D.fromstring(use_el.attrib["transform"]))' in ltr_args(ru) or "(affine,Affine2D.fromstring(use_el.attrib['transform']))" in ltr_args(ru), "callsite:_resolve_use:translate_xy_then_use_transform",
         "_resolve_use must compose translate(x, y) first and the use's transform second")
    s = _src(ru)
    A.ob('Affine2D.identity().translate(float(use_el.attrib.get("x",0)),float(use_el.attrib.get("y",0)))' in s.replace("'", '"'), "callsite:_resolve_use:translation_from_x_and_y", "_resolve_use must translate by (x, y) of the use element")
    trg = _find_calls(ru, lambda c: _src(c.func) == "_try_remove_group")
    A.ob(bool(trg) and all(_kw(c, "push_opacity") == "False" for c in trg), "callsite:_resolve_use:opacity_applied_once",
         "_resolve_use must not push the wrapper group's opacity when removing it: the attributes (opacity included) are inherited once, right after")
    A.ob('"id"inel.attrib' in s.replace("'", '"') and 'delel.attrib["id"]' in s.replace("'", '"'), "callsite:_resolve_use:ids_stripped_from_instances", "_resolve_use must strip ids from instantiated copies")
    # nested svg viewport
    un = _method(cls, "_unnest_svg")
    s = _src(un)
    A.ob("Affine2D.rect_to_rect(viewbox,viewport,preserve_aspect_ratio)" in s, "callsite:_unnest_svg:viewbox_onto_viewport", "_unnest_svg must map the viewBox onto the viewport (in that order) with the element's preserveAspectRatio")
    A.ob('svg.attrib.get("preserveAspectRatio","xMidYMid")' in s.replace("'", '"'), "callsite:_unnest_svg:default_xMidYMid", "preserveAspectRatio must default to xMidYMid (meet)")
    A.ob('(transform,Affine2D.fromstring(svg.attrib["transform"]))' in [a.replace("'", '"') for a in ltr_args(un)], "callsite:_unnest_svg:viewport_mapping_then_own_transform", "_unnest_svg must apply the viewport mapping first and the svg's own transform second")
    rec = _find_calls(un, lambda c: _src(c.func) == "self._unnest_svg")
    A.ob(bool(rec) and all([_src(a) for a in c.args] == ["el", "viewbox.w", "viewbox.h"] for c in rec), "callsite:_unnest_svg:inner_svg_sized_by_enclosing_viewbox",
         "a nested svg inside a nested svg must resolve its default width/height against the enclosing svg's viewBox size")
    A.ob('float(svg.attrib.get("width",parent_width))' in s.replace("'", '"') and 'float(svg.attrib.get("height",parent_height))' in s.replace("'", '"'), "callsite:_unnest_svg:default_size_is_parent_size", "missing width/height default to the parent's size")
    A.ob('svg.attrib.get("overflow","hidden")' in s.replace("'", '"') and "SVGRect(x=x,y=y,width=width,height=height)" in s, "callsite:_unnest_svg:overflow_hidden_clips_to_viewport", "non-root svg elements clip to their viewport unless overflow is visible")
    # clip paths: children under (child transform, clipPath transform, referencing CTM); the nested clip gets the same composed transform
    rc = _method(cls, "_resolve_clip_path")
    s = _src(rc)
    A.ob("transform=_element_transform(clip_path_el,transform)" in s, "callsite:_resolve_clip_path:clipPath_transform_composed", "the clipPath's own transform must be composed with the referencing element's CTM")
    A.ob("from_element(e).apply_transform(_element_transform(e,transform))" in s, "callsite:_resolve_clip_path:children_placed_with_composed_transform", "clipPath children must be placed with (child transform, clipPath transform, CTM)")
    rec = _find_calls(rc, lambda c: _src(c.func) == "self._resolve_clip_path")
    ok = bool(rec) and all(len(c.args) == 2 and _src(c.args[1]) == "transform" for c in rec)
    assigns = [n for n in ast.walk(rc) if isinstance(n, ast.Assign) and len(n.targets) == 1 and _src(n.targets[0]) == "transform"]
    ok = ok and len(assigns) == 1 and rec and assigns[0].lineno < rec[0].lineno
    A.ob(ok, "callsite:_resolve_clip_path:nested_clip_gets_composed_transform", "a clip-path on the clipPath itself must be resolved with the transform that includes the clipPath's own transform")
    A.ob("SVGPath.from_commands(union(clip_paths))" in s and "intersection([clip,clip_clop])" in s, "callsite:_resolve_clip_path:union_of_children_intersected_with_nested_clip", "clip region = union of the children, intersected with the nested clip")
    # traversal: child CTM from the parent's, ancestor clips resolved with the child's CTM
    tr = _method(cls, "_traverse")
    s = _src(tr)
    A.ob("transform=_element_transform(child,context.transform)" in s, "callsite:_traverse:child_ctm", "the child's CTM must be its transform composed with the parent context's")
    A.ob('self._resolve_clip_path(child.attrib["clip-path"],transform)' in s.replace("'", '"') and "clips=context.clips" in s and "clips+=" in s, "callsite:_traverse:clips_accumulate_with_child_ctm",
         "clips accumulate along the ancestor chain, each resolved with the CTM of the element that carries it")
    A.ob("_attrib_to_pass_on(context.attrib,child)" in s, "callsite:_traverse:attributes_passed_down", "inherited attributes must flow from the parent context to the child")
    # gradients
    tg = _method(cls, "_transformed_gradient")
    A.ob("(gradient.gradientTransform,transform)" in ltr_args(tg), "callsite:_transformed_gradient:gradientTransform_then_ctm", "the gradient's own transform applies first, the shape's CTM second")
    A.ob(".as_user_space_units(shape_bbox,inplace=True)" in _src(tg) and 'self._new_id(gradient.id+"_%d")' in _src(tg).replace("'", '"'), "callsite:_transformed_gradient:bbox_units_resolved_and_fresh_id",
         "a cloned gradient must be converted to user space with the shape's bounding box and get a fresh id")
    ttree = ast.parse(open(_REPO + "/src/picosvg/svg_types.py").read())
    grad = next(n for n in ttree.body if isinstance(n, ast.ClassDef) and n.name == "_SVGGradient")
    us = next(n for n in grad.body if isinstance(n, ast.FunctionDef) and n.name == "as_user_space_units")
    A.ob("(self.gradientTransform,Affine2D.rect_to_rect(_UNIT_RECT,shape_bbox))" in ltr_args(us), "callsite:as_user_space_units:gradientTransform_then_bbox_mapping",
         "objectBoundingBox units: the gradientTransform applies first, then the unit square is mapped onto the bounding box")
    imm = fns["_inherit_matrix_multiply"]
    A.ob("(Affine2D.fromstring(child.attrib[attr_name]),transform)" in ltr_args(imm), "callsite:_inherit_matrix_multiply:child_then_parent", "the child's transform applies first, the inherited one second")
    A.ob("delchild.attrib[attr_name]" in _src(imm), "callsite:_inherit_matrix_multiply:identity_result_removes_attribute", "when the composed transform is the identity the child's stale transform attribute must be removed")
    # clip_to_viewbox
    cv = _method(cls, "clip_to_viewbox")
    s = _src(cv)
    A.ob("SVGRect(x=isct.x,y=isct.y,width=isct.w,height=isct.h)" in s and "fill_rules=(shape.fill_rule,clip_path.clip_rule)" in s and "(shape,clip_path)" in s,
         "callsite:clip_to_viewbox:clip_rectangle_is_bbox_intersection", "clip_to_viewbox must intersect the shape (under its fill rule) with the rectangle bbox INTERSECT viewBox")
    A.ob("view_box.intersection(shape.bounding_box())isNone" in s and "_safe_remove(el)" in s, "callsite:clip_to_viewbox:drops_shapes_outside", "shapes whose bounding box misses the viewBox are removed")
    return A.res


@component(("C02", "C03", "C06", "C05", "C08", "C19"), "callsites.composition_order", "static")
def callsite_component(tier, seed):
    return callsite_obligations()
