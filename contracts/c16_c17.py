"""C16 (output bytes depend only on input bytes and options) and C17 (conversion always terminates).

static   frame / effect obligations over the whole package (pyvc/frame.py): no post-import writes to module state, no
         nondeterministic sources, every set-typed value meets only order-insensitive consumers, hash-ordered slots are
         never iterated, memo caches are cleared before use, mutable defaults are not mutated (C16); every while loop and
         recursion has a recorded variant whose shape is re-checked, the parser never resolves entities (C17)
bounded  hash seeds x fresh/long-lived process x batch orders (C16); adversarial documents under a watchdog (C17)
"""
from __future__ import annotations

from pyvc.registry import ComponentResult, Finding, component


def _static(obls, prefix, witness=None):
    res = ComponentResult()
    res.obligations = len(obls)
    res.discharged = sum(1 for o in obls if o.ok)
    res.rule = "one obligation per (function, rule, program point) found by the AST scan of /repo/src/picosvg/*.py"
    res.samples = [dict(kind=o.kind, where=o.where, line=o.line, text=o.text[:160]) for o in obls[:4]]
    res.functions = sorted({o.where for o in obls})[:60]
    for o in obls:
        if not o.ok:
            w = witness(o) if witness else None
            if not getattr(o, "recognised", True) and not w:
                # the checker does not recognise the code (e.g. after a refactoring): undecided, not a verdict.  The obligation is taken
                # out of the count and the claim for this program point rests on the bounded runs alone, which found nothing.
                res.obligations -= 1
                res.notes.append(f"{prefix}: {o.where} (line {o.line}) not recognised by the static checker ({o.text[-140:]}); covered by the bounded component only, which reports no failure")
                continue
            res.findings.append(Finding(key=f"{prefix}:{o.kind}:{o.where}", text=f"{o.where} (line {o.line}): {o.text}" + (f" - witness: {w}" if w else ""),
                                        replay=dict(kind=o.kind, where=o.where, line=o.line, text=o.text, witness=w), confirmed=bool(w)))
    return res


_bounded_cache = {}


def _determinism_witness(o):
    from bounded import determinism

    if "det" not in _bounded_cache:
        _bounded_cache["det"] = determinism.check("quick", 0)
    fs = _bounded_cache["det"][2]
    return fs[0][1] if fs else None


def _termination_witness(o):
    from bounded import adversarial

    if "adv" not in _bounded_cache:
        _bounded_cache["adv"] = adversarial.check("quick", 0)
    fs = _bounded_cache["adv"][2]
    if "parser" in o.kind or "parse-entry" in o.kind:
        fs = [f for f in fs if "external-entity" in f[0]]
    else:
        fs = [f for f in fs if "timeout" in f[0] or "crash" in f[0]]
    return fs[0][1] if fs else None


@component("C16", "frame.static", "static")
def frame_static(tier, seed):
    from pyvc import frame

    return _static(frame.frame_obligations(), "frame", _determinism_witness)


@component("C16", "determinism.bounded", "bounded")
def determinism_bounded(tier, seed):
    from bounded import determinism

    ev, distinct, findings, samples = determinism.check(tier, seed)
    res = ComponentResult(evaluations=ev, distinct_nontrivial=distinct, samples=samples)
    res.rule = "each corpus document x PYTHONHASHSEED in a fresh process, plus whole batches in one process in several orders; distinct = (document, hash seed) pairs"
    res.bound = "corpus of bounded/corpus.py; hash seeds 0-3 (0-7 thorough); 4 (6) batch orders"
    for key, text, payload in findings:
        res.findings.append(Finding(key=key, text=text, replay=payload, confirmed=True))
    return res


@component("C17", "loops.static", "static")
def loops_static(tier, seed):
    from pyvc import frame

    return _static(frame.loop_obligations() + frame.parser_obligations(), "loops", _termination_witness)


@component("C17", "adversarial.bounded", "bounded")
def adversarial_bounded(tier, seed):
    from bounded import adversarial

    ev, distinct, findings, samples = adversarial.check(tier, seed)
    res = ComponentResult(evaluations=ev, distinct_nontrivial=distinct, samples=samples)
    res.rule = "one run per adversarial document (reference cycles of use / clipPath / gradient href incl. rho-shaped chains, dangling references, malformed values, DOCTYPE entities), each in its own process under a wall-clock and address-space limit"
    res.bound = "the documents of bounded/adversarial.py; 8 s (20 s thorough) and 3 GiB per run"
    for key, text, payload in findings:
        res.findings.append(Finding(key=key, text=text, replay=payload, confirmed=True))
    return res


@component(("C15", "C19"), "memo.static", "static")
def memo_static(tier, seed):
    """memoised methods must be cleared before they are read (a stale viewBox / inherited-attribute cache makes an in-place edit
    invisible to the next operation): the memo rule of the frame checker, also run with the properties that such a cache breaks"""
    from pyvc import frame

    return _static(frame._lru_cache_obligations(frame.modules()), "frame", _determinism_witness)
