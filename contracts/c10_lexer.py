"""C10, the tokeniser under contract (all strings, all token counts) - replaces "bounded only" for the lexical layer.

  lexer.patterns     (automata back end, pyvc/rx.py) - the compiled patterns of the running module, for EVERY string over the path alphabet:
        _FLOAT_RE.match(w)      ends exactly at the longest prefix of w that is an SVG number (None where there is none)
        _BOOL_RE.match(w)       is exactly the first character when that is 0 or 1
        _SEPARATOR_RE           matches nothing but commas and white space, and never the empty string
        _CMD_RE                 matches nothing but one command letter, inside exactly one capturing group
  lexer.parse_args   (pyvc, while-loop cut-point rule) - the real body of `_parse_args` against those contracts, for ANY number
        of tokens and arguments: every iteration reads exactly one argument of the kind the position demands (flags at positions
        3 and 4 of an arc, numbers elsewhere) from the head of the current token, yields its value, re-queues the rest of the token
        or moves on, and raises ValueError exactly when the head of the token is not such an argument; a lexicographic variant falls.
  lexer.parse_svg_path (pyvc) - the real body of `parse_svg_path` with the command split and `_parse_args` replaced by their
        contracts: commands in order, arguments checked against the arity table, implicit repeats through `_explode_cmd`.

The composition ("for a conforming string the yielded sequence is the one the grammar defines") is a short paper argument over
these contracts (DESIGN S.8) and stays cross-checked by the bounded component grammar.strings; float() / int() of a lexeme are
CPython's (assumed).
"""
from __future__ import annotations

import re

from pyvc import rx
from pyvc.registry import ComponentResult, Finding, component, obligation
from pyvc.sym import And, EngineError, Not, Or

from .spec_path import ARITY

P = "C10"
LETTERS = "".join(sorted({c for k in ARITY for c in (k.lower(), k.upper())}))
WSP = " \t\r\n"
SIGMA = "0123456789+-.eE," + WSP + LETTERS  # the alphabet of SVG path data


def _number():
    D = rx.Chars("0123456789")
    sign = rx.Opt(rx.Chars("+-"))
    mantissa = rx.Alt(rx.Seq(rx.Plus(D), rx.Opt(rx.Seq(rx.Chars("."), rx.Star(D)))), rx.Seq(rx.Chars("."), rx.Plus(D)))
    return rx.Seq(sign, mantissa, rx.Opt(rx.Seq(rx.Chars("eE"), sign, rx.Plus(D))))


SPECS = {
    "_FLOAT_RE": ("equal", _number, "match(w) ends at the longest prefix of w that is an SVG number"),
    "_BOOL_RE": ("equal", lambda: rx.Chars("01"), "match(w) is the first character when it is 0 or 1"),
    "_SEPARATOR_RE": ("within", lambda: rx.Plus(rx.Chars("," + WSP)), "matches only commas / white space, never the empty string"),
    "_CMD_RE": ("within", lambda: rx.Chars(LETTERS), "matches only one command letter"),
}
CONTEXTS = [("M", ""), ("M", " 5"), ("M", "0"), ("M0 ", ""), ("M0 0L", " 1"), ("M1 2H", ""), ("M0 0A1 1 0 0 0 ", " 2"), ("M0 0a1 1 0 ", "1 1"), ("M0 0a1 1 0 1", " 1 1"),
            ("M1 2 3", " 4"), ("M1", "2"), ("M1 2", "3 4"), ("M0 0h", ""), ("M0 0h", "1")]


def _lift(u):
    """a conforming path string, built around the witness, that the real parser reads silently differently -> description or None"""
    from .c10_pathgrammar import _compare

    for pre, suf in CONTEXTS:
        r = _compare(pre + u + suf)
        if r and "conforms" in r:
            return pre + u + suf, r
    return None


@component((P, "C09"), "lexer.patterns", "static")
def lexer_patterns(tier, seed):
    import picosvg.svg_path_iter as S

    res = ComponentResult(backend="automata-product")
    res.rule = ("one obligation per compiled pattern of svg_path_iter: the pattern's sre parse tree -> prioritised NFA -> Pike machine, the contract language -> DFA, "
                "their product explored exhaustively over a partition of the path alphabet into character classes (ALL strings, no length bound); back end: automata (pyvc/rx.py)")
    res.functions = ["svg_path_iter._FLOAT_RE", "svg_path_iter._BOOL_RE", "svg_path_iter._SEPARATOR_RE", "svg_path_iter._CMD_RE"]
    for name, (mode, spec, text) in SPECS.items():
        res.obligations += 1
        pat_obj = getattr(S, name, None)
        if pat_obj is None or not hasattr(pat_obj, "pattern"):
            res.obligations -= 1
            res.notes.append(f"lexer.patterns: svg_path_iter.{name} is not a compiled pattern any more; the lexical layer of this token kind rests on the bounded component grammar.strings alone")
            continue
        try:
            pat = rx.Pattern(pat_obj)
            mismatch = rx.cross_check(pat, 3000, seed, extra=SIGMA)
            if mismatch:
                res.errors.append("automaton does not reproduce the real pattern: " + mismatch)
                continue
            r = rx.compare(pat, rx.Language(spec()), mode, alphabet=SIGMA)
        except rx.Unsupported as e:
            res.obligations -= 1
            res.notes.append(f"lexer.patterns: {name} = {pat_obj.pattern!r} uses a construct the automata procedure does not model ({e}); undecided here, covered by the bounded component grammar.strings only")
            continue
        res.evaluations += r["states"]
        res.samples.append(dict(pattern=name, text=pat_obj.pattern, contract=text, product_states=r["states"], character_classes=r["classes"]))
        if name == "_CMD_RE" and pat.groups != 1:
            res.findings.append(Finding(key=f"lexer.patterns:{name}:groups", text=f"{name} = {pat_obj.pattern!r} has {pat.groups} capturing groups; parse_svg_path relies on split() returning exactly the command letter between the argument strings",
                                        replay=dict(pattern=pat_obj.pattern), confirmed=False))
            continue
        if r["ok"]:
            res.discharged += 1
            continue
        # the contract fails on some string: find a conforming path that is read silently differently (the property's own terms)
        lifted = None
        silent_risk = []
        for u, pf, sf in r["witnesses"]:
            m = pat_obj.match(u)
            if mode == "equal" and m is None:
                continue  # the pattern refuses what the grammar accepts: the parser raises ValueError, which C10 allows
            silent_risk.append((u, pf, sf, m.end() if m else None))
            lifted = lifted or _lift(u)
        if lifted:
            s, why = lifted
            res.findings.append(Finding(key=f"lexer.patterns:{name}", text=f"{name} = {pat_obj.pattern!r} breaks its contract ({text}) and a conforming path is read differently: {why}",
                                        replay=dict(pattern=pat_obj.pattern, string=s, witnesses=[w[0] for w in silent_risk][:8]), confirmed=True))
        elif silent_risk:
            u, pf, sf, end = silent_risk[0]
            res.findings.append(Finding(key=f"lexer.patterns:{name}", text=f"{name} = {pat_obj.pattern!r} breaks its contract ({text}): on {u!r} the real pattern matches {u[:end]!r} (replayed on the compiled pattern), the contract language has {'a' if sf else 'no'} match ending there",
                                        replay=dict(pattern=pat_obj.pattern, witnesses=[w[0] for w in silent_risk][:8]), confirmed=False))
        else:
            res.discharged += 1
            res.notes.append(f"lexer.patterns: {name} = {pat_obj.pattern!r} refuses some numbers the grammar allows (e.g. {r['witnesses'][0][0]!r}); the parser then raises ValueError, which C10 permits")
    # vacuity guard: a pattern that must be refuted (JSON-style integers: the first 0 of '007' would end the number)
    canary = rx.compare(rx.Pattern(re.compile(r"[-+]?(?:(?:0|[1-9][0-9]*)(?:\.[0-9]*)?|\.[0-9]+)(?:[eE][-+]?[0-9]+)?")), rx.Language(_number()), "equal", alphabet=SIGMA)
    if canary["ok"] or not any(w[0] == "00" for w in canary["witnesses"]):
        res.errors.append("canary: the JSON-style number pattern was not refuted with the witness '00'")
    return res


# --------------------------------------------------------------------------------------------- _parse_args under the loop rule
class _Tok:
    """a non-empty piece of argument text without separators (unknown content, unknown length)"""

    __pyvc_abstract__ = True

    def __init__(self, H, name, length=None):
        self.H, self.name = H, name
        self.len = length if length is not None else H.int(name + "_len")
        if length is None:
            H.assume(self.len >= 1)
        self.m = {}

    def __pyvc_len__(self, I):
        return self.len

    def __pyvc_truth__(self, I):
        return True

    def match(self, kind):
        """the contract of _FLOAT_RE / _BOOL_RE on this text: None or a non-empty prefix (one character for a flag)"""
        if kind not in self.m:
            H = self.H
            has = H.bool(f"{self.name}_starts_with_{kind}")
            if kind == "flag":
                end = 1
            else:
                end = H.int(f"{self.name}_{kind}_end")
                H.assume(And(end >= 1, end <= self.len))
            self.m[kind] = (has, end)
        has, end = self.m[kind]
        if not self.H.truth(has):
            return None
        return _Match(self, kind, end)

    def __pyvc_getitem__(self, I, idx):
        if isinstance(idx, slice) and idx.step is None:
            for kind, (has, end) in self.m.items():
                if _same_int(idx.stop, end) and (idx.start is None or _same_int(idx.start, 0)):
                    return _Lexeme(self, kind)
                if idx.stop is None and _same_int(idx.start, end):
                    return _Tok(self.H, f"{self.name}_after_{kind}", self.len - end)._with(rest_of=(self, kind))
        raise EngineError(f"slice {idx!r} of argument text that is not the matched prefix or the rest after it")

    def _with(self, **k):
        self.__dict__.update(k)
        return self

    def __repr__(self):
        return f"<tok {self.name}>"


def _same_int(a, b):
    if hasattr(a, "z") and hasattr(b, "z"):
        return a.z.eq(b.z)
    if hasattr(a, "z") or hasattr(b, "z"):
        return False
    return a == b


class _Match:
    __pyvc_abstract__ = True

    def __init__(self, tok, kind, end):
        self.tok, self.kind, self._end = tok, kind, end

    def span(self, *a):
        return (0, self._end)

    def start(self, *a):
        return 0

    def end(self, *a):
        return self._end

    def group(self, *a):
        return _Lexeme(self.tok, self.kind)

    def __pyvc_truth__(self, I):
        return True

    def __pyvc_getitem__(self, I, idx):
        if idx == 0:
            return _Lexeme(self.tok, self.kind)
        raise EngineError("group of a match object")


class _Lexeme:
    """the matched prefix of a token: a number or a flag; its value is what float() / int() give"""

    __pyvc_abstract__ = True

    def __init__(self, tok, kind):
        self.tok, self.kind = tok, kind

    def value(self):
        H = self.tok.H
        key = "_value_" + self.kind
        if key not in self.tok.__dict__:
            if self.kind == "flag":
                v = H.int(f"{self.tok.name}_flag")
                H.assume(Or(v == 0, v == 1))
            else:
                v = H.real(f"{self.tok.name}_number")
            self.tok.__dict__[key] = v
        return self.tok.__dict__[key]

    def __pyvc_float__(self, I):
        v = self.value()
        return v * 1.0 if self.kind == "flag" else v

    def __pyvc_int__(self, I):
        if self.kind != "flag":
            raise EngineError("int() of a number lexeme (ValueError for most numbers)")
        return self.value()


class _AbsTokens:
    """raw_args in an arbitrary iteration: unknown length, the token at the current index is `cur`"""

    __pyvc_abstract__ = True

    def __init__(self, L, J, cur):
        self.L, self.J, self.cur = L, J, cur
        self.written = None

    def __pyvc_len__(self, I):
        return self.L

    def __pyvc_truth__(self, I):
        return True

    def __pyvc_getitem__(self, I, idx):
        if _same_int(idx, self.J):
            return self.cur if self.written is None else self.written
        raise EngineError("raw_args read at an index other than the current one")

    def __pyvc_setitem__(self, I, idx, value):
        if not _same_int(idx, self.J):
            raise EngineError("raw_args written at an index other than the current one")
        self.written = value


class _LenInt(int):
    """len() of the token list, tagged so that a hoisted copy of it can be re-bound to the abstract length"""


class _ArgText:
    __pyvc_abstract__ = True

    def __init__(self, pieces):
        self.pieces = pieces

    def __pyvc_truth__(self, I):
        return True

    def strip(self, *a):
        return self


PIECES = ("none", "e", "T", "eTe", "TT", "TeTT")


def _install_regex_stubs(H, state):
    import picosvg.svg_path_iter as S

    kinds = {}
    for name, kind in (("_FLOAT_RE", "number"), ("_BOOL_RE", "flag")):
        p = getattr(S, name, None)
        if p is not None:
            kinds[p.pattern] = kind
    sep = getattr(S, "_SEPARATOR_RE", None)

    def stub(I, pattern, method, args, kwargs):
        if method == "match" and len(args) == 1 and isinstance(args[0], _Tok) and pattern.pattern in kinds:
            m = args[0].match(kinds[pattern.pattern])
            state["last_match"] = (args[0], kinds[pattern.pattern], m)
            return m
        if method == "split" and len(args) == 1 and isinstance(args[0], _ArgText) and sep is not None and pattern.pattern == sep.pattern:
            return list(args[0].pieces)
        if any(isinstance(a, (_Tok, _ArgText)) for a in args):
            raise EngineError(f"{pattern.pattern!r}.{method} on abstract argument text: no contract for this use")
        return NotImplemented

    H.ctx.regex_stub = stub
    orig_len = H.interp.models[len]

    def m_len(x):
        if isinstance(x, list) and x and all(isinstance(t, _Tok) for t in x):
            return _LenInt(len(x))
        return orig_len(x)

    H.interp.models[len] = m_len


@obligation((P, "C09"), "lexer.parse_args", split=("cmd", ("A", "a", "M", "c")), any_of=("roles", ("ij", "ji")), functions=["svg_path_iter._parse_args"])
def parse_args(H):
    """_parse_args for any number of tokens and arguments (loop invariant + variant), against the contracts of its patterns."""
    import picosvg.svg_path_iter as S

    cmd = H.case("cmd", ("A", "a", "M", "c"))
    if H.mode == "concrete":
        got = list(S._parse_args(cmd, "1.5-2,3 10-.5e1 7" if cmd in "Aa" else "1.5-2,3 .5.5"))
        want = [1.5, -2.0, 3.0, 1, 0, -5.0, 7.0] if cmd in "Aa" else [1.5, -2.0, 3.0, 0.5, 0.5]
        H.prove(got == want, "parse_args.concrete_twin", detail=repr(got))
        return
    import ast

    from pyvc import loops
    from pyvc.vc import StopPath

    loops.install(H)
    state = {}
    _install_regex_stubs(H, state)
    roles = H.case("roles", ("ij", "ji"))
    shape = H.case("pieces", PIECES)
    toks, pieces = [], []
    for ch in ("" if shape == "none" else shape):
        if ch == "e":
            pieces.append("")
        else:
            t = _Tok(H, f"t{len(toks)}")
            toks.append(t)
            pieces.append(t)
    is_arc = cmd in "Aa"
    fn_node = H.interp.closure_of(S._parse_args).node
    whiles = [n for n in loops._walk_same_scope_sorted(fn_node) if isinstance(n, ast.While)]
    if len(whiles) != 1:
        raise EngineError("_parse_args no longer has exactly one while loop: the loop contract does not apply")
    body_stores = {n.id for st in whiles[0].body for n in ast.walk(st) if isinstance(n, ast.Name) and isinstance(n.ctx, ast.Store)}

    class Inv:
        def _roles(self, env):
            lists = [k for k, v in env.items() if isinstance(v, list) and all(isinstance(t, _Tok) for t in v) and (v or k in env)]
            lists = [k for k in lists if isinstance(env[k], list) and env[k] is not None and (len(env[k]) == len(toks))]
            zeros = sorted(k for k, v in env.items() if type(v) is int and v == 0)
            if len(zeros) != 2 or not lists:
                raise EngineError(f"loop state of _parse_args not recognised (counters {zeros}, token lists {lists})")
            i_name, j_name = (zeros[0], zeros[1]) if roles == "ij" else (zeros[1], zeros[0])
            return lists, i_name, j_name

        def check_init(self, env):
            lists, i_name, j_name = self._roles(env)
            ok = all(len(env[k]) == len(toks) and all(a is b for a, b in zip(env[k], toks)) for k in lists)
            H.prove(ok, "parse_args.init_token_list_is_the_non_empty_pieces_in_order")
            H.prove(not H.interp.frames[-1].yields, "parse_args.init_nothing_yielded_before_the_loop")

        def havoc(self, env):
            lists, i_name, j_name = self._roles(env)
            self.i_name, self.j_name = i_name, j_name
            self.I, self.J, self.L = H.int("i"), H.int("j"), H.int("n_tokens")
            H.assume(And(self.I >= 0, self.J >= 0, self.J <= self.L))
            self.cur = _Tok(H, "cur")
            self.abs = _AbsTokens(self.L, self.J, self.cur)
            for k in lists:
                env[k] = self.abs
            for k, v in list(env.items()):
                if isinstance(v, _LenInt):
                    env[k] = self.L
            for k in body_stores - {i_name, j_name}:
                env.pop(k, None)  # temporaries of an iteration: reading one before it is assigned is an error, not a stale value
            env[i_name], env[j_name] = self.I, self.J
            self.yields_before = len(H.interp.frames[-1].yields)
            state["last_match"] = None

        def check_step(self, env):
            ys = H.interp.frames[-1].yields[self.yields_before:]
            pos = self.I % 7
            want_flag = is_arc and H.truth(Or(pos == 3, pos == 4))
            kind = "flag" if want_flag else "number"
            ok = len(ys) == 1 and state["last_match"] is not None and state["last_match"][0] is self.cur and state["last_match"][1] == kind and state["last_match"][2] is not None
            H.prove(ok, "parse_args.step_reads_one_argument_of_the_kind_its_position_demands_from_the_head_of_the_current_token",
                    detail=f"yields={len(ys)} last_match={state['last_match'] and state['last_match'][1]} wanted={kind}")
            if not ok:
                return
            lex = _Lexeme(self.cur, kind)
            H.prove(H.interp.eq(ys[0], lex.value() * 1.0 if kind == "flag" else lex.value()), "parse_args.step_yields_the_value_of_that_argument")
            H.prove(H.interp.eq(env[self.i_name], self.I + 1), "parse_args.step_counts_the_argument")
            has, end = self.cur.m[kind]
            rest_left = H.truth(self.cur.len > end)
            if rest_left:
                w = self.abs.written
                good = isinstance(w, _Tok) and getattr(w, "rest_of", None) == (self.cur, kind)
                H.prove(good, "parse_args.step_requeues_the_rest_of_the_token")
                H.prove(H.interp.eq(env[self.j_name], self.J), "parse_args.step_stays_on_a_token_that_has_text_left")
                if good:
                    H.prove(And(w.len < self.cur.len, w.len >= 1), "parse_args.variant_the_current_token_gets_shorter")
            else:
                H.prove(self.abs.written is None or self.abs.written is self.cur, "parse_args.step_leaves_a_consumed_token_alone")
                H.prove(H.interp.eq(env[self.j_name], self.J + 1), "parse_args.step_moves_to_the_next_token_when_this_one_is_used_up")

        def at_exit(self, env):
            H.prove(len(H.interp.frames[-1].yields) == self.yields_before, "parse_args.nothing_is_yielded_after_the_last_token")

    inv = Inv()
    H.ctx.while_contracts[("_parse_args", 0)] = inv
    res, e = H.catch(S._parse_args, cmd, _ArgText(pieces))
    if e is not None:
        lm = state.get("last_match")
        H.prove(isinstance(e, ValueError) and lm is not None and lm[2] is None, "parse_args.raises_only_ValueError_and_only_when_the_head_of_the_token_is_not_the_argument_wanted", detail=repr(e))
        if lm is not None and lm[2] is None and hasattr(inv, "I"):
            pos = inv.I % 7
            want_flag = is_arc and H.truth(Or(pos == 3, pos == 4))
            H.prove(lm[1] == ("flag" if want_flag else "number"), "parse_args.the_refused_text_was_tried_as_the_kind_its_position_demands")
        return
    if shape == "none" or not toks:
        H.prove(list(res) == [], "parse_args.no_tokens_no_arguments")


# ------------------------------------------------------------------------------------------- parse_svg_path against the contracts
class _PathText:
    __pyvc_abstract__ = True

    def __init__(self, parts):
        self.parts = parts


LET = ("M", "z", "a", "L")
COUNTS = ("none", "one_group", "two_groups", "ragged")


@obligation((P, "C09"), "lexer.parse_svg_path", split=("exploded", (True, False)), functions=["svg_path_iter.parse_svg_path", "svg_path_iter._explode_cmd", "svg_meta.check_cmd"])
def parse_svg_path_structure(H):
    """parse_svg_path with the command split and _parse_args replaced by their contracts: one result per command, in order,
    arguments checked against the arity table (ValueError otherwise), implicit repeats exploded iff asked (for <= 2 commands;
    the loop body reads nothing but its own command letter and argument text)."""
    import picosvg.svg_path_iter as S

    exploded = H.case("exploded", (True, False))
    if H.mode == "concrete":
        got = list(S.parse_svg_path("  M1 2 3 4z l5,6a1 1 0 1 0 7 8", exploded=exploded))
        want = ([("M", (1.0, 2.0)), ("L", (3.0, 4.0)), ("z", ()), ("l", (5.0, 6.0)), ("a", (1.0, 1.0, 0.0, 1, 0, 7.0, 8.0))] if exploded
                else [("M", (1.0, 2.0, 3.0, 4.0)), ("z", ()), ("l", (5.0, 6.0)), ("a", (1.0, 1.0, 0.0, 1, 0, 7.0, 8.0))])
        H.prove(got == want, "parse_svg_path.concrete_twin", detail=repr(got))
        return
    k = H.case("commands", (0, 1, 2))
    cmds, texts, args_of = [], [], {}
    parts = [_ArgText(["lead"])]
    for n in range(k):
        c = H.case(f"cmd{n}", LET)
        cnt = H.case(f"count{n}", COUNTS)
        ar = ARITY[c.lower()]
        m = {"none": 0, "one_group": ar, "two_groups": 2 * ar, "ragged": ar + 1}[cnt]
        t = _ArgText([f"args{n}"])
        args_of[id(t)] = tuple(H.reals(f"a{n}_", m))
        cmds.append((c, cnt, ar))
        texts.append(t)
        parts += [c, t]
    sep = getattr(S, "_CMD_RE", None)
    if sep is None:
        raise EngineError("svg_path_iter._CMD_RE is gone: no contract for the command split")
    calls = []

    def stub(I, pattern, method, a, kw):
        if method == "split" and len(a) == 1 and isinstance(a[0], _PathText) and pattern.pattern == sep.pattern:
            return list(a[0].parts)
        if any(isinstance(x, (_PathText, _ArgText)) for x in a):
            raise EngineError(f"{pattern.pattern!r}.{method} on abstract path text: no contract for this use")
        return NotImplemented

    H.ctx.regex_stub = stub

    def parse_args_rec(I, cmd, text):
        calls.append((cmd, text))
        return iter(args_of.get(id(text), ()))

    H.override(S._parse_args, parse_args_rec)
    res, e = H.catch(S.parse_svg_path, _PathText(parts), exploded=exploded)
    out = None
    if e is None:
        try:
            out = list(res)
        except Exception as ex:  # noqa
            e = ex
    first_bad = next((n for n, (c, cnt, ar) in enumerate(cmds) if cnt == "ragged"), None)
    if first_bad is not None:
        # not a conforming string: C10 asks only that nothing but ValueError escapes (that check_cmd itself refuses such a
        # count is the contract of check_cmd, obligation grammar.explode_cmd)
        H.prove(e is None or isinstance(e, ValueError), "parse_svg_path.wrong_argument_count_raises_nothing_but_ValueError", detail=repr(e))
        return
    H.prove(e is None, "parse_svg_path.well_formed_commands_do_not_raise", detail=repr(e))
    if e is not None:
        return
    H.prove([c for c, _ in calls] == [c for c, _, _ in cmds] and all(t is x for (_, t), x in zip(calls, texts)), "parse_svg_path.each_argument_text_is_tokenised_for_its_own_command_in_order")
    want = []
    for n, (c, cnt, ar) in enumerate(cmds):
        a = args_of[id(texts[n])]
        if ar == 0 or not exploded:
            want.append((c, a))
        else:
            implicit = {"M": "L", "m": "l"}.get(c, c)
            for g in range(len(a) // ar):
                want.append((c if g == 0 else implicit, a[g * ar:(g + 1) * ar]))
    ok = len(out) == len(want) and all(o[0] == w[0] and len(o[1]) == len(w[1]) for o, w in zip(out, want))
    H.prove(ok, "parse_svg_path.one_result_per_command_or_argument_group_in_order", detail=f"{[(o[0], len(o[1])) for o in out]} vs {[(w[0], len(w[1])) for w in want]}")
    if ok:
        for o, w in zip(out, want):
            H.prove(H.close(tuple(o[1]), tuple(w[1])), "parse_svg_path.arguments_reach_the_result_unchanged_and_in_order")


# -------------------------------------------------------------------------------- the patterns of parse_svg_transform (C11)
def _call_patterns(fn, method):
    """string constants handed to re.<method>(...) inside the real function, read from its AST"""
    import ast
    import inspect
    import textwrap

    tree = ast.parse(textwrap.dedent(inspect.getsource(fn)))
    out = []
    for n in ast.walk(tree):
        if isinstance(n, ast.Call) and isinstance(n.func, ast.Attribute) and n.func.attr == method and isinstance(n.func.value, ast.Name) and n.func.value.id == "re" and n.args:
            a = n.args[0]
            if isinstance(a, ast.Constant) and isinstance(a.value, str):
                out.append(a.value)
            else:
                out.append(None)
    return out


T_NAMES = ("matrix", "translate", "scale", "rotate", "skewX", "skewY")
T_SIGMA = "0123456789+-.eE,()" + WSP + "".join(sorted(set("".join(T_NAMES)) | set("".join(T_NAMES).upper()) | set("".join(T_NAMES).lower())))


def _comma_wsp():
    w, c = rx.Chars(WSP), rx.Chars(",")
    return rx.Alt(rx.Seq(rx.Plus(w), rx.Opt(c), rx.Star(w)), rx.Seq(c, rx.Star(w)))


def _transform_item():
    w = rx.Chars(WSP)
    name = rx.Alt(*[rx.Word(n) for n in T_NAMES])
    return rx.Seq(name, rx.Star(w), rx.Chars("("), rx.Star(w), _number(), rx.Star(rx.Seq(_comma_wsp(), _number())), rx.Star(w), rx.Chars(")"))


@component(("C11", "C02", "C06"), "transform.patterns", "static")
def transform_patterns(tier, seed):
    from picosvg import svg_transform as T

    res = ComponentResult(backend="automata-product")
    res.rule = ("the string constants handed to re.finditer / re.split inside the real parse_svg_transform (read from its AST), each against the SVG transform grammar for ALL strings over "
                "the transform alphabet: automata product as in lexer.patterns")
    res.functions = ["svg_transform.parse_svg_transform"]
    finds, splits = _call_patterns(T.parse_svg_transform, "finditer"), _call_patterns(T.parse_svg_transform, "split")
    if len(finds) != 1 or len(splits) != 1 or None in finds + splits:
        res.notes.append("transform.patterns: parse_svg_transform no longer tokenises with one re.finditer and one re.split over constant patterns; the lexical layer of transform lists rests on the bounded component transform.strings alone")
        res.obligations = res.discharged = 1  # the component is not vacuous: it established that its contract does not apply
        return res
    checks = [
        ("item", finds[0], "covers", _transform_item, "every transform item of the grammar is matched as a whole"),
        ("separator", splits[0], "within", lambda: rx.Plus(rx.Chars("," + WSP)), "the argument separator matches only commas / white space, never the empty string"),
        ("separator", splits[0], "covers", _comma_wsp, "every comma-wsp of the grammar is matched as a whole (no empty argument between two numbers)"),
    ]
    for what, text, mode, spec, contract in checks:
        res.obligations += 1
        try:
            pat = rx.Pattern(text)
            mismatch = rx.cross_check(pat, 2000, seed, extra=T_SIGMA)
            if mismatch:
                res.errors.append("automaton does not reproduce the real pattern: " + mismatch)
                continue
            r = rx.compare(pat, rx.Language(spec()), mode, alphabet=T_SIGMA)
        except rx.Unsupported as e:
            res.obligations -= 1
            res.notes.append(f"transform.patterns: {text!r} uses a construct the automata procedure does not model ({e}); undecided here, covered by the bounded component transform.strings only")
            continue
        res.evaluations += r["states"]
        res.samples.append(dict(pattern=text, contract=contract, product_states=r["states"], character_classes=r["classes"]))
        if r["ok"]:
            res.discharged += 1
            continue
        u = r["witnesses"][0][0]
        # replay on the real parser: a transform list built around the witness against the independent transform parser
        from bounded import refrender

        confirmed, why = False, ""
        for w, _, _ in r["witnesses"]:
            for s in ([w] if what == "item" else [f"translate(1{w}2)", f"matrix(1{w}0{w}0{w}1{w}5{w}6)"]):
                try:
                    want = refrender.parse_transform(s)
                except Exception:  # noqa
                    continue
                try:
                    got = tuple(T.Affine2D.fromstring(s))
                except Exception as ex:  # noqa
                    confirmed, why = True, f"{s!r} is a valid transform list meaning {tuple(want)} but fromstring raises {type(ex).__name__}: {ex}"
                    break
                if any(abs(a - b) > 1e-9 * (1 + abs(b)) for a, b in zip(got, want)):
                    confirmed, why = True, f"{s!r} means {tuple(want)} but is read as {got}"
                    break
            if confirmed:
                break
        res.findings.append(Finding(key=f"transform.patterns:{what}:{mode}", text=f"pattern {text!r} of parse_svg_transform breaks its contract ({contract}); witness {u!r}" + (f"; {why}" if why else ""),
                                    replay=dict(pattern=text, witnesses=[w[0] for w in r["witnesses"]][:8], detail=why), confirmed=confirmed))
    return res


# ------------------------------------------------------------------- the element-path allow-list of the final gate (C01, C17)
def _gate_patterns():
    """(default patterns, allow_text-only patterns): string constants of checkpicosvg that describe element paths, from its AST"""
    import ast
    import inspect
    import textwrap

    from picosvg.svg import SVG

    tree = ast.parse(textwrap.dedent(inspect.getsource(SVG.checkpicosvg)))
    text_only = set()
    for n in ast.walk(tree):
        if isinstance(n, ast.If) and any(isinstance(x, ast.Name) and x.id == "allow_text" for x in ast.walk(n.test)):
            for st in n.body:
                for c in ast.walk(st):
                    if isinstance(c, ast.Constant) and isinstance(c.value, str) and "/svg" in c.value and "\\[" in c.value:
                        text_only.add(c.value)
    every = {c.value for c in ast.walk(tree) if isinstance(c, ast.Constant) and isinstance(c.value, str) and "/svg" in c.value and "\\[" in c.value}
    return sorted(every - text_only), sorted(text_only)


def _path_language(allow_text):
    N = rx.Seq(rx.Chars("["), rx.Plus(rx.Chars("0123456789")), rx.Chars("]"))
    seg = lambda *names: rx.Seq(rx.Chars("/"), rx.Alt(*[rx.Word(n) for n in names]), N)
    root = rx.Word("/svg[0]")
    defs = rx.Seq(root, rx.Word("/defs[0]"))
    alts = [root, defs, rx.Seq(defs, seg("linearGradient", "radialGradient"), rx.Opt(seg("stop"))), rx.Seq(root, rx.Plus(seg("path", "g")))]
    if allow_text:
        alts.append(rx.Seq(root, rx.Plus(seg("text", "textPath")), rx.Star(seg("text", "tspan", "textPath"))))
    return rx.Alt(*alts)


PATH_SIGMA = "/[]0123456789abcdefghijklmnopqrstuvwxyzABCDEFGHIJKLMNOPQRSTUVWXYZ-._:"


@component(("C01", "C17"), "gate.allowlist", "static")
def gate_allowlist(tier, seed):
    res = ComponentResult(backend="automata-product")
    res.rule = ("every element-path pattern of checkpicosvg (string constants read from its AST) accepts, as a whole string, nothing outside the README grammar's element paths "
                "(/svg[0], /svg[0]/defs[0], gradients with stops under defs, chains of g / path; text chains only with allow_text): pattern -> NFA, grammar -> DFA, product explored for ALL strings over the path alphabet")
    res.functions = ["svg.SVG.checkpicosvg"]
    default, text_only = _gate_patterns()
    if not default:
        res.obligations = res.discharged = 1
        res.notes.append("gate.allowlist: checkpicosvg no longer holds its allow-list as string constants; what the gate accepts rests on gate.checkpicosvg (symbolic run) and the bounded grammar oracle")
        return res
    for pats, allow_text in ((default, False), (text_only, True)):
        lang = rx.Language(_path_language(allow_text))
        for text in pats:
            res.obligations += 1
            try:
                pat = rx.WholeMatch(text)
                if not pat.anchored:
                    res.findings.append(Finding(key=f"gate.allowlist:unanchored:{text}", text=f"allow-list pattern {text!r} is not anchored at the end: re.match accepts every path that merely STARTS like an allowed one (e.g. a <rect> below a <path>)",
                                                replay=dict(pattern=text), confirmed=False))
                    continue
                rnd = __import__("random").Random(seed)
                toks = ["/svg[0]", "/defs[0]", "/linearGradient[3]", "/radialGradient[12]", "/stop[0]", "/path[1]", "/g[22]", "/text[0]", "/tspan[1]", "/textPath[2]", "/rect[0]", "x", "[", "0", "/g-emoji[0]"]
                for _ in range(1500):
                    w = "".join(rnd.choice(toks) for _ in range(rnd.randint(0, 5)))
                    if bool(re.match(text, w)) != pat.accepts(w):
                        res.errors.append(f"automaton does not reproduce the real pattern {text!r} on {w!r}")
                        break
                else:
                    r = rx.compare(pat, lang, "within", alphabet=PATH_SIGMA)
                    res.evaluations += r["states"]
                    res.samples.append(dict(pattern=text, allow_text=allow_text, product_states=r["states"], character_classes=r["classes"]))
                    if r["ok"]:
                        res.discharged += 1
                    else:
                        w = r["witnesses"][0][0]
                        really = bool(re.match(text, w))
                        res.findings.append(Finding(key=f"gate.allowlist:{text}", text=f"allow-list pattern {text!r} accepts the element path {w!r}, which the picosvg grammar does not allow" + ("" if allow_text is False else " even with allow_text") + f" (re.match on the real pattern: {really})",
                                                    replay=dict(pattern=text, path=w, allow_text=allow_text), confirmed=really))
            except rx.Unsupported as e:
                res.obligations -= 1
                res.notes.append(f"gate.allowlist: {text!r} uses a construct the automata procedure does not model ({e}); undecided here, covered by gate.checkpicosvg and the bounded grammar oracle")
    return res


@component(("C08", "C04", "C19"), "meta.patterns", "static")
def meta_patterns(tier, seed):
    """the remaining regular expressions of the package, read from the AST of the function that uses them"""
    from picosvg import svg, svg_meta, svg_types

    res = ComponentResult(backend="automata-product")
    res.rule = ("paint / clip reference pattern of _id_of_target: accepts, as a whole string, every url(#id) whose id is an XML name (C08: a reference that is not recognised is a dangling one), and nothing that is "
                "not of the form url(#...); the separators of parse_view_box and of the dash array never consume a character of a number; all strings, automata product")
    res.functions = ["svg._id_of_target", "svg_meta.parse_view_box", "svg_types.SVGShape.stroke_commands"]
    ID = "abcXYZ019._-:é"
    jobs = []
    urls = _call_patterns(svg._id_of_target, "match")
    if len(urls) == 1 and urls[0]:
        url_lang = lambda: rx.Seq(rx.Word("url(#"), rx.Plus(rx.Chars(ID)), rx.Chars(")"))
        loose = lambda: rx.Seq(rx.Word("url(#"), rx.Plus(rx.Chars(ID + "(#url \t")), rx.Chars(")"))
        jobs += [("reference", urls[0], "covers", url_lang, "every url(#id) is recognised", "url(#)" + ID + " \t"), ("reference", urls[0], "within", loose, "only strings of the form url(#...) are recognised", "url(#)" + ID + " \t")]
    else:
        res.notes.append("meta.patterns: _id_of_target no longer uses one constant pattern; reference recognition rests on the reference-graph oracle (bounded)")
    for fn, what in ((svg_meta.parse_view_box, "viewBox separator"), (svg_types.SVGShape.stroke_commands, "dash array separator")):
        try:
            pats = _call_patterns(fn, "split")
        except (OSError, TypeError):
            pats = []
        if len(pats) == 1 and pats[0]:
            jobs.append((what, pats[0], "within", lambda: rx.Plus(rx.Chars("," + WSP)), "matches only commas / white space, never the empty string", "0123456789+-.eE," + WSP))
        else:
            res.notes.append(f"meta.patterns: the {what} is no longer one constant pattern handed to re.split; covered by the bounded components only")
    for what, text, mode, spec, contract, sigma in jobs:
        res.obligations += 1
        try:
            pat = rx.WholeMatch(text) if what == "reference" else rx.Pattern(text)
            if what != "reference":
                mismatch = rx.cross_check(pat, 1500, seed, extra=sigma)
                if mismatch:
                    res.errors.append("automaton does not reproduce the real pattern: " + mismatch)
                    continue
            r = rx.compare(pat, rx.Language(spec()), mode, alphabet=sigma)
        except rx.Unsupported as e:
            res.obligations -= 1
            res.notes.append(f"meta.patterns: {text!r} uses a construct the automata procedure does not model ({e}); undecided here")
            continue
        res.evaluations += r["states"]
        res.samples.append(dict(what=what, pattern=text, contract=contract, product_states=r["states"]))
        if r["ok"]:
            res.discharged += 1
            continue
        w = r["witnesses"][0][0]
        really = (bool(re.match(text, w)) != (mode == "covers")) if what == "reference" else True
        res.findings.append(Finding(key=f"meta.patterns:{what}:{mode}", text=f"{what} pattern {text!r} breaks its contract ({contract}): witness {w!r} (re.match on the real pattern: {bool(re.match(text, w))})",
                                    replay=dict(pattern=text, witness=w), confirmed=bool(really)))
    if not res.obligations:
        res.obligations = res.discharged = 1
    return res
