"""Further bounded stand-ins (labelled bounded, never counted as proved): they sample the *assumed* contracts
(pathops set algebra, float behaviour of the arc code, the path interpreter used as specification)."""
from __future__ import annotations

import math
import random

from pyvc.registry import ComponentResult, Finding, component


# ------------------------------------------------------------------------------------------------ C13: boolean ops vs pointwise combination
def _random_operand(rnd):
    kind = rnd.choice(["rect", "tri", "star", "ring", "blob", "open"])
    x, y = rnd.randint(5, 50), rnd.randint(5, 50)
    w, h = rnd.randint(15, 45), rnd.randint(15, 45)
    if kind == "rect":
        return f"M{x},{y} L{x + w},{y} L{x + w},{y + h} L{x},{y + h} Z"
    if kind == "tri":
        return f"M{x},{y} L{x + w},{y + h // 2} L{x + w // 3},{y + h} Z"
    if kind == "star":  # self-intersecting pentagram
        pts = [(x + w / 2 + w / 2 * math.sin(2 * math.pi * k * 2 / 5), y + h / 2 - h / 2 * math.cos(2 * math.pi * k * 2 / 5)) for k in range(5)]
        return "M" + " L".join(f"{px:.3f},{py:.3f}" for px, py in pts) + " Z"
    if kind == "ring":  # two contours, same or opposite direction
        inner = f"M{x + w // 4},{y + h // 4} L{x + 3 * w // 4},{y + h // 4} L{x + 3 * w // 4},{y + 3 * h // 4} L{x + w // 4},{y + 3 * h // 4} Z"
        if rnd.random() < 0.5:
            inner = f"M{x + w // 4},{y + h // 4} L{x + w // 4},{y + 3 * h // 4} L{x + 3 * w // 4},{y + 3 * h // 4} L{x + 3 * w // 4},{y + h // 4} Z"
        return f"M{x},{y} L{x + w},{y} L{x + w},{y + h} L{x},{y + h} Z " + inner
    if kind == "blob":
        return f"M{x},{y + h / 2} C{x},{y} {x + w},{y} {x + w},{y + h / 2} Q{x + w / 2},{y + h * 1.3} {x},{y + h / 2} Z"
    return f"M{x},{y} L{x + w},{y + h} L{x + w},{y}"  # open: filled as if closed


@component(("C13", "C03"), "boolean_ops.pointwise", "bounded")
def boolean_ops(tier, seed):
    from bounded import refrender
    from picosvg import svg_pathops
    from picosvg.svg_types import SVGPath

    res = ComponentResult()
    n = 150 if tier == "quick" else 4000
    res.bound = f"{n} operand tuples (1-4 paths: rectangles, triangles, pentagrams, rings, curved blobs, open paths) x a fill rule per operand x union / intersection / difference / remove_overlaps"
    res.rule = "result interior under nonzero AND under evenodd vs the pointwise set combination of the operands' interiors (own winding-number test), at grid points farther than 0.4 from every edge; distinct = distinct (operands, rules, op)"
    rnd = random.Random(seed)
    seen = set()
    for _ in range(n):
        k = rnd.randint(1, 4)
        ds = [_random_operand(rnd) for _ in range(k)]
        rules = [rnd.choice(["nonzero", "evenodd"]) for _ in range(k)]
        op = rnd.choice(["union", "intersection", "difference", "remove_overlaps"])
        if op == "remove_overlaps":
            ds, rules = ds[:1], rules[:1]
        res.evaluations += 1
        seen.add((tuple(ds), tuple(rules), op))
        seqs = [list(SVGPath(d=d).as_cmd_seq()) for d in ds]
        try:
            if op == "remove_overlaps":
                out = list(svg_pathops.remove_overlaps(seqs[0], rules[0]))
            else:
                out = list(getattr(svg_pathops, op)(seqs, rules))
        except Exception:  # noqa - an error instead of a wrong path is what the property asks for
            continue
        subs_in = [refrender.flatten_path(refrender.parse_path(d)) for d in ds]
        subs_out = refrender.flatten_path([(c, tuple(a)) for c, a in out])
        bad = None
        for i in range(24):
            for j in range(24):
                p = (100 * (i + 0.43) / 24, 100 * (j + 0.57) / 24)
                if any(refrender.dist_to_edges(s, p) < 0.4 for s in subs_in if s) or (subs_out and refrender.dist_to_edges(subs_out, p) < 0.4):
                    continue
                ins = [refrender._orig_winding(s, p, r) if s else False for s, r in zip(subs_in, rules)]
                want = ins[0]
                for v in ins[1:]:
                    want = (want or v) if op == "union" else (want and v) if op == "intersection" else (want and not v)
                got_nz = refrender._orig_winding(subs_out, p, "nonzero") if subs_out else False
                got_eo = refrender._orig_winding(subs_out, p, "evenodd") if subs_out else False
                if got_nz != want or got_eo != want:
                    bad = (p, want, got_nz, got_eo)
                    break
            if bad:
                break
        if bad:
            p, want, nz, eo = bad
            res.findings.append(Finding(key=f"boolean_ops:{op}:{hash((tuple(ds), tuple(rules))) & 0xffffff:x}",
                                        text=f"{op} of {ds} under {rules}: at ({p[0]:.1f},{p[1]:.1f}) the set combination is {want} but the result is inside={nz} (nonzero) / {eo} (evenodd)",
                                        replay=dict(op=op, paths=ds, rules=rules), confirmed=True))
            if len(res.findings) >= 3:
                break
        elif len(res.samples) < 2:
            res.samples.append(dict(op=op, paths=ds, rules=rules, verdict="agrees"))
    res.distinct_nontrivial = len(seen)
    return res


# ------------------------------------------------------------------------------------------------ C12: native arcs against the independent F.6.5 implementation
@component(("C12", "C09"), "arc.native_sweep", "bounded")
def arc_native(tier, seed):
    from contracts.c12_arc import native_arc_oracle

    res = ComponentResult()
    n = 3000 if tier == "quick" else 100000
    res.bound = f"{n} arcs: coordinates and radii over 1e-3 .. 1e4, rotations over -800 .. 800 degrees, all flag combinations, radii that barely / exactly / do not fit the chord, negative and zero radii, coincident end points"
    res.rule = "arc_to_cubic run natively (IEEE floats) vs an independent SVG F.6.5 / F.6.6 implementation: end point exact, radial deviation <= 0.03%, swept angle as selected by the flags; distinct = distinct argument tuples"
    rnd = random.Random(seed)
    seen = set()
    for _ in range(n):
        mag = 10 ** rnd.uniform(-1, 3)
        start = (rnd.uniform(-mag, mag), rnd.uniform(-mag, mag))
        end = (start[0] + rnd.uniform(-mag, mag), start[1] + rnd.uniform(-mag, mag)) if rnd.random() > 0.03 else start
        chord = math.hypot(end[0] - start[0], end[1] - start[1])
        c = rnd.random()
        if c < 0.25:
            rx = ry = chord / 2 * rnd.choice([1.0, 1.0000001, 0.9999, 0.5, 1.001])
        else:
            rx, ry = mag * 10 ** rnd.uniform(-1.5, 1), mag * 10 ** rnd.uniform(-1.5, 1)
        if rnd.random() < 0.1:
            rx = -rx
        if rnd.random() < 0.05:
            ry = -ry
        if rnd.random() < 0.03:
            rx = 0.0
        rot = rnd.choice([0.0, 30.0, 90.0, 180.0, 359.5, -45.0, rnd.uniform(-800, 800)])
        large, sweep = rnd.randint(0, 1), rnd.randint(0, 1)
        args = (start, rx, ry, rot, large, sweep, end)
        res.evaluations += 1
        seen.add(args)
        try:
            ok, text = native_arc_oracle(*args)
        except Exception as e:  # noqa
            ok, text = False, f"raised {type(e).__name__}: {e}"
        if not ok:
            res.findings.append(Finding(key=f"arc.native:{'negative-radius' if (rx < 0) != (ry < 0) else 'arc'}", text=f"arc_to_cubic{args}: {text}", replay=dict(args=repr(args)), confirmed=True))
            break
    res.samples.append(dict(args=repr(args), verdict=text))
    res.distinct_nontrivial = len(seen)
    return res


# ------------------------------------------------------------------------------------------------ C20: random (s, T(s)) pairs and near misses
@component("C20", "reuse.pairs", "bounded")
def reuse_pairs(tier, seed):
    from bounded import refrender
    from picosvg.svg_reuse import affine_between
    from picosvg.svg_types import SVGPath

    res = ComponentResult()
    n = 400 if tier == "quick" else 10000
    res.bound = f"{n} pairs: outlines of lines / curves (no arcs), T in translations, rotations, uniform and non-uniform scalings, mirrorings, general affine maps; unrelated and near-miss pairs; tolerances 0.001 .. 1"
    res.rule = "a reported transform, applied with plain matrix arithmetic to every point of s1, must reproduce s2 within the tolerance; an exact translation must be found; distinct = distinct pairs"
    rnd = random.Random(seed)
    seen = set()

    def outline():
        pts = [(rnd.randint(-40, 40), rnd.randint(-40, 40)) for _ in range(rnd.randint(3, 6))]
        cmds = [("M", pts[0])]
        for p in pts[1:]:
            if rnd.random() < 0.3:
                c = (p[0] + rnd.randint(-10, 10), p[1] + rnd.randint(-10, 10))
                cmds.append(("Q", c + p))
            else:
                cmds.append(("L", p))
        cmds.append(("Z", ()))
        return cmds

    def tostr(cmds):
        return " ".join(c + ",".join(f"{v:.6f}".rstrip("0").rstrip(".") for v in a) for c, a in cmds)

    def image(cmds, M):
        out = []
        for c, a in cmds:
            pts = [refrender.apply(M, (a[i], a[i + 1])) for i in range(0, len(a), 2)]
            out.append((c, tuple(v for p in pts for v in p)))
        return out

    def relative_form_deviation(p_img, p2):
        """largest per-argument difference between the two outlines in the relative form the library compares
        (what affine_between promises: every command of the image within the tolerance of the other's)"""
        from picosvg.svg_reuse import _affine_friendly

        a, b = _affine_friendly(p_img), _affine_friendly(p2)
        ca, cb = list(a), list(b)  # iterating an SVGPath yields its commands as written (relative here)
        if len(ca) != len(cb) or any(x[0] != y[0] for x, y in zip(ca, cb)):
            return float("inf")
        return max((abs(u - v) for x, y in zip(ca, cb) for u, v in zip(x[1], y[1])), default=0.0)

    def judge(s1, s2, tol, kind, r):
        """-> Finding or None for a reported transform r"""
        got = image(s1, tuple(r))
        worst = max((abs(x - y) for (c1, a1), (c2, a2) in zip(got, s2) for x, y in zip(a1, a2)), default=0.0)
        if len(got) != len(s2) or any(c1 != c2 for (c1, _), (c2, _) in zip(got, s2)) or worst > tol * 1.5 + 1e-6:
            rel = relative_form_deviation(SVGPath(d=tostr(got)), SVGPath(d=tostr(s2)))
            if rel <= tol * 1.5 + 1e-6:
                # each relative command is within the tolerance, the absolute positions are not: per-segment differences add up along
                # the outline (recorded finding F21, identified by this signature; anything else is reported below)
                return Finding(key="reuse.pairs:drift-accumulates-along-outline", text=f"{kind}: reported {tuple(round(v, 4) for v in r)} keeps every relative command within the tolerance {tol} "
                               f"but the absolute outline ends up {worst:.4g} away from s2; s1={tostr(s1)!r} s2={tostr(s2)!r}", replay=dict(s1=tostr(s1), s2=tostr(s2), tol=tol), confirmed=True)
            return Finding(key="reuse.pairs:reported-transform-does-not-map", text=f"{kind}: reported {tuple(round(v, 4) for v in r)} maps s1 {worst:.4g} away from s2 (tolerance {tol}; relative form {rel:.4g}); s1={tostr(s1)!r} s2={tostr(s2)!r}",
                           replay=dict(s1=tostr(s1), s2=tostr(s2), tol=tol), confirmed=True)
        return None

    def parse(d):
        return [(c, tuple(a)) for c, a in SVGPath(d=d).as_cmd_seq()]

    # pinned pair (found by the thorough tier): the known drift finding is exercised on every run
    PINNED_PAIRS = [("M-27,-24 L-13,32 L-5,-8 Q-4,-10,6,-13 L2,-22 L18,-13 Z", "M-19.8,-25.7 L-25.4,28.9 L0.2,-4.7 Q2.2,-6.2,15.4,-5.9 L14.2,-15.2 L29.8,-2.3 Z", 1.0)]
    for d1, d2, tol in PINNED_PAIRS:
        res.evaluations += 1
        r = affine_between(SVGPath(d=d1), SVGPath(d=d2), tol)
        if r is not None:
            f = judge(parse(d1), parse(d2), tol, "pinned", r)
            if f is not None:
                res.findings.append(f)

    for _ in range(n):
        s1 = outline()
        kind = rnd.choice(["translate", "rotate", "scale", "nonuniform", "mirror", "affine", "unrelated", "near-miss"])
        tol = rnd.choice([0.001, 0.01, 0.1, 1.0])
        a = rnd.uniform(0, 2 * math.pi)
        M = {"translate": (1, 0, 0, 1, rnd.uniform(-50, 50), rnd.uniform(-50, 50)), "rotate": (math.cos(a), math.sin(a), -math.sin(a), math.cos(a), 5, -3),
             "scale": (2.5, 0, 0, 2.5, 1, 2), "nonuniform": (2, 0, 0, 0.5, -4, 7), "mirror": (-1, 0, 0, 1, 10, 0), "affine": (1.2, 0.3, -0.4, 0.9, 3, 4)}.get(kind, (1, 0, 0, 1, 7, 7))
        s2 = image(s1, M)
        if kind == "unrelated":
            s2 = outline()
        elif kind == "near-miss":
            c, args = s2[1]
            s2[1] = (c, (args[0] + 3 * tol + 0.5,) + tuple(args[1:]))
        res.evaluations += 1
        seen.add((tostr(s1), tostr(s2), tol))
        p1, p2 = SVGPath(d=tostr(s1)), SVGPath(d=tostr(s2))
        try:
            r = affine_between(p1, p2, tol)
        except Exception as e:  # noqa
            continue
        if r is None:
            if kind == "translate":
                res.findings.append(Finding(key="reuse.pairs:translation-not-found", text=f"exact translation of {tostr(s1)!r} by {M[4:]} not found at tolerance {tol}", replay=dict(s1=tostr(s1), s2=tostr(s2), tol=tol), confirmed=True))
                break
            continue
        f = judge(s1, s2, tol, kind, r)
        if f is not None and not any(g.key == f.key for g in res.findings):
            res.findings.append(f)
            if f.key != "reuse.pairs:drift-accumulates-along-outline":
                break
    res.samples.append(dict(s1=tostr(s1), s2=tostr(s2), tol=tol, kind=kind))
    res.distinct_nontrivial = len(seen)
    return res


# ------------------------------------------------------------------------------------------------ C09: short command sequences, natively, against the spec interpreter
@component("C09", "paths.short_sequences", "bounded")
def short_sequences(tier, seed):
    import itertools

    from bounded import refrender
    from picosvg.svg_types import SVGPath

    from .spec_path import ARITY, CMDS

    res = ComponentResult()
    L = 3 if tier == "thorough" else 2
    res.bound = f"all command sequences of length <= {L} after the initial moveto over the 20 commands on a 3-value coordinate lattice (first lattice assignment exhaustive in letters), plus polygons / polylines; cross-check of the specification interpreter and of the encoding, run natively"
    res.rule = "rewrite (absolute, relative, explicit_lines, expand_shorthand, absolute_moveto, arcs_to_cubics, move) then flatten with an independent flattener: same polyline within 1e-6 (arcs: 1e-3 of the radii); distinct = distinct letter sequences"
    rnd = random.Random(seed)
    lattice = (-3.0, 0.0, 4.5)
    seen = set()

    def flat(d):
        return refrender.flatten_path(refrender.parse_path(d), n=8)

    def close_enough(a, b, tol):
        if len(a) != len(b):
            return False
        for (pa, ca), (pb, cb) in zip(a, b):
            if ca != cb or len(pa) != len(pb):
                return False
            if any(abs(x - y) > tol for p, q in zip(pa, pb) for x, y in zip(p, q)):
                return False
        return True

    for first in ("M", "m"):
        for letters in itertools.chain.from_iterable(itertools.product(CMDS, repeat=k) for k in range(1, L + 1)):
            seen.add((first,) + letters)
            parts = [f"{first}{rnd.choice(lattice)},{rnd.choice(lattice)}"]
            for c in letters:
                n = ARITY[c.lower()]
                args = [rnd.choice(lattice) for _ in range(n)]
                if c in "Aa":
                    args[0], args[1] = abs(args[0]) + 1, abs(args[1]) + 2
                    args[3], args[4] = rnd.randint(0, 1), rnd.randint(0, 1)
                parts.append(c + " ".join(str(int(v)) if float(v).is_integer() else str(v) for v in args))
            d = " ".join(parts)
            res.evaluations += 1
            want = flat(d)
            for name in ("absolute", "relative", "explicit_lines", "expand_shorthand", "absolute_moveto"):
                try:
                    got = flat(getattr(SVGPath(d=d), name)().d)
                except Exception as e:  # noqa
                    res.findings.append(Finding(key=f"short_sequences:{name}:raises", text=f"{name}() of {d!r} raised {type(e).__name__}: {e}", replay=dict(d=d, rewrite=name), confirmed=True))
                    continue
                if not close_enough(want, got, 1e-6):
                    key = f"short_sequences:{name}:{''.join(letters)}"
                    if not any(f.key.startswith(f"short_sequences:{name}:") for f in res.findings):
                        res.findings.append(Finding(key=key, text=f"{name}() changes the curve of {d!r} -> {getattr(SVGPath(d=d), name)().d!r}", replay=dict(d=d, rewrite=name), confirmed=True))
            got = flat(SVGPath(d=d).move(2.5, -1.5).d)
            shifted = [([(x + 2.5, y - 1.5) for x, y in pts], c) for pts, c in want]
            if not close_enough(shifted, got, 1e-6) and not any(f.key.startswith("short_sequences:move") for f in res.findings):
                res.findings.append(Finding(key=f"short_sequences:move:{''.join(letters)}", text=f"move(2.5,-1.5) of {d!r} is not the shifted curve", replay=dict(d=d, rewrite="move"), confirmed=True))
    for pts in ("30,10 50,30 10,30", "1,1 5,5 2,2", "0,0 10,0 10,10 0,10"):
        from picosvg.svg_types import SVGPolygon, SVGPolyline

        for cls, closed in ((SVGPolygon, True), (SVGPolyline, False)):
            res.evaluations += 1
            got = flat(cls(points=pts).as_path().d)
            nums = [float(v) for v in pts.replace(",", " ").split()]
            want = list(zip(nums[0::2], nums[1::2]))
            ok = len(got) == 1 and got[0][1] == closed and [tuple(p) for p in got[0][0]][: len(want)] == want
            if not ok:
                res.findings.append(Finding(key=f"short_sequences:{cls.__name__}", text=f"{cls.__name__}(points={pts!r}).as_path() = {cls(points=pts).as_path().d!r}", replay=dict(points=pts), confirmed=True))
    res.samples.append(dict(d=d, flattened_subpaths=len(want)))
    res.distinct_nontrivial = len(seen)
    return res


# ------------------------------------------------------------------------------------------------ the lxml model of the tree runs, against lxml itself
@component(("C02", "C03", "C05", "C06", "C15", "C19"), "tree_model.vs_lxml", "bounded")
def tree_model_vs_lxml(tier, seed):
    """The symbolic tree runs (tree_runs.py, trace_runs.py) execute the real code over fake_tree.FakeElement.  This component
    checks that assumed contract of lxml differentially: random sequences of the tree operations picosvg uses are applied to
    a FakeElement tree and to an lxml tree; shape, parents, attribute order and the answers of the queries must agree."""
    from lxml import etree

    from contracts.fake_tree import SVGNS, FakeElement

    res = ComponentResult()
    n = 300 if tier == "quick" else 6000
    res.bound = f"{n} random operation sequences of length 12 on trees of 6-10 elements"
    res.rule = ("append / insert / remove / extend (moving children) / addnext / replace / attrib set, del, pop, update, clear / deepcopy on both models; afterwards the serialised shape "
                "(tag, attribute items in order, children) and index / getparent / iterdescendants / len / iteration agree; distinct = distinct final trees")
    rnd = random.Random(seed)
    seen = set()

    def dump(e):
        return (e.tag, tuple(e.attrib.items()), tuple(dump(c) for c in e))

    for it in range(n):
        k = rnd.randint(6, 10)
        fk = [FakeElement(SVGNS + rnd.choice("g path rect defs".split()), {"id": f"e{i}"}) for i in range(k)]
        lx = [etree.Element(f.tag, dict(f.attrib)) for f in fk]
        for i in range(1, k):
            p = rnd.randrange(i)
            fk[p].append(fk[i])
            lx[p].append(lx[i])
        log = []
        try:
            for _ in range(12):
                op = rnd.choice(["append", "insert", "remove", "extend", "addnext", "replace", "set", "del", "pop", "update", "clear", "copy"])
                a, b = rnd.randrange(k), rnd.randrange(k)
                log.append((op, a, b))

                def is_ancestor(x, y):  # x ancestor-or-self of y (in the fake tree; the two trees agree so far)
                    while y is not None:
                        if y is x:
                            return True
                        y = y.getparent()
                    return False

                if op in ("append", "insert", "extend", "addnext", "replace") and is_ancestor(fk[b], fk[a]):
                    continue  # would create a cycle: lxml refuses, picosvg never does it
                if op == "append":
                    fk[a].append(fk[b]); lx[a].append(lx[b])
                elif op == "insert":
                    i = rnd.randint(0, len(lx[a]))
                    fk[a].insert(i, fk[b]); lx[a].insert(i, lx[b])
                elif op == "remove":
                    if fk[a].getparent() is not None:
                        fk[a].getparent().remove(fk[a]); lx[a].getparent().remove(lx[a])
                elif op == "extend":
                    if not is_ancestor(fk[a], fk[b]):
                        fk[b].extend(fk[a]); lx[b].extend(lx[a])
                elif op == "addnext":
                    if fk[a].getparent() is not None and a != b and not is_ancestor(fk[b], fk[a].getparent()):
                        fk[a].addnext(fk[b]); lx[a].addnext(lx[b])
                elif op == "replace":
                    if fk[a].getparent() is not None and a != b and not is_ancestor(fk[b], fk[a].getparent()):
                        pf, pl = fk[a].getparent(), lx[a].getparent()
                        pf.replace(fk[a], fk[b]); pl.replace(lx[a], lx[b])
                elif op == "set":
                    key = rnd.choice(["fill", "d", "id", "opacity"])
                    fk[a].attrib[key] = str(b); lx[a].attrib[key] = str(b)
                elif op == "del":
                    key = rnd.choice(list(lx[a].attrib) or ["none"])
                    if key in lx[a].attrib:
                        del fk[a].attrib[key]; del lx[a].attrib[key]
                elif op == "pop":
                    key = rnd.choice(["fill", "d", "id", "zzz"])
                    if fk[a].attrib.pop(key, None) != lx[a].attrib.pop(key, None):
                        raise AssertionError("pop result differs")
                elif op == "update":
                    fk[a].attrib.update({"fill": "red", "x": "1"}); lx[a].attrib.update({"fill": "red", "x": "1"})
                elif op == "clear":
                    fk[a].attrib.clear(); lx[a].attrib.clear()
                elif op == "copy":
                    import copy

                    cf, cl = fk[a].__pyvc_copy__(), copy.deepcopy(lx[a])
                    if dump(cf) != dump(cl) or cf.getparent() is not None or cl.getparent() is not None:
                        raise AssertionError("deep copy differs")
            res.evaluations += 1
            for i in range(k):
                pf, pl = fk[i].getparent(), lx[i].getparent()
                same = dump(fk[i]) == dump(lx[i]) and len(fk[i]) == len(lx[i]) and (pf is None) == (pl is None)
                same = same and [e.attrib.get("id") for e in fk[i].iterdescendants()] == [e.attrib.get("id") for e in lx[i].iterdescendants()]
                if same and pf is not None:
                    same = pf.index(fk[i]) == pl.index(lx[i]) and pf.attrib.get("id") == pl.attrib.get("id")
                if not same:
                    raise AssertionError(f"element {i} differs")
            seen.add(tuple(dump(f) for f in fk if f.getparent() is None))
        except Exception as e:  # noqa
            res.findings.append(Finding(key="tree_model.vs_lxml:model-differs", text=f"FakeElement and lxml disagree after {log}: {type(e).__name__}: {e}", replay=dict(log=log, seed=seed, iteration=it), confirmed=True))
            break
    res.samples.append(dict(last_sequence=str(log)))
    res.distinct_nontrivial = len(seen)
    return res


# ------------------------------------------------------------------------------------------------ C13: the engine runs when the shape-level operation is called
@component(("C13", "C03"), "shapes.boolean_eager", "bounded")
def boolean_eager(tier, seed):
    """The interpreter evaluates generators eagerly, so laziness is invisible to shapes.boolean_glue; this native check pins it:
    the operands are modified between the call and the consumption of the result, exactly as picosvg's own
    p.update_path(op((p, q)), inplace=True) does."""
    from picosvg import svg_types
    from picosvg.svg_types import SVGPath

    res = ComponentResult()
    res.rule = "result of union / intersection / difference consumed AFTER the first operand was emptied == result consumed at once; update_path(op((p, q)), inplace=True) == update_path(op((p, q)))"
    res.bound = "3 operations x 2 operand pairs"
    pairs = [("M0,0 L10,0 L10,10 L0,10 Z", "M5,5 L15,5 L15,15 L5,15 Z"), ("M0,0 L8,0 L8,8 L0,8 Z M2,2 L6,2 L6,6 L2,6 Z", "M1,1 L4,1 L4,9 L1,9 Z")]
    for name in ("union", "intersection", "difference"):
        fn = getattr(svg_types, name)
        for a, b in pairs:
            res.evaluations += 1
            res.distinct_nontrivial += 1
            want = list(fn((SVGPath(d=a), SVGPath(d=b))))
            p, q = SVGPath(d=a), SVGPath(d=b)
            later = fn((p, q))
            p.d = ""
            got = list(later)
            p2, q2 = SVGPath(d=a), SVGPath(d=b)
            inplace = list(p2.update_path(fn((p2, q2)), inplace=True))
            if got != want or inplace != list(SVGPath.from_commands(want)):
                res.findings.append(Finding(key=f"shapes.boolean_eager:{name}", text=f"{name}: the result depends on when it is consumed: at once {str(want)[:80]}, after the operand was emptied {str(got)[:80]}",
                                            replay=dict(op=name, a=a, b=b), confirmed=True))
                break
    return res


# pinned (clean, noisy) pairs for C14 that the random noise generator cannot produce: noise in places where lxml's remove() takes
# character data along (text content, allow_text), elements in NO namespace, noise outside the root together with the in-place form
_NS = 'xmlns="http://www.w3.org/2000/svg"'
NOISE_PAIRS = {
    "no_namespace_element": (f'<svg {_NS} viewBox="0 0 10 10"><path d="M1,1 L2,1 L2,2 Z"/></svg>',
                             f'<svg {_NS} viewBox="0 0 10 10"><path xmlns="" d="M0,0 L5,0 L5,5 Z"/><path d="M1,1 L2,1 L2,2 Z"/><g xmlns=""><rect width="3" height="3"/></g></svg>', {}, "copy"),
    "title_inside_text": (f'<svg {_NS} viewBox="0 0 10 10"><text x="1" y="5">Hello</text></svg>',
                          f'<svg {_NS} viewBox="0 0 10 10"><text x="1" y="5"><title>t</title>Hello</text></svg>', dict(allow_text=True), "copy"),
    "noise_between_characters": (f'<svg {_NS} viewBox="0 0 10 10"><text x="1" y="5">Hello!</text></svg>',
                                 f'<svg {_NS} xmlns:f="urn:noise" viewBox="0 0 10 10"><text x="1" y="5">He<?pi x?>l<f:x/>l<desc>d</desc>o<symbol/>!</text></svg>', dict(allow_text=True), "copy"),
    "processing_instruction_in_the_prolog_in_place": (f'<svg {_NS} viewBox="0 0 10 10"><path d="M0,0 L5,0 L5,5 Z"/></svg>',
                                                      f'<?xml-stylesheet href="a.css"?><svg {_NS} viewBox="0 0 10 10"><path d="M0,0 L5,0 L5,5 Z"/></svg><?trailer x?>', {}, "inplace"),
}


@component("C14", "noise.pinned_pairs", "bounded")
def noise_pinned_pairs(tier, seed):
    from picosvg.svg import SVG

    res = ComponentResult()
    res.bound = f"{len(NOISE_PAIRS)} hand-written (clean, noisy) pairs, converted with the copying or the in-place form"
    res.rule = "convert(noisy) == convert(clean) byte for byte, and the noisy document does not make the conversion raise; distinct = pairs"

    def conv(doc, kw, mode):
        s = SVG.fromstring(doc)
        if mode == "inplace":
            s.topicosvg(inplace=True, **kw)
            return s.tostring()
        return s.topicosvg(**kw).tostring()

    for name, (clean, noisy, kw, mode) in NOISE_PAIRS.items():
        res.evaluations += 1
        res.distinct_nontrivial += 1
        want = conv(clean, kw, mode)
        try:
            got = conv(noisy, kw, mode)
        except Exception as e:  # noqa
            res.findings.append(Finding(key=f"noise.pinned_pairs:{name}:raises", text=f"{name}: with the ignorable content the conversion raises {type(e).__name__}: {str(e)[:100]} although the clean document converts",
                                        replay=dict(clean=clean, noisy=noisy, options=kw, form=mode), confirmed=True))
            continue
        if got != want:
            res.findings.append(Finding(key=f"noise.pinned_pairs:{name}:changes-output", text=f"{name}: the ignorable content changes the converted document: {got[-120:]!r} instead of {want[-120:]!r}",
                                        replay=dict(clean=clean, noisy=noisy, options=kw, form=mode), confirmed=True))
    res.samples = [dict(pair=k, noisy=v[1][:200]) for k, v in list(NOISE_PAIRS.items())[:2]]
    return res


@component(("C01", "C02", "C06", "C07", "C09", "C10", "C11", "C13", "C15", "C19", "C20"), "numbers.printing", "bounded")
def numbers_printing(tier, seed):
    """svg_meta.ntos is the one function every serialised number goes through (path data, transforms, gradient coordinates, shape
    fields): whatever a rewrite computes, the document only keeps what ntos writes."""
    import math
    import struct

    from picosvg.svg_meta import ntos

    res = ComponentResult()
    n = 30000 if tier == "quick" else 600000
    res.bound = f"{n} finite doubles: random bit patterns, magnitudes 1e-25 .. 1e25 with 1-17 significant digits, values rounded to 0-9 decimals, integers, negative zero, subnormals"
    res.rule = "float(ntos(v)) == v exactly; a value rounded to k decimals is written positionally with at most k decimals or in exponent form; distinct = distinct values"
    rnd = random.Random(seed)
    seen = set()

    def check(v, k=None):
        res.evaluations += 1
        seen.add(v)
        try:
            t = ntos(v)
            back = float(t)
        except Exception as e:  # noqa
            return f"ntos({v!r}) -> {type(e).__name__}: {e}"
        if back != v and not (v == 0 and back == 0):
            return f"ntos({v!r}) = {t!r}, which reads back as {back!r}"
        if k is not None and "e" not in t.lower() and "." in t and len(t.split(".", 1)[1]) > k:
            return f"{v!r} is a value rounded to {k} decimals but ntos writes it as {t[:40]!r}"
        return None

    special = [0.0, -0.0, 5e-324, -5e-324, 2.2250738585072014e-308, 1.7976931348623157e308, 1e16, 1e22, 1e21, 123456789012345680.0, 2.5e-10, 1.25e-20, 1.5e+20, 2e-05, 3.5e-05, 1e-06, 1.5e-07, 6.25e-06, 1.23456e-05]
    for v in special:
        r = check(v)
        if r:
            res.findings.append(Finding(key="numbers.printing:special", text=r, replay=dict(value=repr(v)), confirmed=True))
            break
    for i in range(n):
        c = rnd.random()
        k = None
        if c < 0.25:
            v = struct.unpack("<d", struct.pack("<Q", rnd.getrandbits(64)))[0]
            if not math.isfinite(v):
                continue
        elif c < 0.55:
            v = float(f"{rnd.uniform(1, 10):.{rnd.randint(0, 16)}f}e{rnd.randint(-25, 25)}") * rnd.choice((1, -1))
        elif c < 0.9:
            k = rnd.randint(0, 9)
            v = round(rnd.choice((rnd.uniform(-1000, 1000), rnd.uniform(-1, 1) * 10 ** -rnd.randint(0, 9), rnd.uniform(-1e6, 1e6))), k)
        else:
            v = float(rnd.randint(-10**6, 10**6))
        r = check(v, k)
        if r:
            res.findings.append(Finding(key="numbers.printing:" + ("rounded" if "rounded" in r else "round-trip"), text=r, replay=dict(value=repr(v), decimals=k), confirmed=True))
            break
    res.distinct_nontrivial = len(seen)
    res.samples = [dict(value="2e-05", text=ntos(2e-05)), dict(value="-0.0", text=ntos(-0.0))]
    return res
