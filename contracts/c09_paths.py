"""C09 - rewriting shapes and path data never changes the curve they describe.

Every rewrite callback of svg_types.py is put under contract against the SVG 8.3 path
semantics (spec_path.interp) for each of the 20 commands with symbolic arguments and a
symbolic pen; SVGPath.walk carries the per-command results to sequences of any length by a
loop invariant (c09_walk.py).  Several obligations also serve C01 (target forms).
"""
from __future__ import annotations

from picosvg import svg_types
from picosvg.geometric_types import Point
from picosvg.svg_types import (
    SVGCircle,
    SVGEllipse,
    SVGLine,
    SVGPath,
    SVGRect,
    _absolute_to_relative,
    _explicit_lines_callback,
    _move_endpoint,
    _next_pos,
    _relative_to_absolute,
    _relative_to_absolute_moveto,
)

from pyvc import pathdata
from pyvc.registry import obligation
from pyvc.sym import And, Not, Or, smin

from .spec_path import CMDS, arity, interp, interp_seq, pen_equal, segs_equal, shift_seg, state_equal

P = "C09"
T = "svg_types."


def cmd_args(H, cmd, prefix="a"):
    return tuple(H.reals(prefix, arity(cmd)))


def point(H, name):
    return Point(H.real(name + "x"), H.real(name + "y"))


def full_state(H):
    """arbitrary pen, subpath start and reflection points (the latter only matter for S/T)"""
    cur, start = point(H, "cur"), point(H, "start")
    return cur, start, (cur, start, tuple(point(H, "rc")), tuple(point(H, "rq")))


def one(H, out, label):
    out = tuple(out)
    ok = len(out) == 1 and len(tuple(out[0])) == 2
    H.prove(ok, label + ".returns_exactly_one_command")
    if not ok:
        return None
    c, a = out[0]
    return c, tuple(a)


# ---------------------------------------------------------------------------------- H/V -> L
@obligation((P, "C01"), "path.explicit_lines_callback", split=("cmd", CMDS), functions=[T + "_explicit_lines_callback"])
def explicit_lines(H):
    """h/H/v/V become l/L to the same point; every other command is returned unchanged; no H/V survives."""
    cmd = H.case("cmd", CMDS)
    args = cmd_args(H, cmd)
    cur, start, st = full_state(H)
    r = one(H, H.call(_explicit_lines_callback, start, cur, cmd, args), "explicit_lines")
    if r is None:
        return
    c2, a2 = r
    H.prove(c2 not in "HhVv", "explicit_lines.no_HV_in_output")
    st0, s0 = interp(st, cmd, args)
    st1, s1 = interp(st, c2, a2)
    H.prove(segs_equal(H, s0, s1), "explicit_lines.same_segment")
    H.prove(state_equal(H, st0, st1), "explicit_lines.same_state_after")
    H.prove(c2.isupper() == cmd.isupper(), "explicit_lines.keeps_absolute_or_relative")


# ---------------------------------------------------------------------------------- abs <-> rel
_REWRITES = {"to_absolute": _relative_to_absolute, "moveto_absolute": _relative_to_absolute_moveto, "to_relative": _absolute_to_relative}


def _target_form(which, cmd, c2):
    if which == "to_absolute":
        return c2.isupper()
    if which == "to_relative":
        return c2.islower()
    return c2.isupper() if cmd in "Mm" else True


@obligation((P, "C01"), "path.coordinate_rewrites", split=("cmd", CMDS),
            functions=[T + "_relative_to_absolute", T + "_relative_to_absolute_moveto", T + "_absolute_to_relative", T + "_rewrite_coords", "svg_meta.cmd_coords"])
def rewrites(H):
    """relative<->absolute conversion denotes the same segment from the same pen and reaches the promised letter case."""
    which = H.case("which", tuple(_REWRITES))
    cmd = H.case("cmd", CMDS)
    args = cmd_args(H, cmd)
    cur, start, st = full_state(H)
    out = H.call(_REWRITES[which], cur, cmd, args)
    c2, a2 = out[0], tuple(out[1])
    H.prove(_target_form(which, cmd, c2), f"{which}.target_letter_case")
    H.prove(c2.lower() == cmd.lower(), f"{which}.same_command_kind")
    st0, s0 = interp(st, cmd, args)
    st1, s1 = interp(st, c2, a2)
    H.prove(segs_equal(H, s0, s1), f"{which}.same_segment")
    H.prove(state_equal(H, st0, st1), f"{which}.same_state_after")


@obligation((P, "C20", "C13"), "path.next_pos", split=("cmd", tuple(c for c in CMDS if c not in "Zz")), functions=[T + "_next_pos"])
def next_pos(H):
    """_next_pos is the SVG current point after the command (every command except closepath)."""
    cmd = H.case("cmd", tuple(c for c in CMDS if c not in "Zz"))
    args = cmd_args(H, cmd)
    cur, start, st = full_state(H)
    got = H.call(_next_pos, cur, cmd, args)
    st0, _ = interp(st, cmd, args)
    H.prove(H.close(tuple(got), tuple(st0[0])), "next_pos.is_spec_current_point")


@obligation((P, "C20", "C13"), "path.move_endpoint", split=("cmd", CMDS), functions=[T + "_move_endpoint"])
def move_endpoint(H):
    """_move_endpoint changes the end point only: same kind of segment (h/v become lines), same control points."""
    cmd = H.case("cmd", CMDS)
    args = cmd_args(H, cmd)
    cur, start, st = full_state(H)
    new_end = point(H, "ne")
    out = H.call(_move_endpoint, cur, cmd, args, new_end)
    c2, a2 = out[0], tuple(out[1])
    st0, s0 = interp(st, cmd, args)
    st1, s1 = interp(st, c2, a2)
    if cmd in "Zz":
        H.prove(segs_equal(H, s0, s1), "move_endpoint.closepath_untouched")
        return
    H.prove(c2.isupper() == cmd.isupper(), "move_endpoint.keeps_absolute_or_relative")
    a, b = s0[0], s1[0]
    H.prove(a[0] == b[0] and len(a) == len(b), "move_endpoint.same_segment_kind")
    if not (a[0] == b[0] and len(a) == len(b)):
        return
    H.prove(H.close(tuple(b[-1]), tuple(new_end)), "move_endpoint.ends_at_requested_point")
    H.prove(And(*[H.close(tuple(x) if isinstance(x, tuple) else x, tuple(y) if isinstance(y, tuple) else y) for x, y in zip(a[1:-1], b[1:-1])]) if len(a) > 2 else True,
            "move_endpoint.other_points_unchanged")


def _captured_walk_callback(H, run):
    calls = H.capture_args(SVGPath, "walk", run)
    H.prove(len(calls) == 1, "rewrite.walks_exactly_once")
    if len(calls) != 1:
        return None
    (args, kwargs) = calls[0]
    return args[-1] if args else kwargs.get("callback")


@obligation((P, "C01", "C07", "C20", "C13"), "path.rewrite_callback", split=("cmd", CMDS), functions=[T + "SVGPath._rewrite_path", T + "SVGPath.absolute", T + "SVGPath.relative", T + "SVGPath.absolute_moveto"])
def rewrite_callback(H):
    """absolute()/relative()/absolute_moveto() per command: same segment, except that an end point within 1e-9 of the
    subpath start may be snapped onto it (drift <= 1e-9 per coordinate, nothing else moves)."""
    pathdata.install(H)
    which = H.case("which", ("absolute", "relative", "absolute_moveto"))
    cmd = H.case("cmd", CMDS)
    args = cmd_args(H, cmd)
    cur, start, st = full_state(H)
    path = H.call(SVGPath)
    method = {"absolute": SVGPath.absolute, "relative": SVGPath.relative, "absolute_moveto": SVGPath.absolute_moveto}[which]
    if which == "relative":
        # relative() post-processes result.d[0]; give the captured walk a path that has data
        path = H.call(SVGPath, d="M0,0")
    cb = _captured_walk_callback(H, lambda: H.call(method, path, inplace=True))
    if cb is None:
        return
    band = H.case("band", ("any", "near")) if cmd not in "Zz" else "any"
    if band == "near":
        # sub-case kept only so that counter-models sit well inside the snapping band and replay on floats
        e = interp(st, cmd, args)[0][0]
        H.assume(And(abs(e[0] - start[0]) <= 2.5e-10, abs(e[1] - start[1]) <= 2.5e-10, abs(e[0] - start[0]) >= 1.25e-10))
    r = one(H, H.call(cb, start, cur, cmd, args, None, None, None), which)
    if r is None:
        return
    c2, a2 = r
    H.prove(_target_form({"absolute": "to_absolute", "relative": "to_relative", "absolute_moveto": "moveto_absolute"}[which], cmd, c2), f"{which}.target_letter_case")
    st0, s0 = interp(st, cmd, args)
    st1, s1 = interp(st, c2, a2)
    a, b = s0[0], s1[0]
    same_kind = a[0] == b[0] and len(a) == len(b)
    H.prove(same_kind, f"{which}.same_segment_kind")
    if not same_kind:
        return
    if a[0] == "move":
        e0, e1 = a[1], b[1]
        mids = True
    else:
        e0, e1 = a[-1], b[-1]
        mids = And(*[H.close(tuple(x) if isinstance(x, tuple) else x, tuple(y) if isinstance(y, tuple) else y) for x, y in zip(a[1:-1], b[1:-1])])
    H.prove(mids, f"{which}.start_and_control_points_unchanged")
    tol = 1e-9 if H.mode == "sym" else 1.000001e-9
    H.prove(And(abs(e1[0] - e0[0]) <= tol, abs(e1[1] - e0[1]) <= tol), f"{which}.end_point_drift_at_most_1e-9")
    H.prove(Or(H.close(tuple(e1), tuple(e0)), H.close(tuple(e1), tuple(start))) if H.mode == "sym"
            else (tuple(e1) == tuple(e0) or tuple(e1) == tuple(start) or H.close(tuple(e1), tuple(e0), 1e-12)), f"{which}.end_point_exact_or_snapped_to_subpath_start")


# ---------------------------------------------------------------------------------- S/T expansion
_PREVS = (None,) + tuple(c for c in CMDS if c not in "SsTt")


@obligation((P, "C01"), "path.expand_shorthand_callback", split=("cmd", CMDS), functions=[T + "SVGPath.expand_shorthand"])
def expand_shorthand(H):
    """S/T become C/Q whose first control point is the reflection of the previous control point only after a curve
    of the same family (SVG 8.3.6/8.3.7), otherwise the current point; other commands unchanged."""
    pathdata.install(H)
    cmd = H.case("cmd", CMDS)
    prev = H.case("prev", _PREVS)
    args = cmd_args(H, cmd)
    start0 = point(H, "start")
    if prev is None:
        cur = point(H, "cur")
        st = (cur, start0, None, None)
        prev_triple = (None, None, None)
    else:
        prev_pos = point(H, "pp")
        prev_args = cmd_args(H, prev, "b")
        st, _ = interp((prev_pos, start0, None, None), prev, prev_args)
        cur = Point(*st[0])
        prev_triple = (prev_pos, prev, prev_args)
    path = H.call(SVGPath)
    cb = _captured_walk_callback(H, lambda: H.call(SVGPath.expand_shorthand, path, inplace=True))
    if cb is None:
        return
    r = one(H, H.call(cb, Point(*st[1]), cur, cmd, args, *prev_triple), "expand_shorthand")
    if r is None:
        return
    c2, a2 = r
    H.prove(c2 not in "SsTt", "expand_shorthand.no_shorthand_in_output")
    st0, s0 = interp(st, cmd, args)
    st1, s1 = interp(st, c2, a2)
    H.prove(segs_equal(H, s0, s1), "expand_shorthand.same_segment")
    H.prove(state_equal(H, st0, st1), "expand_shorthand.same_state_after")


# ---------------------------------------------------------------------------------- arcs -> cubics (glue; geometry is C12)
@obligation((P, "C12", "C01"), "path.arc_to_cubic_callback", split=("cmd", CMDS), functions=[T + "SVGPath.arcs_to_cubics"])
def arc_callback(H):
    """Non-arc commands are unchanged; an arc is replaced, in order, by exactly the cubics / the line that arc_to_cubic
    yields for (pen, radii, rotation, flags, ABSOLUTE end point); no arc survives."""
    pathdata.install(H)
    cmd = H.case("cmd", CMDS)
    args = cmd_args(H, cmd)
    cur, start, st = full_state(H)
    path = H.call(SVGPath)
    cb = _captured_walk_callback(H, lambda: H.call(SVGPath.arcs_to_cubics, path, inplace=True))
    if cb is None:
        return
    if cmd not in "Aa":
        r = one(H, H.call(cb, start, cur, cmd, args, None, None, None), "arcs_to_cubics")
        if r is not None:
            H.prove(r[0] == cmd and H.close(tuple(r[1]), tuple(args)), "arcs_to_cubics.other_commands_unchanged")
        return
    shape = H.case("yield", ("nothing", "line", "1 cubic", "2 cubics", "4 cubics"))
    n = {"nothing": 0, "line": 1, "1 cubic": 1, "2 cubics": 2, "4 cubics": 4}[shape]
    if shape == "line":
        triples = [(None, None, point(H, "t0e"))]
    else:
        triples = [(point(H, f"t{i}a"), point(H, f"t{i}b"), point(H, f"t{i}e")) for i in range(n)]
    seen = []

    def stub(*a, **k):
        seen.append((a, k))
        return iter(list(triples))

    calls = H.capture_args(svg_types, "arc_to_cubic", lambda: seen.append(("out", H.call(cb, start, cur, cmd, args, None, None, None))), result=stub)
    out = [s for s in seen if s[0] == "out"][0][1]
    H.prove(len(calls) == 1, "arcs_to_cubics.converts_each_arc_once")
    if len(calls) != 1:
        return
    a, k = calls[0]
    end_abs = (args[5], args[6]) if cmd == "A" else (cur[0] + args[5], cur[1] + args[6])
    H.prove(len(a) == 7 and not k and H.close((tuple(a[0]), a[1], a[2], a[3], a[4], a[5], tuple(a[6])), (tuple(cur), args[0], args[1], args[2], args[3], args[4], end_abs)),
            "arcs_to_cubics.passes_pen_radii_rotation_flags_absolute_end")
    out = tuple(out)
    H.prove(len(out) == n, "arcs_to_cubics.one_command_per_yielded_segment")
    if len(out) != n:
        return
    for (p1, p2, e), (c2, a2) in zip(triples, out):
        if p1 is None:
            H.prove(c2 == "L" and H.close(tuple(a2), tuple(e)), "arcs_to_cubics.degenerate_arc_is_absolute_line_to_end")
        else:
            H.prove(c2 == "C" and H.close(tuple(a2), tuple(p1) + tuple(p2) + tuple(e)), "arcs_to_cubics.cubic_is_absolute_with_yielded_points")


# ---------------------------------------------------------------------------------- move
@obligation(P, "path.move_callback", split=("cmd", CMDS), functions=[T + "SVGPath.move"])
def move_callback(H):
    """move(dx, dy): every segment is the original shifted by (dx, dy)."""
    pathdata.install(H)
    cmd = H.case("cmd", CMDS)
    args = cmd_args(H, cmd)
    cur, start, st = full_state(H)
    dx, dy = H.real("dx"), H.real("dy")
    path = H.call(SVGPath)
    cb = _captured_walk_callback(H, lambda: H.call(SVGPath.move, path, dx, dy, inplace=True))
    if cb is None:
        return
    r = one(H, H.call(cb, start, cur, cmd, args, None, None, None), "move")
    if r is None:
        return
    c2, a2 = r
    sh = lambda p: (p[0] + dx, p[1] + dy)
    st_shift = (sh(st[0]), sh(st[1]), sh(st[2]), sh(st[3]))
    st0, s0 = interp(st, cmd, args)
    st1, s1 = interp(st_shift, c2, a2)
    H.prove(segs_equal(H, [shift_seg(s, dx, dy) for s in s0], s1), "move.segment_is_shifted")
    H.prove(pen_equal(H, (sh(st0[0]), sh(st0[1])), st1), "move.pen_is_shifted")


# ---------------------------------------------------------------------------------- basic shapes
def _path_cmds(H, path):
    """commands of an SVGPath in either mode (exploded, as the library iterates them)"""
    return [(c, tuple(a)) for c, a in H.call(SVGPath.__iter__, path)]


def _same_curve(H, got_cmds, want_cmds, label):
    init = ((0, 0), (0, 0), None, None)
    try:
        s_got = interp_seq(init, got_cmds)
        s_want = interp_seq(init, want_cmds)
    except Exception as e:  # malformed output (wrong arity etc.)
        H.prove(False, label + ".well_formed", detail=str(e))
        return
    H.prove(segs_equal(H, s_got[1], s_want[1]), label + ".same_segments_as_SVG_shape_definition")
    H.prove(pen_equal(H, s_got[0], s_want[0]), label + ".same_final_point")


@obligation((P, "C02"), "shape.rect", functions=[T + "SVGRect.as_path", T + "SVGRect.__post_init__"])
def rect(H):
    """SVG 9.2: effective rx/ry (a missing one copies the other, each clamped to half the side) and the outline
    M x+rx,y H V ... with four quarter arcs of sweep 1 when rounded."""
    pathdata.install(H)
    x, y, w, h = H.real("x"), H.real("y"), H.real("w"), H.real("h")
    H.assume(And(w >= 0, h >= 0))
    kind = H.case("corners", ("square", "rx only", "ry only", "both"))
    rx = H.real("rx") if kind in ("rx only", "both") else 0
    ry = H.real("ry") if kind in ("ry only", "both") else 0
    if kind in ("rx only", "both"):
        H.assume(rx > 0)
    if kind in ("ry only", "both"):
        H.assume(ry > 0)
    shape = H.call(SVGRect, x=x, y=y, width=w, height=h, rx=rx, ry=ry)
    erx = rx if kind in ("rx only", "both") else ry
    ery = ry if kind in ("ry only", "both") else rx
    erx, ery = smin(erx, w / 2), smin(ery, h / 2)
    H.prove(And(H.close(shape.rx, erx), H.close(shape.ry, ery)), "rect.effective_radii_per_SVG_9.2")
    p = H.call(SVGRect.as_path, shape)
    got = _path_cmds(H, p)
    rounded = H.truth(And(erx > 0, ery > 0)) if kind != "square" else False
    want = [("M", (x + erx, y)), ("H", (x + w - erx,))]
    if rounded:
        want.append(("A", (erx, ery, 0, 0, 1, x + w, y + ery)))
    want.append(("V", (y + h - ery,)))
    if rounded:
        want.append(("A", (erx, ery, 0, 0, 1, x + w - erx, y + h)))
    want.append(("H", (x + erx,)))
    if rounded:
        want.append(("A", (erx, ery, 0, 0, 1, x, y + h - ery)))
    want.append(("V", (y + ery,)))
    if rounded:
        want.append(("A", (erx, ery, 0, 0, 1, x + erx, y)))
    want.append(("Z", ()))
    if kind != "square" and not rounded:
        # one effective radius is 0 (zero-size side): arcs with a zero radius are straight lines (SVG F.6.2),
        # so compare the traced points only
        pts_got = [s[-1] for s in interp_seq(((0, 0), (0, 0), None, None), got)[1]]
        pts_want = [s[-1] for s in interp_seq(((0, 0), (0, 0), None, None), want)[1]]
        want_r = [("M", (x + erx, y)), ("H", (x + w - erx,)), ("A", (erx, ery, 0, 0, 1, x + w, y + ery)), ("V", (y + h - ery,)),
                  ("A", (erx, ery, 0, 0, 1, x + w - erx, y + h)), ("H", (x + erx,)), ("A", (erx, ery, 0, 0, 1, x, y + h - ery)),
                  ("V", (y + ery,)), ("A", (erx, ery, 0, 0, 1, x + erx, y)), ("Z", ())]
        pts_want_r = [s[-1] for s in interp_seq(((0, 0), (0, 0), None, None), want_r)[1]]
        alts = []
        for cand in (pts_want, pts_want_r):
            if len(pts_got) == len(cand):
                alts.append(H.close(tuple(map(tuple, pts_got)), tuple(map(tuple, cand))))
        ok = Or(*alts) if alts else False
        H.prove(ok, "rect.degenerate_radius_traces_the_same_points")
        return
    _same_curve(H, got, want, "rect")


@obligation((P, "C02"), "shape.ellipse_circle_line", functions=[T + "SVGEllipse.as_path", T + "SVGCircle.as_path", T + "SVGLine.as_path", T + "SVGPath._arc", T + "SVGPath.A", T + "SVGPath.M", T + "SVGPath.L", T + "SVGPath.end", T + "SVGShape._copy_common_fields"])
def ellipse_circle_line(H):
    """SVG 9.3-9.5: circle/ellipse are two half arcs from 3 o'clock, clockwise (sweep 1), closed; line is M x1,y1 L x2,y2."""
    pathdata.install(H)
    which = H.case("shape", ("ellipse", "circle", "line"))
    if which == "line":
        x1, y1, x2, y2 = H.reals("l", 4)
        p = H.call(SVGLine.as_path, H.call(SVGLine, x1=x1, y1=y1, x2=x2, y2=y2, fill="red", opacity=0.5))
        _same_curve(H, _path_cmds(H, p), [("M", (x1, y1)), ("L", (x2, y2))], "line")
        H.prove(p.fill == "red" and H.close(p.opacity, 0.5), "line.keeps_presentation_fields")
        return
    cx, cy = H.real("cx"), H.real("cy")
    if which == "circle":
        r = H.real("r")
        rx = ry = r
        p = H.call(SVGCircle.as_path, H.call(SVGCircle, cx=cx, cy=cy, r=r, fill="red", id="c1"))
    else:
        rx, ry = H.real("rx"), H.real("ry")
        p = H.call(SVGEllipse.as_path, H.call(SVGEllipse, cx=cx, cy=cy, rx=rx, ry=ry, fill="red", id="c1"))
    want = [("M", (cx + rx, cy)), ("A", (rx, ry, 0, 1, 1, cx - rx, cy)), ("A", (rx, ry, 0, 1, 1, cx + rx, cy)), ("Z", ())]
    _same_curve(H, _path_cmds(H, p), want, which)
    H.prove(p.fill == "red" and p.id == "c1", which + ".keeps_presentation_fields")
