"""C18 - pruning of invisible content is conservative.

SVGShape.might_paint is compared with the paint specification (display, drawing commands, visible stroke,
visible fill with positive area) with the area an abstract value supplied by the assumed pathops contract.
remove_empty_subpaths / subpaths are checked for (a) judging each subpath with the paint of the path it
came from and (b) leaving the remaining subpaths where they were.
"""
from __future__ import annotations

import pathops
from picosvg import svg_pathops
from picosvg.svg_types import SVGPath, SVGRect, SVGShape

from pyvc import pathdata
from pyvc.registry import obligation
from pyvc.sym import And, Implies, Not, Or

from .spec_path import interp_seq, segs_close, segs_equal

P = "C18"
T = "svg_types."

_GEOMS = {
    "nothing": "",
    "one move": "M1,1",
    "moves only": "M1,1 m2,2 M3,3",
    "triangle": "M0,0 L4,0 L4,3 Z",
    "open line": "M0,0 L4,0",
    "zero-length closed": "M5,5 z",
}
_DRAWS = {"nothing": False, "one move": False, "moves only": False, "triangle": True, "open line": True, "zero-length closed": True}


@obligation(P, "paint.might_paint", split=("geometry", tuple(_GEOMS)), functions=[T + "SVGShape.might_paint", T + "SVGShape.apply_style_attribute", T + "SVGShape.as_cmd_seq"])
def might_paint(H):
    """might_paint() is False only if the shape paints nothing, and True whenever it has a visible stroke or a visible
    fill with positive area (an engine failure while measuring counts as 'might paint')."""
    geometry = H.case("geometry", tuple(_GEOMS))
    fill = H.case("fill", ("none", "red", "url(#g)"))
    stroke = H.case("stroke", ("none", "blue"))
    hide = H.case("display", ("inline attr", "none attr", "none in style", "opacity 0 in style", "plain style"))
    area_kind = H.case("area", ("value", "engine fails"))
    opacity, fo, so, sw = H.real("opacity"), H.real("fill_opacity"), H.real("stroke_opacity"), H.real("stroke_width")
    area = H.real("area")
    H.assume(area >= 0)
    kw = dict(d=_GEOMS[geometry], fill=fill, stroke=stroke, opacity=opacity, fill_opacity=fo, stroke_opacity=so, stroke_width=sw, fill_rule="evenodd")
    if hide == "none attr":
        kw["display"] = "none"
    elif hide == "none in style":
        kw["style"] = "display:none"
    elif hide == "opacity 0 in style":
        kw["style"] = "opacity: 0; font-size: 3px"
        opacity = 0.0
    elif hide == "plain style":
        kw["style"] = "font-size: 3px"
    shape = H.call(SVGPath, **kw)
    asked = []

    def fake_area(*a, **k):
        asked.append((a, k))
        if area_kind == "engine fails":
            raise pathops.PathOpsError("simplify operation did not succeed")
        return area

    seen = []
    H.capture_args(svg_pathops, "path_area", lambda: seen.append(H.catch(SVGShape.might_paint, shape)), result=fake_area)
    got, e = seen[0]
    H.prove(e is None, "might_paint.no_exception", detail=repr(e))
    if e is not None:
        return
    displayed = hide not in ("none attr", "none in style")
    draws = _DRAWS[geometry]
    stroke_visible = And(stroke != "none", Not(H.close(opacity * so, 0)), Not(H.close(sw, 0))) if stroke != "none" else False
    fill_visible = Not(H.close(opacity * fo, 0)) if fill != "none" else False
    has_area = True if area_kind == "engine fails" else area > 0
    paints = And(displayed, draws, Or(stroke_visible, And(fill_visible, has_area)))
    H.prove(got is True or got is False or hasattr(got, "z"), "might_paint.returns_a_boolean")
    g = got
    H.prove(Implies(paints, g) if H.mode == "sym" else ((not paints) or bool(g)), "might_paint.anything_that_paints_is_kept")
    H.prove(Implies(Not(g), Not(paints)) if H.mode == "sym" else (bool(g) or not paints), "might_paint.False_only_if_nothing_is_painted")
    # tightness (the other direction of the ladder): what certainly cannot paint is reported as such
    H.prove(Implies(Not(paints), Not(g)) if H.mode == "sym" else ((not bool(g)) or paints), "might_paint.reports_unpaintable_shapes")
    if asked:
        (a, k) = asked[0]
        rule = k.get("fill_rule", a[1] if len(a) > 1 else None)
        H.prove(rule == "evenodd", "might_paint.area_measured_under_the_shape_fill_rule")


def _native_or_sym_path(H, d_concrete, segs, **kw):
    if H.mode == "sym":
        return H.call(SVGPath, d=pathdata.PathData(tuple(segs)), **kw)
    return SVGPath(d=d_concrete, **kw)


@obligation(P, "paint.remove_empty_subpaths.probe", functions=[T + "SVGPath.remove_empty_subpaths", T + "SVGPath.subpaths"])
def probe_paint(H):
    """Each subpath is judged with the paint of the path it belongs to (stroke, fill, opacities, display, style),
    not with default paint: a stroked open subpath of a fill-less path must survive."""
    pathdata.install(H)
    paint = dict(fill="none", stroke="black", stroke_width=2.0, stroke_opacity=0.5, opacity=0.75, fill_opacity=0.25, fill_rule="evenodd", display="inline", style="font-size: 3px")
    # the coordinates play no role in which paint the probe carries: concrete data keeps this to a single path
    path = SVGPath(d="M0,0 L10,0 M20,0 L30,10 L20,10 Z", **paint) if H.mode == "concrete" else H.call(SVGPath, d="M0,0 L10,0 M20,0 L30,10 L20,10 Z", **paint)
    probes = []

    def rec(shape_self, *a, **k):
        probes.append(shape_self)
        return True

    calls = H.capture_args(SVGShape, "might_paint", lambda: H.call(SVGPath.remove_empty_subpaths, path, inplace=True), result=rec)
    H.prove(len(probes) == 2, "probe.one_verdict_per_subpath")
    for pr in probes:
        same = all(getattr(pr, k) == v if not isinstance(v, float) else H.close(getattr(pr, k), v) for k, v in paint.items())
        H.prove(same, "probe.subpath_is_judged_with_the_paint_of_its_path", detail=f"probe has fill={pr.fill!r} stroke={pr.stroke!r} stroke_width={pr.stroke_width!r}")
    if H.mode == "concrete":
        # end to end on the real code (no stub): the stroked open subpath must still be there
        p2 = SVGPath(d="M0,0 L10,0 M20,0 L30,10 L20,10 Z", stroke="black", fill="none")
        out = p2.remove_empty_subpaths().d
        H.prove("L10,0" in out, "probe.subpath_is_judged_with_the_paint_of_its_path", detail=f"stroked open subpath dropped: {out!r}")


@obligation((P, "C09"), "paint.remove_empty_subpaths.stays_in_place", functions=[T + "SVGPath.remove_empty_subpaths", T + "SVGPath.subpaths"])
def stays_in_place(H):
    """Dropping an empty subpath must not move the others: every kept subpath denotes the same segments as before
    (also when it follows a closepath and starts with a relative command, i.e. has no moveto of its own)."""
    pathdata.install(H)
    x = H.reals("c", 6)
    shape = H.case("shape", ("z then relative", "z then absolute", "two movetos"))
    if shape == "z then relative":
        cmds = [("M", (x[0], x[1])), ("z", ()), ("l", (x[2], x[3])), ("l", (x[4], x[5])), ("z", ())]
        dropped = 2
    elif shape == "z then absolute":
        cmds = [("M", (x[0], x[1])), ("Z", ()), ("L", (x[2], x[3])), ("L", (x[4], x[5])), ("Z", ())]
        dropped = 2
    else:
        cmds = [("M", (x[0], x[1])), ("m", (x[2], x[3])), ("l", (x[4], x[5])), ("l", (x[0], x[3])), ("z", ())]
        dropped = 1
    d = " ".join(c + ",".join(repr(float(v)) for v in a) for c, a in cmds) if H.mode == "concrete" else None
    path = _native_or_sym_path(H, d, cmds, fill="red")
    verdicts = iter([False, True, True])
    H.capture_args(SVGShape, "might_paint", lambda: H.call(SVGPath.remove_empty_subpaths, path, inplace=True), result=lambda *a, **k: next(verdicts))
    init = ((0, 0), (0, 0), None, None)
    _, before = interp_seq(init, cmds)
    kept_before = before[dropped:]
    after_cmds = [(c, tuple(a)) for c, a in H.call(SVGPath.__iter__, path)]
    try:
        _, after = interp_seq(init, after_cmds)
    except Exception as e:
        H.prove(False, "stays_in_place.result_is_well_formed", detail=str(e))
        return
    # compare drawing segments only (a leading moveto may be added or kept; what matters is where things are drawn)
    draw = lambda segs: [s for s in segs if s[0] != "move"]
    # absolute_moveto() may snap end points onto the subpath start when they are within 1e-9 (up to 4 commands here)
    H.prove(segs_close(H, draw(kept_before), draw(after), 1e-8 if H.mode == "sym" else 1e-6), "stays_in_place.kept_subpaths_denote_the_same_segments")
