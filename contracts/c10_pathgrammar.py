"""C10 - path data parses per the SVG grammar or is rejected, and printing round-trips.

proved   _explode_cmd (k-th exploded command has the implicit-repeat letter and the k-th group of arguments), check_cmd /
         num_args (arity table vs SVG 8.3), path_segment structure through the printer/parser bridge; termination and
         exception-freedom shape of _parse_args (C17 loop inventory)
bounded  the tokenizer itself: exhaustive strings over a reduced alphabet and token sequences over every lexical number form
         against a parser derived independently from the SVG BNF; serialise/parse round trip over extreme floats
         (labelled bounded - regular-expression semantics on all strings is not decided deductively)
"""
from __future__ import annotations

import itertools
import math
import random
import struct

from picosvg import svg_meta
from picosvg.svg_path_iter import _explode_cmd

from pyvc.registry import ComponentResult, Finding, component, obligation
from pyvc.sym import And

from .spec_path import ARITY, CMDS

P = "C10"


@obligation(P, "grammar.explode_cmd", split=("cmd", CMDS), functions=["svg_path_iter._explode_cmd", "svg_meta.check_cmd", "svg_meta.num_args"])
def explode(H):
    """_explode_cmd splits repeated argument groups: group k keeps the command letter, except that moveto repeats become lineto."""
    cmd = H.case("cmd", CMDS)
    n = ARITY[cmd.lower()]
    got_n, e = H.catch(svg_meta.num_args, cmd)
    H.prove(e is None and got_n == n, "num_args.matches_SVG_arity_table")
    if n == 0:
        r, e = H.catch(svg_meta.check_cmd, cmd, ())
        H.prove(e is None and r == 0, "check_cmd.closepath_takes_no_arguments")
        r, e = H.catch(svg_meta.check_cmd, cmd, (H.real("x"),))
        H.prove(isinstance(e, ValueError), "check_cmd.closepath_with_arguments_is_ValueError")
        return
    groups = H.case("groups", (1, 2, 3))
    args = tuple(H.reals("a", n * groups))
    out = H.call(_explode_cmd, n, cmd, args)
    ok = len(out) == groups
    H.prove(ok, "explode.one_command_per_argument_group")
    if ok:
        implicit = {"M": "L", "m": "l"}.get(cmd, cmd)
        for k, (c, a) in enumerate(out):
            H.prove(c == (cmd if k == 0 else implicit), "explode.first_keeps_letter_repeats_use_implicit_letter")
            H.prove(len(a) == n and H.close(tuple(a), args[k * n:(k + 1) * n]), "explode.group_k_gets_its_own_arguments_in_order")
    r, e = H.catch(svg_meta.check_cmd, cmd, args + (H.real("extra"),)) if n > 1 else (None, ValueError())
    H.prove(isinstance(e, ValueError), "check_cmd.wrong_argument_count_is_ValueError")
    bad, e = H.catch(svg_meta.num_args, "x")
    H.prove(isinstance(e, ValueError), "num_args.unknown_letter_is_ValueError")


def _compare(s):
    """-> None or a description of the disagreement for one string"""
    from bounded import pathgrammar as G
    from picosvg.svg_path_iter import parse_svg_path

    want = G.parse(s)
    try:
        got = [(c, tuple(float(x) for x in a)) for c, a in parse_svg_path(s, exploded=True)]
    except ValueError:
        # the verdict is a function of the string: a second attempt must refuse it again
        try:
            again = list(parse_svg_path(s, exploded=True))
        except ValueError:
            return None
        except Exception as e:  # noqa
            return f"{s!r}: raises {type(e).__name__} on the second attempt (only ValueError may escape)"
        return f"{s!r}: refused with ValueError the first time, parsed as {again} the second time"
    except Exception as e:  # noqa
        return f"{s!r}: raises {type(e).__name__} (only ValueError may escape)"
    if want is not None and got != [(c, tuple(float(x) for x in a)) for c, a in want]:
        return f"{s!r} conforms to the SVG path grammar and means {want} but parses silently as {got}"
    return None


NUMBER_FORMS = ["0", "7", "12", "007", "-3", "+4", "1.5", ".5", "-.25", "2.", "1e2", "1E-1", "3.5e+1", "-0.0", "00.50"]


@component(P, "grammar.strings", "bounded")
def strings(tier, seed):
    res = ComponentResult()
    N = 7 if tier == "thorough" else 6
    alpha = "Mla01.-e, "
    res.bound = f"all strings of length <= {N} over the alphabet {alpha!r}; all sequences of <= 4 numbers over {len(NUMBER_FORMS)} lexical forms x 9 separator choices (space, comma, tab, LF, CR, CRLF ...) after M/L/H/A; {2000 if tier == 'quick' else 20000} mutated grammar-derived strings"
    res.rule = "string -> independent BNF parser (bounded/pathgrammar.py) vs parse_svg_path: equal sequence or ValueError for conforming strings, no exception other than ValueError for any string; distinct = distinct strings that conform to the grammar"
    conforming = 0
    seen_keys = set()

    def feed(s):
        nonlocal conforming
        from bounded import pathgrammar as G

        res.evaluations += 1
        if G.parse(s):
            conforming += 1
        r = _compare(s)
        if r:
            kind = "other-exception" if "raises" in r else "verdict-changes" if "second time" in r else ("leading-zeros" if any(t.lstrip("+-").startswith("0") and len(t.lstrip("+-")) > 1 and t.lstrip("+-")[1].isdigit() for t in s.replace(",", " ").replace("M", " ").replace("L", " ").replace("l", " ").split()) else "wrong-parse")
            key = f"grammar.strings:{kind}"
            if key not in seen_keys:
                seen_keys.add(key)
                res.findings.append(Finding(key=key, text=r, replay=dict(string=s), confirmed=True))

    for L in range(1, N + 1):
        for tup in itertools.product(alpha, repeat=L):
            feed("".join(tup))
    for k in range(1, 5):
        for forms in itertools.product(NUMBER_FORMS, repeat=k) if k <= 2 else itertools.islice(itertools.product(NUMBER_FORMS, repeat=k), 0, 30000, 7):
            for sep in (" ", ",", " , ", "", "\t", "\n", "\r", "\r\n", " \r"):
                for lead in ("M", "M1 2L", "M1 2H"):
                    feed(lead + sep.join(forms))
    rnd = random.Random(seed)
    base = ["M0 0 1,2 3, 4 C5, 6-7.0.5 8-9Z", "m1,1 2,0 1,3z", "M1 2a1 1 0 10 2 2 .5.5 30 014 5", "M10-20Q1e1-2E0,3.5.5T7 8S1 2 3 4", "M1 2 H3 4 V5 v-6 h.7"]
    for _ in range(2000 if tier == "quick" else 20000):
        s = list(rnd.choice(base))
        for _ in range(rnd.randint(0, 3)):
            i = rnd.randrange(len(s))
            op = rnd.random()
            if op < 0.4:
                s[i] = rnd.choice("0123456789.-+eE, \t\n\rMmLlZzAa")
            elif op < 0.7:
                del s[i]
            else:
                s.insert(i, rnd.choice("0123456789.-+eE, "))
        feed("".join(s))
    # long conforming strings: the grammar puts no limit on the number of values, glued together or not (a parser must not run
    # out of stack or time on them)
    for n_vals in (300, 1500, 4000):
        feed("M0 0h" + "-1" * n_vals)
        feed("m5 5l" + "-1-.5" * (n_vals // 2))
        feed("M" + " ".join(str(i % 7) for i in range(2 * n_vals)))
        feed("M0,0" + "l1,1" * n_vals + "z")
    res.distinct_nontrivial = conforming
    res.samples = [dict(string="M007,5", grammar="[('M', (7.0, 5.0))]"), dict(string="M.5.5-1e1", grammar="[('M', (0.5, 0.5)), ('L'...)] or rejected")]
    return res


@component((P, "C18", "C09"), "grammar.round_trip", "bounded")
def round_trip(tier, seed):
    from picosvg.svg_types import SVGPath

    res = ComponentResult()
    rnd = random.Random(seed)
    n = 3000 if tier == "quick" else 60000
    # commands that carry several argument sets (implicit repeats; an m / M followed by implicit linetos) as parse_svg_path(s,
    # exploded=False) yields them: from_commands must print them so that they parse back to the same exploded sequence
    from picosvg.svg_path_iter import parse_svg_path

    for src in ("m10 10 5 0 0 5", "M10 10 5 0 0 5", "m1 2 3 4 5 6 7 8z m1 1 2 2", "l1 1 2 2 3 3", "M0 0 c1 1 2 2 3 3 4 4 5 5 6 6", "M0 0 h1 2 3 v4 5", "M0 0 a1 1 0 0 1 2 2 1 1 0 1 0 3 3", "m0 0 t1 1 2 2 s1 1 2 2 3 3 4 4", "M1 1 q1 2 3 4 5 6 7 8"):
        res.evaluations += 1
        want = [(c, tuple(a)) for c, a in parse_svg_path(src, exploded=True)]
        try:
            printed = SVGPath.from_commands(parse_svg_path(src, exploded=False)).d
            back = [(c, tuple(a)) for c, a in parse_svg_path(printed, exploded=True)]
        except Exception as e:  # noqa
            res.findings.append(Finding(key="grammar.round_trip:raises", text=f"printing the unexploded commands of {src!r} raised {type(e).__name__}: {e}", replay=dict(source=src), confirmed=True))
            break
        if back != want:
            res.findings.append(Finding(key="grammar.round_trip:unexploded-differs", text=f"{src!r} means {want}; its unexploded commands print as {printed!r}, which means {back}", replay=dict(source=src), confirmed=True))
            break
    res.bound = f"{n} command sequences with random finite doubles (random bit patterns, subnormal, huge, negative zero, integers, short decimals)"
    res.rule = "list(SVGPath.from_commands(cmds)) == cmds with ==-equal arguments; distinct = distinct sequences"

    def num():
        c = rnd.random()
        if c < 0.4:
            while True:
                v = struct.unpack("<d", struct.pack("<Q", rnd.getrandbits(64)))[0]
                if math.isfinite(v):
                    return v
        if c < 0.5:
            return rnd.choice([0.0, -0.0, 5e-324, -5e-324, 1.7976931348623157e308, 2.2250738585072014e-308, 1e-5, 1.5e-7, 1e16, 1e22, 123456789012345680.0])
        if c < 0.75:
            return float(rnd.randint(-1000, 1000))
        return round(rnd.uniform(-500, 500), rnd.randint(0, 6))

    seen = set()
    for _ in range(n):
        cmds = [("M", (num(), num()))]
        for _ in range(rnd.randint(0, 4)):
            c = rnd.choice("LlHhVvCcSsQqTtAaZz")
            k = ARITY[c.lower()]
            args = [num() for _ in range(k)]
            if c in "Aa":
                args[3], args[4] = rnd.randint(0, 1), rnd.randint(0, 1)
            cmds.append((c, tuple(args)))
        res.evaluations += 1
        seen.add(repr(cmds))
        try:
            back = list(SVGPath.from_commands(cmds))
        except Exception as e:  # noqa
            res.findings.append(Finding(key="grammar.round_trip:raises", text=f"printing/parsing {cmds} raised {type(e).__name__}: {e}", replay=dict(cmds=repr(cmds)), confirmed=True))
            break
        same = len(back) == len(cmds) and all(c1 == c2 and len(a1) == len(a2) and all(x == y for x, y in zip(a1, a2)) for (c1, a1), (c2, a2) in zip(cmds, back))
        if not same:
            res.findings.append(Finding(key="grammar.round_trip:differs", text=f"{cmds} prints as {SVGPath.from_commands(cmds).d!r} and parses back as {back}", replay=dict(cmds=repr(cmds)), confirmed=True))
            break
    res.distinct_nontrivial = len(seen)
    res.samples = [dict(cmds=repr(cmds), d=SVGPath.from_commands(cmds).d)]
    return res
