"""Assumed contract of skia-pathops (DESIGN 3.5) as an abstract Region algebra.

Nothing in this family of technique can verify Skia.  What the repository's glue code does
*with* pathops is verified against these stand-ins: a path is the list of drawing calls made on
it plus its fill type; `op`, `simplify`, `transform`, `stroke` build uninterpreted region terms.
Works in both modes: symbolic (interpreter overrides) and native replay (module patching).
"""
from __future__ import annotations

import contextlib

import pathops
from picosvg import svg_pathops

from pyvc.sym import contains_sym

_BUILD = ("moveTo", "lineTo", "quadTo", "cubicTo", "close")


class World:
    def __init__(self):
        self.paths = []
        self.fail = set()  # names of operations that raise PathOpsError: "op", "simplify"
        self.events = []  # global log, in order
        self.result_segments = None  # what iterating a computed path yields: list[(verb, points)]
        self.area = 0.0
        self.bounds = (0.0, 0.0, 0.0, 0.0)
        self.computed_paths_are_empty = False  # what len()/bool() of a computed path reports (an empty region is a legal result)


class FakePath:
    __pyvc_abstract__ = True

    def __init__(self, world, *args, fillType=pathops.FillType.WINDING, **kw):
        self.world = world
        self.calls = []
        self.fillType = fillType
        self.term = None  # region term once the path is a computed one
        self.flags = set()
        self.copied_from = None
        if args:
            if isinstance(args[0], FakePath):  # copy constructor
                o = args[0]
                self.calls, self.fillType, self.term, self.flags = list(o.calls), o.fillType, o.term, set(o.flags)
                self.copied_from = o
            else:
                raise TypeError("FakePath(...)")
        world.paths.append(self)
        world.events.append(("Path", self))

    # region term of this path: geometry under its fill type, or the computed term
    def region(self):
        if self.term is not None:
            return self.term
        return ("geom", tuple((n, tuple(a)) for n, a in self.calls), self.fillType)

    def _build(self, name, args):
        if self.term is not None:
            raise AssertionError("drawing onto a computed path")
        self.calls.append((name, tuple(args)))

    def simplify(self, fix_winding=True, keep_starting_points=True, clockwise=False):
        self.world.events.append(("simplify", self, fix_winding))
        if "simplify" in self.world.fail:
            raise pathops.PathOpsError("simplify operation did not succeed")
        self.term = ("simplified", self.region(), bool(fix_winding))
        if fix_winding:
            self.fillType = pathops.FillType.WINDING
            self.flags.add("winding_invariant")

    def transform(self, *m):
        self.world.events.append(("transform", self, m))
        out = FakePath(self.world, fillType=self.fillType)
        out.term = ("transform", self.region(), tuple(m))
        return out

    def stroke(self, width, cap, join, miter_limit, dash_array=(), dash_offset=0.0):
        self.world.events.append(("stroke", self, (width, cap, join, miter_limit, tuple(dash_array), dash_offset)))
        self.term = ("stroke", self.region(), width, cap, join, miter_limit, tuple(dash_array), dash_offset)

    def convertConicsToQuads(self, tolerance=0.25):
        self.world.events.append(("convertConicsToQuads", self, tolerance))
        self.term = ("noconics", self.region(), tolerance)

    @property
    def area(self):
        self.world.events.append(("area", self))
        return self.world.area

    @property
    def bounds(self):
        self.world.events.append(("bounds", self))
        return self.world.bounds

    @property
    def controlPointBounds(self):
        self.world.events.append(("controlPointBounds", self))
        return self.world.bounds

    @property
    def verbs(self):
        return [v for v, _ in self._segments()]

    @property
    def contours(self):
        self.world.events.append(("contours", self))
        return [self]

    def __len__(self):
        if self.term is not None:
            return 0 if self.world.computed_paths_are_empty else 3
        return len(self.calls)

    def __pyvc_truth__(self, interp):
        return len(self) > 0

    def __pyvc_len__(self, interp):
        return len(self)

    def __pyvc_iter__(self, interp):
        return iter(self._segments())

    def __iter__(self):
        return iter(self._segments())

    def _segments(self):
        self.world.events.append(("iterate", self))
        if self.world.result_segments is not None:
            return list(self.world.result_segments)
        verbs = {"moveTo": pathops.PathVerb.MOVE, "lineTo": pathops.PathVerb.LINE, "quadTo": pathops.PathVerb.QUAD,
                 "cubicTo": pathops.PathVerb.CUBIC, "close": pathops.PathVerb.CLOSE}
        return [(verbs[n], tuple(zip(a[0::2], a[1::2]))) for n, a in self.calls]


def _op(world):
    def op(one, two, kind, fix_winding=True, keep_starting_points=True, clockwise=False):
        world.events.append(("op", one, two, kind, fix_winding))
        if "op" in world.fail:
            raise pathops.PathOpsError("operation did not succeed")
        out = FakePath(world, fillType=pathops.FillType.WINDING)
        out.term = ("op", kind, one.region(), two.region(), bool(fix_winding))
        if fix_winding:
            out.flags.add("winding_invariant")
        return out

    return op


class _FakeModule:
    """stands in for the `pathops` module global of svg_pathops during native replay"""

    def __init__(self, world):
        self.Path = lambda *a, **k: FakePath(world, *a, **k)
        self.op = _op(world)
        for n in ("PathOp", "FillType", "PathVerb", "LineCap", "LineJoin", "PathOpsError"):
            setattr(self, n, getattr(pathops, n))


@contextlib.contextmanager
def installed(H):
    world = World()
    if H.mode == "sym":
        H.override(pathops.Path, lambda I, *a, **k: FakePath(world, *a, **k))
        H.override(pathops.op, lambda I, *a, **k: _op(world)(*a, **k))
        for n in _BUILD:
            H.override(getattr(pathops.Path, n), (lambda nm: lambda I, p, *a: p._build(nm, a))(n))
        # isinstance(x, pathops.Path) is not used by the glue; fillType comparison uses the real enum
        yield world
        return
    saved = (svg_pathops.pathops, dict(svg_pathops._SVG_CMD_TO_SKIA_FN))
    try:
        svg_pathops.pathops = _FakeModule(world)
        for cmd, real in saved[1].items():
            nm = real.__name__
            svg_pathops._SVG_CMD_TO_SKIA_FN[cmd] = (lambda n_: lambda p, *a: p._build(n_, a))(nm)
        yield world
    finally:
        svg_pathops.pathops = saved[0]
        svg_pathops._SVG_CMD_TO_SKIA_FN.clear()
        svg_pathops._SVG_CMD_TO_SKIA_FN.update(saved[1])
