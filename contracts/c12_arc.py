"""C12 - arc-to-cubic conversion tracks the true elliptical arc (SVG 1.1 appendix F.6).

Functions under contract: arc_to_cubic, _arc_to_cubic, EllipticalArc.is_straight_line / is_zero_length /
correct_out_of_range_radii / end_to_center_parametrization.  sin/cos/tan/atan2/sqrt are fresh reals tied
by the axioms of DESIGN 3.2; every obligation is polynomial (QF_NRA).
"""
from __future__ import annotations

import math

from picosvg import arc_to_cubic as A
from picosvg.arc_to_cubic import EllipticalArc, _arc_to_cubic, arc_to_cubic
from picosvg.geometric_types import Point

from pyvc.registry import obligation
from pyvc.sym import And, Implies, Ite, Not, Or, SBool, SReal, bool_z, is_sym, smax

P = "C12"
F = "arc_to_cubic."
FLAGS = ((0, 0), (0, 1), (1, 0), (1, 1))


def _arc_inputs(H):
    start = Point(H.real("x1"), H.real("y1"))
    end = Point(H.real("x2"), H.real("y2"))
    return start, H.real("rx"), H.real("ry"), H.real("rot"), end


@obligation((P, "C09"), "arc.cases", functions=[F + "arc_to_cubic", F + "EllipticalArc.is_straight_line", F + "EllipticalArc.is_zero_length"])
def cases(H):
    """Coincident end points give no segment; a zero radius gives exactly one straight line to the end point;
    every other arc is handed to the cubic construction unchanged (tuples accepted for the points)."""
    start, rx, ry, rot, end = _arc_inputs(H)
    large, sweep = H.case("flags", FLAGS)
    as_tuple = H.case("points_as", ("Point", "tuple"))
    sentinel = [("S1",), ("S2",)]
    calls = []

    def run():
        s, e = (start, end) if as_tuple == "Point" else (tuple(start), tuple(end))
        calls.append(list(H.call(arc_to_cubic, s, rx, ry, rot, large, sweep, e)))

    inner = H.capture_args(A, "_arc_to_cubic", run, result=lambda *a, **k: iter(sentinel))
    out = calls[0]
    same = And(H.close(start.x, end.x), H.close(start.y, end.y))
    zero_r = Or(H.close(rx, 0), H.close(ry, 0))
    if H.truth(same):
        H.prove(out == [] and not inner, "cases.coincident_end_points_give_no_segment")
    elif H.truth(zero_r):
        ok = len(out) == 1 and not inner and out[0][0] is None and out[0][1] is None
        H.prove(ok and H.close(tuple(out[0][2]), tuple(end)), "cases.zero_radius_gives_one_line_to_end_point")
    else:
        ok = len(inner) == 1 and out == sentinel
        H.prove(ok, "cases.proper_arc_goes_to_cubic_construction")
        if ok:
            arc = inner[0][0][0]
            H.prove(H.close((tuple(arc.start_point), arc.rotation, arc.large, arc.sweep, tuple(arc.end_point)),
                            (tuple(start), rot, large, sweep, tuple(end))), "cases.arc_parameters_passed_unchanged")
            # SVG F.6.6 step 2: rx <- |rx|, ry <- |ry| (the direction of the arc must not depend on the sign of a radius;
            # the unit-circle frame scale(1/rx, 1/ry) reverses orientation when exactly one radius is negative)
            if H.mode == "sym":
                H.prove(And(H.close(arc.rx, abs(rx)), H.close(arc.ry, abs(ry))), "cases.sign_of_radii_is_ignored_SVG_F.6.6")
            else:
                a = [tuple(map(tuple, t)) for t in arc_to_cubic(start, rx, ry, rot, large, sweep, end)]
                b = [tuple(map(tuple, t)) for t in arc_to_cubic(start, abs(rx), abs(ry), rot, large, sweep, end)]
                H.prove(H.close(tuple(a), tuple(b), 1e-6), "cases.sign_of_radii_is_ignored_SVG_F.6.6", detail=f"with given radii {a[:1]} with |radii| {b[:1]}")


def reference_arc(start, rx, ry, rot, large, sweep, end):
    """SVG 1.1 F.6.5 / F.6.6, written from the specification (independent of picosvg): -> cx, cy, rx, ry, theta1, dtheta"""
    phi = math.radians(rot)
    rx, ry = abs(rx), abs(ry)
    x1p = math.cos(phi) * (start[0] - end[0]) / 2 + math.sin(phi) * (start[1] - end[1]) / 2
    y1p = -math.sin(phi) * (start[0] - end[0]) / 2 + math.cos(phi) * (start[1] - end[1]) / 2
    lam = x1p * x1p / (rx * rx) + y1p * y1p / (ry * ry)
    if lam > 1:
        rx, ry = math.sqrt(lam) * rx, math.sqrt(lam) * ry
    num = rx * rx * ry * ry - rx * rx * y1p * y1p - ry * ry * x1p * x1p
    den = rx * rx * y1p * y1p + ry * ry * x1p * x1p
    co = math.sqrt(max(num / den, 0.0)) * (1 if bool(large) != bool(sweep) else -1)
    cxp, cyp = co * rx * y1p / ry, -co * ry * x1p / rx
    cx = math.cos(phi) * cxp - math.sin(phi) * cyp + (start[0] + end[0]) / 2
    cy = math.sin(phi) * cxp + math.cos(phi) * cyp + (start[1] + end[1]) / 2
    ang = lambda ux, uy, vx, vy: math.atan2(ux * vy - uy * vx, ux * vx + uy * vy)
    th1 = ang(1, 0, (x1p - cxp) / rx, (y1p - cyp) / ry)
    dth = ang((x1p - cxp) / rx, (y1p - cyp) / ry, (-x1p - cxp) / rx, (-y1p - cyp) / ry)
    if not sweep and dth > 0:
        dth -= 2 * math.pi
    elif sweep and dth < 0:
        dth += 2 * math.pi
    return cx, cy, rx, ry, th1, dth


def native_arc_oracle(start, rx, ry, rot, large, sweep, end):
    """Run the real arc_to_cubic and compare its cubics with the reference ellipse arc: -> (ok, text)"""
    if tuple(start) == tuple(end):
        return list(arc_to_cubic(start, rx, ry, rot, large, sweep, end)) == [], "coincident end points"
    if rx == 0 or ry == 0:
        out = list(arc_to_cubic(start, rx, ry, rot, large, sweep, end))
        return len(out) == 1 and out[0][0] is None and tuple(out[0][2]) == tuple(end), "zero radius"
    cx, cy, erx, ery, th1, dth = reference_arc(start, rx, ry, rot, large, sweep, end)
    segs = list(arc_to_cubic(start, rx, ry, rot, large, sweep, end))
    if not segs:
        return False, "no segment for a proper arc"
    if tuple(segs[-1][2]) != tuple(end):
        return False, f"last end point {tuple(segs[-1][2])} is not the arc end {tuple(end)}"
    phi = math.radians(rot)
    cur, worst, total, prev_ang = tuple(start), 0.0, 0.0, None
    for (p1, p2, e) in segs:
        for k in range(0, 17):
            t = k / 16
            m = 1 - t
            x = m ** 3 * cur[0] + 3 * m * m * t * p1[0] + 3 * m * t * t * p2[0] + t ** 3 * e[0]
            y = m ** 3 * cur[1] + 3 * m * m * t * p1[1] + 3 * m * t * t * p2[1] + t ** 3 * e[1]
            dx, dy = x - cx, y - cy
            ux, uy = (math.cos(phi) * dx + math.sin(phi) * dy) / erx, (-math.sin(phi) * dx + math.cos(phi) * dy) / ery
            worst = max(worst, abs(math.hypot(ux, uy) - 1))
            a = math.atan2(uy, ux)
            if prev_ang is not None:
                step = a - prev_ang
                while step > math.pi:
                    step -= 2 * math.pi
                while step < -math.pi:
                    step += 2 * math.pi
                total += step
            prev_ang = a
        cur = tuple(e)
    if worst > 3.0e-4 * 1.02:
        return False, f"relative radial deviation {worst:.3g} from the F.6.5 ellipse (centre {cx:.4g},{cy:.4g} radii {erx:.4g},{ery:.4g})"
    if abs(total - dth) > 1e-3 * (1 + abs(dth)):
        return False, f"swept angle {total:.6g} but the flags select {dth:.6g}"
    return True, f"ok: deviation {worst:.3g}, sweep {total:.5g}"


def _native_all(H, labels, start, rx, ry, rot, large, sweep, end):
    ok, text = native_arc_oracle(start, rx, ry, rot, large, sweep, end)
    for lab in labels:
        H.prove(ok, lab, detail=text)


_CENTRE_LABELS = ("centre.unit_frame_points_distinct", "centre.no_exception_for_proper_arc", "centre.unit_frame_chord_is_2_sqrt_Lambda",
                  "centre.atan2_applied_to_vectors_from_centre_to_end_points", "centre.both_end_points_at_distance_1_from_centre_in_unit_frame",
                  "centre.cross_product_is_signed_scale_factor_times_d", "centre.dot_product_lemma", "centre.vectors_differ_by_the_chord",
                  "centre.inverse_matrix_undoes_unit_frame_on_start_point", "centre.inverse_matrix_undoes_unit_frame_on_end_point",
                  "centre.ellipse_frame_translate_rotate_scale_agrees_with_inverse_matrix", "flags.extent_strictly_between_0_and_2pi",
                  "flags.sweep_selects_direction", "flags.large_arc_selects_extent", "flags.theta_arc_is_angle_difference_mod_2pi",
                  "centre.maps_start_end_and_returns_mapped_centre", "centre.theta1_is_atan2_of_first_vector_two_atan2_three_map_point_calls",
                  "centre.same_unit_frame_matrix_for_both_end_points")
_SEGMENT_LABELS = ("segments.first_control_point_on_start_tangent", "segments.second_control_point_on_end_tangent", "segments.inner_end_point_on_the_ellipse",
                   "segments.control_distance_uses_tan_of_quarter_step", "segments.one_cubic_per_iteration", "segments.count_is_ceil_of_extent_over_quarter_turn",
                   "segments.each_spans_at_most_quarter_turn_plus_0.001", "segments.last_segment_ends_exactly_at_arc_end_point", "segments.step_is_extent_over_n",
                   "segments.radii_are_corrected_first", "segments.no_exception")


def _frame(H, rot):
    """sin/cos of the x-axis rotation (degrees) as used by both the code and the spec"""
    ang = rot * H.PI / 180
    H.trig_neg(ang)
    return H.trig(ang)


def _to_ellipse_frame(p, c, s, co):
    """rotate (p - c) by -phi"""
    dx, dy = p[0] - c[0], p[1] - c[1]
    return (co * dx + s * dy, -s * dx + co * dy)


def _proper(H, start, rx, ry, end):
    H.assume(Not(And(start.x == end.x, start.y == end.y)) if H.mode == "sym" else tuple(start) != tuple(end))
    H.assume(And(Not(H.close(rx, 0)), Not(H.close(ry, 0))) if H.mode == "sym" else (rx != 0 and ry != 0))


@obligation((P, "C09"), "arc.radii_correction", functions=[F + "EllipticalArc.correct_out_of_range_radii"])
def correction(H):
    """SVG F.6.6: radii are scaled by sqrt(Lambda) exactly when Lambda > 1 (Lambda from the rotated half chord);
    afterwards the ellipse admits the chord (Lambda' <= 1); nothing else changes."""
    start, rx, ry, rot, end = _arc_inputs(H)
    large, sweep = H.case("flags", FLAGS)
    _proper(H, start, rx, ry, end)
    s, co = _frame(H, rot)
    arc = EllipticalArc(start, rx, ry, rot, large, sweep, end)
    out = H.call(EllipticalArc.correct_out_of_range_radii, arc)
    hx, hy = _to_ellipse_frame(((start.x - end.x) / 2, (start.y - end.y) / 2), (0, 0), s, co)
    lam = hx * hx / (rx * rx) + hy * hy / (ry * ry)
    H.prove(H.close((tuple(out.start_point), out.rotation, out.large, out.sweep, tuple(out.end_point)), (tuple(start), rot, large, sweep, tuple(end))),
            "correction.only_radii_change")
    big = H.truth(lam > 1)
    if big:
        H.prove(And(H.close(out.rx * out.rx, lam * rx * rx), H.close(out.ry * out.ry, lam * ry * ry)), "correction.scaled_by_sqrt_Lambda")
        H.prove(And(out.rx * rx > 0, out.ry * ry > 0), "correction.keeps_sign_of_each_radius")
        lam2 = hx * hx / (out.rx * out.rx) + hy * hy / (out.ry * out.ry)
        H.prove(H.close(lam2, 1) if H.mode == "sym" else abs(lam2 - 1) < 1e-9, "correction.corrected_ellipse_exactly_spans_the_chord")
    else:
        H.prove(And(H.close(out.rx, rx), H.close(out.ry, ry)), "correction.untouched_when_radii_are_large_enough")


@obligation(P, "arc.accuracy_lemma", functions=[])
def accuracy(H):
    """Pure lemma (no repository code): for 0 < delta <= pi/2 + 0.001 the cubic with control distance 4/3 tan(delta/4)
    stays within 0.03% of the unit circle.  u = tan(delta/4), tau = curve parameter."""
    u, tau = H.real("u"), H.real("tau")
    U_MAX = 0.41451  # > tan((pi/2 + 0.001)/4) = 0.414506...
    if H.mode == "concrete":
        u = min(max(abs(u), 1e-6), U_MAX)
        tau = min(max(abs(tau), 0.0), 1.0)
    else:
        H.assume(And(u > 0, u <= U_MAX, tau >= 0, tau <= 1))
    # half-angle formulas, cleared of denominators: with v = u^2 and D = (1+v)^2,
    #   cos(delta) = (1 - 6v + v^2)/D,  sin(delta) = 4u(1-v)/D ; all points below are scaled by D
    v = u * u
    D = (1 + v) * (1 + v)
    c, s = 1 - 6 * v + v * v, 4 * u * (1 - v)
    k = 4 * u / 3
    p0, p1, p2, p3 = (D, 0), (D, k * D), (c + k * s, s - k * c), (c, s)
    m = 1 - tau
    bx = m * m * m * p0[0] + 3 * m * m * tau * p1[0] + 3 * m * tau * tau * p2[0] + tau * tau * tau * p3[0]
    by = m * m * m * p0[1] + 3 * m * m * tau * p1[1] + 3 * m * tau * tau * p2[1] + tau * tau * tau * p3[1]
    r2 = bx * bx + by * by
    H.prove(r2 >= (1 - 3e-4) * (1 - 3e-4) * D * D, "accuracy.cubic_not_inside_0.9997_of_unit_circle")
    H.prove(r2 <= (1 + 3e-4) * (1 + 3e-4) * D * D, "accuracy.cubic_not_outside_1.0003_of_unit_circle")
    # the true maximum deviation is 2.7e-4, so a 2.5e-4 bound must be refutable (vacuity guard)
    H.canary(r2 <= (1 + 2.5e-4) * (1 + 2.5e-4) * D * D, "accuracy.canary_2.5e-4_is_refutable")


# ------------------------------------------------------------------------------------------------
# centre parametrisation (F.6.5): executed once with atan2 opaque; polynomial lemmas about the vectors
# handed to atan2; then the flag semantics from those lemmas with the geometry hidden.
# ------------------------------------------------------------------------------------------------
@obligation((P, "C09"), "arc.centre_and_flags", split=("flags", FLAGS), functions=[F + "EllipticalArc.end_to_center_parametrization"])
def centre_and_flags(H):
    """For radii that admit the chord: both end points lie on the ellipse around the returned centre, theta1 is the
    start angle, and theta_arc has the direction the sweep flag selects and the extent the large-arc flag selects
    (|d| >= pi iff large), 0 < |d| < 2pi.  The unit-circle frame must preserve orientation (radii sign ignored, F.6.6)."""
    import z3

    from pyvc.sym import PI, real_z

    start, rx, ry, rot, end = _arc_inputs(H)
    large, sweep = H.case("flags", FLAGS)
    _proper(H, start, rx, ry, end)
    s, co = _frame(H, rot)
    hx, hy = _to_ellipse_frame(((start.x - end.x) / 2, (start.y - end.y) / 2), (0, 0), s, co)
    lam = hx * hx / (rx * rx) + hy * hy / (ry * ry)
    arc = EllipticalArc(start, rx, ry, rot, large, sweep, end)

    if H.mode == "concrete":
        # native replay / falsification: the whole chain against an independent F.6.5 implementation
        if rx == 0 or ry == 0 or tuple(start) == tuple(end):
            from pyvc.vc import PathInfeasible

            raise PathInfeasible()
        return _native_all(H, _CENTRE_LABELS, start, abs(rx), abs(ry), rot, large, sweep, end)

    H.assume(lam <= 1)
    H.assume(And(rx > 0, ry > 0))  # precondition: established by arc_to_cubic (|rx|, |ry|) and kept by the radii correction
    H.assume(And(rx * ry < 1e15, rx * ry > -1e15), note="arc radii product below 1e15 (the unit-frame matrix would otherwise count as degenerate for Affine2D.inverse)")
    # --- stage 1: run the real code once.  atan2 is opaque; every map_point result is replaced by fresh names whose
    # defining equations are kept aside ("opaque / reveal"): the flag lemmas do not need the geometry, the geometric
    # obligations get it revealed.  Dropping facts only weakens hypotheses, so every `proved` stays sound.
    from picosvg.svg_transform import Affine2D

    seen, maps, defs = [], [], []

    def opaque_atan2(I, y, x):
        th = H.real(f"theta{len(seen) + 1}")
        seen.append((y, x, th))
        H.assume(And(th > -H.PI, th <= H.PI))
        return th

    real_map_point = H.interp.closure_of(Affine2D.map_point)

    def opaque_map_point(I, self, pt):
        real = I.call_closure(real_map_point, (self, pt), {})
        k = len(maps)
        out = Point(H.real(f"mp{k}x"), H.real(f"mp{k}y"))
        maps.append((self, pt, real, out))
        defs.append(bool_z(And(out.x == real.x, out.y == real.y)))
        if k == 1:
            # the two unit-frame points are distinct because the end points are and the frame map is invertible
            p1, p2 = maps[0][3], out
            dd_ = (p2.x - p1.x) * (p2.x - p1.x) + (p2.y - p1.y) * (p2.y - p1.y)
            H.prove_raw(H.ctx.all_facts() + defs, dd_ > 0, "centre.unit_frame_points_distinct")
            H.assume(dd_ > 0)
        return out

    H.override(math.atan2, opaque_atan2)
    H.override(Affine2D.map_point, opaque_map_point)
    r, e = H.catch(EllipticalArc.end_to_center_parametrization, arc)
    H.prove(e is None, "centre.no_exception_for_proper_arc", detail=repr(e))
    if e is not None:
        return
    theta1, theta_arc, centre = r
    ok = len(seen) == 2 and theta1 is seen[0][2] and len(maps) == 3
    H.prove(ok, "centre.theta1_is_atan2_of_first_vector_two_atan2_three_map_point_calls")
    if not ok:
        return
    (v1y, v1x, th1), (v2y, v2x, th2) = seen
    P1, P2, Cuser = maps[0][3], maps[1][3], maps[2][3]
    Cunit = maps[2][1]
    opaque = H.ctx.all_facts()
    revealed = opaque + defs
    subst = [(real_z(m[3].x), real_z(m[2].x)) for m in maps] + [(real_z(m[3].y), real_z(m[2].y)) for m in maps]

    def reveal(cond):
        """the same condition with every opaque map_point result replaced by its defining term"""
        g = bool_z(cond)
        for _ in range(3):
            g = z3.substitute(g, *subst)
        return SBool(z3.simplify(g))

    H.prove(maps[0][1] is start and maps[1][1] is end and centre is Cuser, "centre.maps_start_end_and_returns_mapped_centre")
    # --- stage 2: polynomial facts about the unit-frame vectors (P1, P2 opaque; no trigonometry involved)
    d = (P2.x - P1.x) * (P2.x - P1.x) + (P2.y - P1.y) * (P2.y - P1.y)
    H.prove_raw(opaque, reveal(H.close(d * rx * rx * ry * ry, 4 * lam * rx * rx * ry * ry)), "centre.unit_frame_chord_is_2_sqrt_Lambda")
    H.assume(d <= 4)  # = 4 Lambda <= 1, just proved with the frame revealed
    H.prove_raw(H.ctx.all_facts(), And(H.close(v1x, P1.x - Cunit[0]), H.close(v1y, P1.y - Cunit[1]), H.close(v2x, P2.x - Cunit[0]), H.close(v2y, P2.y - Cunit[1])),
                "centre.atan2_applied_to_vectors_from_centre_to_end_points")
    H.prove_raw(H.ctx.all_facts(), And(H.close(v1x * v1x + v1y * v1y, 1), H.close(v2x * v2x + v2y * v2y, 1)), "centre.both_end_points_at_distance_1_from_centre_in_unit_frame")
    cross = v1x * v2y - v1y * v2x
    dot = v1x * v2x + v1y * v2y
    # sf = signed sqrt(1/d - 1/4): positive iff sweep != large (F.6.5.2)
    sgn = 1 if sweep != large else -1
    H.prove_raw(H.ctx.all_facts(), And(cross * sgn >= 0, H.close(cross * cross, (1 / d - 0.25) * d * d)), "centre.cross_product_is_signed_scale_factor_times_d")
    H.prove_raw(H.ctx.all_facts(), H.close(dot, (1 / d - 0.25) * d - d / 4), "centre.dot_product_lemma")
    H.prove_raw(H.ctx.all_facts(), H.close((v2x - v1x) * (v2x - v1x) + (v2y - v1y) * (v2y - v1y), d), "centre.vectors_differ_by_the_chord")
    # geometry revealed: the user-space centre and the frame used later (translate(c) rotate(phi) scale(rx, ry)) put the
    # unit vectors back onto the end points
    # split so that each query is a small identity:
    #  (i)  the matrix used to map the centre back is the inverse of the unit-frame matrix on the end points
    #  (ii) for ANY unit-frame centre C and point U:  Minv(C) + R(phi) S(rx, ry) (U - C) == Minv(U)
    M, Minv = maps[0][0], maps[2][0]
    H.prove(maps[1][0] is M, "centre.same_unit_frame_matrix_for_both_end_points")
    for p, nm in ((start, "start"), (end, "end")):
        there = H.interp.call_closure(real_map_point, (M, p), {})
        back = H.interp.call_closure(real_map_point, (Minv, there), {})
        H.prove(H.close(tuple(back), tuple(p)), f"centre.inverse_matrix_undoes_unit_frame_on_{nm}_point")
    C = (H.real("anyCx"), H.real("anyCy"))
    U = (H.real("anyUx"), H.real("anyUy"))
    mc = H.interp.call_closure(real_map_point, (Minv, C), {})
    mu = H.interp.call_closure(real_map_point, (Minv, U), {})
    ux, uy = rx * (U[0] - C[0]), ry * (U[1] - C[1])
    H.prove(H.close((mc.x + co * ux - s * uy, mc.y + s * ux + co * uy), tuple(mu)), "centre.ellipse_frame_translate_rotate_scale_agrees_with_inverse_matrix")
    # orientation: the map into the unit frame is scale(1/rx, 1/ry) o rotate; it preserves orientation because the
    # radii are positive here (precondition; arc_to_cubic passes |rx|, |ry|, see arc.cases)
    # --- stage 3: flag semantics from the lemmas alone (fresh names for the vectors: geometry hidden)
    a1, b1, a2, b2, dd, kk = z3.Reals("u1x u1y u2x u2y dd kk")  # kk = 1/d - 1/4 >= 0
    t1, t2, ta = real_z(th1), real_z(th2), real_z(theta_arc)
    facts = [a for a in H.ctx.axioms if _free_vars(a) <= {"PI"}]
    # branch conditions of the code that only talk about the angles
    names = {str(t1), str(t2)}
    for c in H.ctx.pc:
        vs = _free_vars(c)
        if vs and vs <= names | {"PI"}:
            facts.append(c)
    facts += [a1 * a1 + b1 * b1 == 1, a2 * a2 + b2 * b2 == 1, dd > 0, dd <= 4, kk >= 0, kk == 1 / dd - z3.RealVal("1/4"),
              (a1 * b2 - b1 * a2) * sgn >= 0, (a1 * b2 - b1 * a2) * (a1 * b2 - b1 * a2) == kk * dd * dd, a1 * a2 + b1 * b2 == kk * dd - dd / 4,
              (a2 - a1) * (a2 - a1) + (b2 - b1) * (b2 - b1) == dd]
    # atan2 (DESIGN 3.2) on unit vectors: (a, b) = (cos t, sin t)
    def trig_syms(tag):
        return z3.Real("sin_" + tag), z3.Real("cos_" + tag)

    s1, c1 = trig_syms("t1")
    s2, c2 = trig_syms("t2")
    sA, cA = trig_syms("alpha")
    sD, cD = trig_syms("darc")
    alpha = t2 - t1
    facts += [a1 == c1, b1 == s1, a2 == c2, b2 == s2, t1 > -PI, t1 <= PI, t2 > -PI, t2 <= PI,
              sA == s2 * c1 - c2 * s1, cA == c2 * c1 + s2 * s1,  # addition formula for alpha = t2 - t1
              sD == sA, cD == cA,  # theta_arc is alpha or alpha +- 2 pi (proved below as flags.theta_arc_is_...): 2 pi periodicity
              sD * sD + cD * cD == 1]
    facts += _sign_axioms(ta, sD, cD, PI) + _sign_axioms(alpha, sA, cA, PI)
    taS = SReal(ta)
    H.prove_raw(facts, And(taS > -2 * H.PI, taS < 2 * H.PI, Not(H.close(taS, 0))), "flags.extent_strictly_between_0_and_2pi")
    H.prove_raw(facts, (taS > 0) if sweep else (taS < 0), "flags.sweep_selects_direction")
    H.prove_raw(facts, (abs(taS) >= H.PI) if large else (abs(taS) <= H.PI), "flags.large_arc_selects_extent")
    # theta_arc really is the code's value: it is alpha or alpha +- 2pi by the executed branch
    H.prove(Or(H.close(theta_arc, th2 - th1), H.close(theta_arc, th2 - th1 + 2 * H.PI), H.close(theta_arc, th2 - th1 - 2 * H.PI)), "flags.theta_arc_is_angle_difference_mod_2pi")


def _free_vars(e):
    import z3

    out, todo, seen = set(), [e], set()
    while todo:
        x = todo.pop()
        if x.get_id() in seen:
            continue
        seen.add(x.get_id())
        if z3.is_const(x) and x.decl().kind() == z3.Z3_OP_UNINTERPRETED:
            out.add(str(x))
        todo.extend(x.children())
    return out


def _sign_axioms(x, s, c, PI):
    import z3

    return [
        z3.Implies(x == 0, z3.And(s == 0, c == 1)),
        z3.Implies(z3.And(x > 0, x < PI), s > 0),
        z3.Implies(z3.And(x < 0, x > -PI), s < 0),
        z3.Implies(z3.And(x > PI, x < 2 * PI), s < 0),
        z3.Implies(z3.And(x < -PI, x > -2 * PI), s > 0),
        z3.Implies(z3.Or(x == PI, x == -PI), z3.And(s == 0, c == -1)),
    ]


# ------------------------------------------------------------------------------------------------
# _arc_to_cubic: any number of segments (independent iterations, one arbitrary i)
# ------------------------------------------------------------------------------------------------
@obligation((P, "C09"), "arc.segments", split=("flags", FLAGS), functions=[F + "_arc_to_cubic"])
def segments(H):
    """Given the centre parametrisation (contract of arc.centre_and_flags): n >= 1 segments of at most pi/2 + 0.001 each;
    segment i is the standard cubic for [theta1 + i d, theta1 + (i+1) d] (control distance 4/3 tan(d/4)) mapped by
    translate(c) rotate(phi) scale(rx, ry); every intermediate end point is on the ellipse; the last end point is the
    arc's end point exactly; exactly one segment per iteration."""
    from picosvg.arc_to_cubic import CenterParametrization
    from picosvg.svg_transform import Affine2D

    start, rx, ry, rot, end = _arc_inputs(H)
    large, sweep = H.case("flags", FLAGS)
    arc = EllipticalArc(start, rx, ry, rot, large, sweep, end)
    if H.mode == "concrete":
        return _segments_native(H, arc)
    from pyvc import loops

    loops.install(H)
    H.assume(And(rx > 0, ry > 0))
    s, co = _frame(H, rot)
    th1, dth = H.real("theta1"), H.real("theta_arc")
    c = Point(H.real("cx"), H.real("cy"))
    # contract of end_to_center_parametrization (proved in arc.centre_and_flags)
    H.assume(And(dth > -2 * H.PI, dth < 2 * H.PI, Not(H.close(dth, 0))))
    T = lambda u: (c.x + co * rx * u[0] - s * ry * u[1], c.y + s * rx * u[0] + co * ry * u[1])
    s1, c1 = H.trig(th1)
    H.assume(H.close(T((c1, s1)), tuple(start)))
    se, ce = H.trig(th1 + dth)
    H.assume(H.close(T((ce, se)), tuple(end)))
    corrected = []
    H.override(EllipticalArc.correct_out_of_range_radii, lambda I, a: (corrected.append(a), a)[1])
    H.override(EllipticalArc.end_to_center_parametrization, lambda I, a: CenterParametrization(th1, dth, c))
    H.override(range, lambda I, n: loops.AbsSeq("range") if hasattr(n, "z") else range(n))
    box = {}

    class Each(loops.LoopContract):
        def check_init(self, env, it):
            n = next(v for k, v in env.items() if hasattr(v, "z") and v.z.sort().kind() == 2)  # the Int-valued local: num_segments
            # the code's constant is the float 0.5*pi + 0.001; pi itself is only known to 1e-8 here
            h = H.PI / 2 + 0.001
            H.prove(And(n >= 1, abs(dth) <= n * (h + 1e-8), abs(dth) > (n - 1) * (h - 1e-8)), "segments.count_is_ceil_of_extent_over_quarter_turn")
            H.prove(len(corrected) == 1 and corrected[0] is arc, "segments.radii_are_corrected_first")

        def havoc(self, env, it):
            self.n = next(v for k, v in env.items() if hasattr(v, "z") and v.z.sort().kind() == 2)
            self.before = len(H.interp.frames[-1].yields)
            # established before the loop (segments.count_...); num_segments and theta_arc are not modified by the body
            self.bound = (abs(dth) <= self.n * (H.PI / 2 + 0.001 + 1e-8))
            H.assume(And(self.n >= 1, self.bound))

        def element(self, env, it):
            self.i = H.int("i")
            H.assume(And(self.i >= 0, self.i < self.n))
            self.last = H.case("segment", ("last", "inner"))
            H.assume(H.close(self.i, self.n - 1) if self.last == "last" else Not(H.close(self.i, self.n - 1)))
            return self.i

        def check_step(self, env, it, item):
            ys = H.interp.frames[-1].yields
            H.prove(len(ys) == self.before + 1, "segments.one_cubic_per_iteration")
            if len(ys) != self.before + 1:
                return
            p1, p2, e = ys[-1]
            n, i = self.n, self.i
            d = dth / n
            ts, te = th1 + i * dth / n, th1 + (i + 1) * dth / n  # written as in the code so the same sin/cos symbols are hit
            H.trig_sum(ts, d)
            ss, cs = H.trig(ts)
            s2, c2 = H.trig(te)
            quarter = 0.25 * (te - ts)  # written as in the code
            sq, cq = H.trig(quarter)
            H.prove(H.close(quarter, d / 4), "segments.step_is_extent_over_n")
            # a three-fact query (everything else hidden): |dth| <= n h and n >= 1 give |dth / n| <= h
            from pyvc.sym import PI_AXIOMS, bool_z

            H.prove_raw(list(PI_AXIOMS) + [bool_z(self.n >= 1), bool_z(self.bound)], abs(d) <= H.PI / 2 + 0.001 + 1e-8, "segments.each_spans_at_most_quarter_turn_plus_0.001")
            # control distance k = 4/3 tan(d/4), tan characterised by tan * cos == sin
            tq = H.call(math.tan, 0.25 * (te - ts))
            H.prove(H.close(tq * cq, sq), "segments.control_distance_uses_tan_of_quarter_step")
            k = 4 * tq / 3
            # identities between terms over the same sin/cos/tan symbols: only the branch conditions are needed (axioms hidden)
            H.prove_raw(H.ctx.pc, H.close(tuple(p1), T((cs - k * ss, ss + k * cs))), "segments.first_control_point_on_start_tangent")
            H.prove_raw(H.ctx.pc, H.close(tuple(p2), T((c2 + k * s2, s2 - k * c2))), "segments.second_control_point_on_end_tangent")
            if self.last == "last":
                H.prove(e is end or H.close(tuple(e), tuple(end)), "segments.last_segment_ends_exactly_at_arc_end_point")
            else:
                H.prove_raw(H.ctx.pc, H.close(tuple(e), T((c2, s2))), "segments.inner_end_point_on_the_ellipse")

    H.ctx.loop_contracts[("_arc_to_cubic", 0)] = Each(H)
    out, e = H.catch(_arc_to_cubic, arc)
    H.prove(e is None, "segments.no_exception", detail=repr(e))


def _segments_native(H, arc):
    """native counterpart (replay / falsification): the produced cubics against an independent F.6.5 implementation"""
    if arc.is_straight_line() or arc.is_zero_length():
        from pyvc.vc import PathInfeasible

        raise PathInfeasible()
    _native_all(H, _SEGMENT_LABELS, arc.start_point, abs(arc.rx), abs(arc.ry), arc.rotation, arc.large, arc.sweep, arc.end_point)
