"""Bounded stand-ins for the whole-document halves of C01-C08, C14 and C19 (DESIGN section 4).

ALWAYS labelled bounded in the evidence and never counted in obligations / discharged.  Input space: the generator
families of bounded/gen.py (seeded by VERIF_SEED), the hand-written corpus and the pinned documents; oracles are the
independent reference evaluator (bounded/refrender.py) and the oracles of bounded/oracles.py.
"""
from __future__ import annotations

import random

from pyvc.registry import ComponentResult, Finding, component

SHARDS = 4
QUICK, THOROUGH = 24, 400


def _docs(families, tier, seed, shard, pinned=()):
    from bounded import corpus, gen

    n = THOROUGH if tier == "thorough" else QUICK
    i = 0
    for fam in families:
        for name, doc in gen.documents(fam, seed, n):
            i += 1
            if i % SHARDS == shard:
                yield name, doc, {}
    if shard == 0:
        for name, doc in list(corpus.DOCS.items()) + list(corpus.extra_docs().items()) + list(corpus.FEATURES.items()):
            yield f"corpus:{name}", doc, corpus.OPTIONS.get(name, {})
        for name in pinned:
            yield f"pinned:{name}", corpus.PINNED[name], corpus.PINNED_OPTIONS.get(name, {})


def _convert(doc, **kw):
    from picosvg.svg import SVG

    return SVG.fromstring(doc).topicosvg(**kw).tostring()


def _mk(prop, label, families, oracle, rule, pinned=()):
    """oracle(name, doc, out_or_exc, kw) -> list of (kind, text) problems"""

    def make(shard):
        def run(tier, seed):
            res = ComponentResult()
            res.rule = rule
            res.bound = f"{THOROUGH if tier == 'thorough' else QUICK} generated documents per family {list(families)} (seed {seed}) + corpus + pinned documents"
            distinct = set()
            for name, doc, kw in _docs(families, tier, seed, shard, pinned):
                res.evaluations += 1
                try:
                    out = _convert(doc, **kw)
                    exc = None
                except Exception as e:  # noqa
                    out, exc = None, e
                if out is not None:
                    distinct.add(out)
                try:
                    problems = oracle(name, doc, out, exc, kw)
                except Exception as e:  # noqa - an oracle failure must never look like a verdict
                    res.errors.append(f"oracle crashed on {name}: {type(e).__name__}: {e}")
                    continue
                for kind, text in problems:
                    # pinned / corpus documents have stable names -> stable keys for known_findings.json; generated ones are keyed by content
                    # a kind "class:<signature>" identifies a root cause by its signature, whatever the document (one known-findings entry)
                    key = f"{label}:{kind}" if kind.startswith("class:") else f"{label}:{name}:{kind}" if name.startswith(("pinned:", "corpus:")) else f"{label}:{kind}:{name}"
                    if not any(f.key == key for f in res.findings):
                        res.findings.append(Finding(key=key, text=f"{name}: {text}", replay=dict(doc=doc, name=name, options=kw, kind=kind), confirmed=True))
                if not problems and len(res.samples) < 2:
                    res.samples.append(dict(doc=name, source=doc[:300], verdict="agrees", output=(out or repr(exc))[:200]))
            res.distinct_nontrivial = len(distinct)
            return res

        return run

    for k in range(SHARDS):
        component(prop, f"{label}[{k}/{SHARDS}]", "bounded")(make(k))


def _render_oracle(stroke=False, extra=None):
    def oracle(name, doc, out, exc, kw):
        from bounded import refrender

        if exc is not None:
            return [("raises", f"conversion raised {type(exc).__name__}: {str(exc)[:100]}")] if name.startswith("pinned:") or not isinstance(exc, (ValueError, NotImplementedError)) else []
        n, bad = refrender.compare(doc, out, stroke=True)
        probs = []
        if bad:
            p, want, got = bad[0]
            probs.append(("render", f"{len(bad)} of {n} sample points differ, e.g. at ({p[0]:.2f},{p[1]:.2f}) the source paints {want} but the output {got}"))
        if extra:
            probs += extra(doc, out)
        return probs

    return oracle


def _no_clip_left(doc, out):
    return [("clip-left", "clip-path / clipPath survives in the output")] if ("clip-path" in out or "clipPath" in out) else []


def _gradients_self_contained(doc, out):
    from bounded import oracles

    v = [x for x in oracles.grammar_violations(out) if "gradient" in x]
    return [("gradient-form", v[0])] if v else []


_mk("C02", "render.structural", ("structural",), _render_oracle(), "composited colour of source vs converted document at grid points outside a 0.4% epsilon band of every edge (independent reference evaluator)", pinned=("two_nested_svgs_clip_ids", "use_of_a_template_inside_a_hidden_group", "nested_svg_viewbox_equals_viewport_with_offset", "nested_svg_carries_paint"))
_mk("C03", "render.clipped", ("clipped",), _render_oracle(extra=_no_clip_left), "as C02, with clip membership; plus: no clip-path / clipPath left in the output", pinned=("use_clip_target_transform", "clip_rule_on_the_clippath"))
_mk("C05", "render.cascade", ("cascade",), _render_oracle(), "composited colour (source-over, group opacity) of source vs converted document at grid points",
    pinned=("root_opacity", "explicit_fill_equal_to_defs_context", "opacity_rounded_with_coordinates", "fill_opacity_above_one", "fill_and_stroke_under_opacity", "nested_svg_carries_paint", "use_overrides_inherited_opacity_spelled_differently", "opacity_above_one"))
_mk("C06", "render.gradients", ("gradients",), _render_oracle(extra=_gradients_self_contained), "gradient colour at interior grid points of source vs converted document; output gradients self-contained", pinned=("stroke_gradient_under_transform", "empty_subpath_changes_gradient_bbox"))
_mk("C04", "render.stroked", ("stroked",), _render_oracle(stroke=True), "three-valued stroke region: points well inside the stroke band or well outside it (caps, joins, band edge skipped), source vs converted", pinned=("stroke_width_zero", "stroke_opacity_above_one", "fill_and_stroke_under_opacity"))


def _grammar_oracle(name, doc, out, exc, kw):
    from bounded import oracles
    from picosvg.svg import SVG

    probs = []
    for nd in ((0, 2, 3, 5, 6) if name.startswith(("pinned:", "corpus:")) or not name.startswith("cascade") else (2, 3, 6)):  # opacities need 2 digits (recorded finding)
        for flags in ({}, {"drop_unsupported": True}, {"allow_text": True}):
            opts = dict(kw, ndigits=nd, **flags)
            try:
                o = SVG.fromstring(doc).topicosvg(**opts).tostring()
            except Exception:  # noqa - only normal returns are constrained
                continue
            v = oracles.grammar_violations(o, nd, allow_text=opts.get("allow_text", False))
            if v:
                probs.append(("grammar", f"ndigits={nd} {flags}: {v[0]}" + (f" (+{len(v) - 1} more)" if len(v) > 1 else "")))
                break
        if probs:
            break
    return probs


_mk("C01", "grammar", ("structural", "clipped", "cascade", "gradients", "stroked"), _grammar_oracle, "every normal return of topicosvg x ndigits {0,2,3,6} x {default, drop_unsupported, allow_text} checked by an independent grammar oracle",
    pinned=("opacity_group_loses_sibling", "zero_opacity_outer_group", "drop_unsupported_leaves_single_child_group", "foreign_attribute_declared_on_a_stop", "zero_width_gradient_stroke_on_a_filled_shape", "tiny_coordinates"))


def _idempotence_oracle(name, doc, out, exc, kw):
    from picosvg.svg import SVG

    probs = []
    if exc is not None:
        return probs
    for nd in ((3, 0, 6, 9) if name.startswith(("pinned:", "corpus:")) else (3, 0, 6) if not name.startswith("cascade") else (3, 2, 6)):
        try:
            one = SVG.fromstring(doc).topicosvg(ndigits=nd, **kw).tostring()
        except Exception:  # noqa
            continue
        try:
            two = SVG.fromstring(one).topicosvg(ndigits=nd, **kw).tostring()
            three = SVG.fromstring(two).topicosvg(ndigits=nd, **kw).tostring()
        except Exception as e:  # noqa
            probs.append(("second-pass-raises", f"ndigits={nd}: converting the converted document raised {type(e).__name__}: {str(e)[:80]}"))
            break
        if one != two or two != three:
            from bounded import oracles

            if not name.startswith("pinned:") and two == three and oracles.defs_sorted(one) == two:
                continue  # F19 by its signature: pass 1 differs from the fixpoint ONLY in the order of the gradients inside defs, and the fixpoint (pass 2 == pass 3) has them sorted by id; pinned document defs_order_unstable
            probs.append(("not-idempotent", f"ndigits={nd}: pass 1 {'!=' if one != two else '=='} pass 2 {'!=' if two != three else '=='} pass 3"))
            break
        bad = SVG.fromstring(one).checkpicosvg(**{k: v for k, v in kw.items() if k in ("allow_text",)})
        if bad:
            probs.append(("checkpicosvg", f"the converted document fails the library's own check: {bad[:2]}"))
            break
    return probs


_mk("C07", "idempotence", ("structural", "clipped", "cascade", "gradients", "stroked"), _idempotence_oracle, "pass 1 vs pass 2 vs pass 3 byte for byte at ndigits 3, 0 (2 where opacities occur), 6; checkpicosvg() == ()",
    pinned=("opacity_group_loses_sibling", "zero_opacity_outer_group", "defs_order_unstable", "clippath_written_inside_an_opacity_group", "opacity_group_with_only_a_stroked_line", "vertex_a_hair_off_the_subpath_start", "no_viewbox_gradient_under_transform"))


def _reference_oracle(name, doc, out, exc, kw):
    from bounded import oracles

    if exc is not None:
        return []
    v = oracles.reference_violations(out)
    return [(v[0].split(" ")[0], v[0] + (f" (+{len(v) - 1} more)" if len(v) > 1 else ""))] if v else []


def corpus_pinned(name):
    from bounded import corpus

    return corpus.PINNED[name]


def _sharing_docs():
    NS = 'xmlns="http://www.w3.org/2000/svg" xmlns:xlink="http://www.w3.org/1999/xlink"'
    g = lambda i: f'<linearGradient id="{i}"><stop offset="0" stop-color="red"/><stop offset="1" stop-color="blue"/></linearGradient>'
    return {
        "gradient_shared_visible_transformed_invisible": f'<svg {NS} viewBox="0 0 100 100"><defs>{g("sky")}</defs><rect width="20" height="20" fill="url(#sky)"/><rect x="30" width="20" height="20" fill="url(#sky)" transform="rotate(10)"/><path d="M0,0" fill="url(#sky)"/></svg>',
        "clone_id_taken": f'<svg {NS} viewBox="0 0 100 100"><defs>{g("sky")}{g("sky_0")}</defs><g><rect width="20" height="20" fill="url(#sky)" transform="translate(5 5) scale(2)"/></g><rect y="50" width="20" height="20" fill="url(#sky_0)"/></svg>',
        "clone_id_taken_by_path": f'<svg {NS} viewBox="0 0 100 100"><defs>{g("leaf")}</defs><path id="leaf_0" d="M0,0 L10,0 L10,10 Z"/><rect y="50" width="20" height="20" fill="url(#leaf)" transform="scale(1.5)"/></svg>',
        "idd_shape_instanced_twice_and_stroked": f'<svg {NS} viewBox="0 0 100 100"><defs><rect id="r" width="10" height="10" stroke="black" fill="red"/></defs><use xlink:href="#r"/><use xlink:href="#r" x="30"/></svg>',
        "stroke_with_gradient_no_viewbox": f'<svg {NS}><defs>{g("edge")}</defs><path d="M5,5 L40,5 L40,40" fill="none" stroke="url(#edge)" stroke-width="3"/></svg>',
        "gradient_id_with_a_dot": f'<svg {NS} viewBox="0 0 100 100"><defs>{g("sky.1")}</defs><rect width="20" height="20" fill="url(#sky.1)"/></svg>',
        "drop_unsupported_drops_the_last_user": (f'<svg {NS} viewBox="0 0 100 100"><defs>{g("sky")}</defs><switch><rect width="20" height="20" fill="url(#sky)"/></switch><rect x="30" width="5" height="5"/></svg>', dict(drop_unsupported=True)),
        "allow_text_gradient_painted_text": (f'<svg {NS} viewBox="0 0 100 100"><defs>{g("sky")}</defs><text x="5" y="20" fill="url(#sky)">a</text><rect x="30" width="5" height="5"/></svg>', dict(allow_text=True)),
        "zero_width_gradient_stroke_on_a_filled_shape": corpus_pinned("zero_width_gradient_stroke_on_a_filled_shape"),
        # the command line's --clip_to_viewbox: conversion, then clip_to_viewbox in place on the result (picosvg._run)
        "gradient_user_outside_the_viewbox_then_clipped": (f'<svg {NS} viewBox="0 0 10 10"><defs>{g("far")}</defs><rect x="20" y="20" width="5" height="5" fill="url(#far)"/><rect x="1" y="1" width="5" height="5"/></svg>', dict(then_clip_to_viewbox=True)),
        "gradient_inside_an_uninstantiated_symbol": f'<svg {NS} viewBox="0 0 100 100"><defs><symbol id="swatches"><g>{g("sunset")}</g><rect width="5" height="5"/></symbol></defs><rect width="20" height="20" fill="url(#sunset)"/></svg>',
        "gradient_inside_a_zero_size_nested_svg": f'<svg {NS} viewBox="0 0 100 100"><svg width="0" height="0"><defs>{g("brand")}</defs><rect width="5" height="5"/></svg><svg width="50" height="50"><rect width="20" height="20" fill="url(#brand)"/></svg><rect x="70" width="20" height="20" fill="url(#brand)"/></svg>',
        "gradient_only_in_defs_shape_used_transformed": f'<svg {NS} viewBox="0 0 100 100"><defs>{g("a")}<rect id="r" width="10" height="10" fill="url(#a)"/></defs><use xlink:href="#r" transform="translate(20 20) rotate(15)"/></svg>',
    }


def _refs_run(shard):
    base = _mk_runner = None  # noqa

    def run(tier, seed):
        from bounded import oracles

        res = ComponentResult()
        res.rule = "unique ids, every url() points at a gradient in defs, every gradient in defs is referenced (reference-graph oracle) on documents built around sharing patterns"
        res.bound = f"{len(_sharing_docs())} hand-written sharing patterns"
        for name, doc in _sharing_docs().items():
            doc, opts = doc if isinstance(doc, tuple) else (doc, {})
            res.evaluations += 1
            res.distinct_nontrivial += 1
            opts = dict(opts)
            then_clip = opts.pop("then_clip_to_viewbox", False)
            try:
                if then_clip:
                    from picosvg.svg import SVG

                    pico = SVG.fromstring(doc).topicosvg(**opts)
                    pico.clip_to_viewbox(inplace=True)
                    out = pico.tostring()
                else:
                    out = _convert(doc, **opts)
            except Exception as e:  # noqa
                res.samples.append(dict(doc=name, outcome=f"raises {type(e).__name__}"))
                continue
            v = oracles.reference_violations(out)
            if v:
                res.findings.append(Finding(key=f"refs:sharing:{name}:{v[0].split(' ')[0]}", text=f"{name}: {v[0]}", replay=dict(doc=doc, name=name), confirmed=True))
            elif len(res.samples) < 2:
                res.samples.append(dict(doc=name, verdict="consistent", output=out[:200]))
        return res

    return run


_mk("C08", "refs", ("structural", "clipped", "gradients", "stroked"), _reference_oracle, "reference-graph oracle on every converted document")
component("C08", "refs.sharing_patterns", "bounded")(_refs_run(0))


# ------------------------------------------------------------------------------------------------ C14 noise
ALL_NOISE = ["comment", "pi", "title", "desc", "metadata", "foreign_el", "foreign_attr", "symbol", "wrapper", "whitespace", "nested_descriptive", "wrap_every_shape", "foreign_attr_local_ns", "prolog_mentions_svg", "root_attr_with_gt"]


def noise_variants(doc, rnd, k=3, each_kind=False):
    from lxml import etree

    NS = "http://www.w3.org/2000/svg"
    out = []
    plans = [[kind] for kind in ALL_NOISE] if each_kind else [rnd.sample(ALL_NOISE, 3) for _ in range(k)]
    for kinds in plans:
        root = etree.fromstring(doc.encode())
        els = [e for e in root.iter() if isinstance(e.tag, str)]
        for kind in kinds:
            tgt = rnd.choice(els)
            parent = tgt.getparent()
            # wrapper groups are only legal where the content model allows a <g> (not inside text, gradients; clipPath children
            # cannot be groups either - picosvg rejects them, recorded separately)
            inside_special = any(etree.QName(a).localname in ("clipPath", "linearGradient", "radialGradient", "text", "tspan", "textPath") for a in [tgt] + list(tgt.iterancestors()) if isinstance(a.tag, str))
            if kind == "comment":
                tgt.append(etree.Comment(" noise ")) if len(tgt) or tgt is root else tgt.addnext(etree.Comment(" noise ")) if parent is not None else None
            elif kind == "pi":
                root.insert(0, etree.ProcessingInstruction("noise", "x"))
            elif kind in ("title", "desc", "metadata"):
                e = etree.SubElement(tgt if len(tgt) or tgt is root else root, f"{{{NS}}}{kind}")
                e.text = "noise"
            elif kind == "nested_descriptive":
                # descriptive elements may nest (metadata holding title / desc) and occur anywhere, e.g. inside a gradient
                m = etree.Element(f"{{{NS}}}metadata")
                etree.SubElement(m, f"{{{NS}}}title").text = "t"
                etree.SubElement(m, f"{{{NS}}}desc").text = "d"
                root.insert(0, m)
                for g in root.iter(f"{{{NS}}}linearGradient", f"{{{NS}}}radialGradient"):
                    etree.SubElement(g, f"{{{NS}}}desc").text = "about this gradient"
                etree.SubElement(root, f"{{{NS}}}desc").text = "trailing"
            elif kind == "wrap_every_shape":
                for e in list(els):
                    par = e.getparent()
                    if par is None or etree.QName(e).localname not in ("rect", "circle", "ellipse", "path", "polygon", "polyline", "line"):
                        continue
                    if any(etree.QName(a).localname in ("clipPath", "defs", "text") for a in e.iterancestors() if isinstance(a.tag, str)):
                        continue
                    g = etree.Element(f"{{{NS}}}g")
                    e.addprevious(g)
                    g.append(e)
            elif kind == "foreign_el":
                e = etree.SubElement(root, "{http://example.com/noise}thing")
                etree.SubElement(e, f"{{{NS}}}rect", width="500", height="500")
            elif kind == "foreign_attr":
                tgt.set("{http://example.com/noise}flag", "1")
            elif kind == "symbol":
                # id-less symbol (nothing can instantiate it), as editors write them: its content carries ids nobody refers to; placed at
                # the root or next to the target element
                host = root if rnd.random() < 0.5 or parent is None or inside_special else parent
                e = etree.SubElement(host, f"{{{NS}}}symbol")
                etree.SubElement(e, f"{{{NS}}}rect", width="500", height="500", id=f"noise-symbol-rect-{rnd.randint(0, 999)}")
                gg = etree.SubElement(e, f"{{{NS}}}g", id=f"noise-symbol-layer-{rnd.randint(0, 999)}")
                etree.SubElement(gg, f"{{{NS}}}path", d="M0,0 L9,0 L9,9 Z")
            elif kind == "wrapper" and parent is not None and not inside_special and etree.QName(tgt).localname not in ("defs", "stop"):
                g = etree.Element(f"{{{NS}}}g")
                tgt.addprevious(g)
                g.append(tgt)
            elif kind == "whitespace" and not inside_special and (parent is None or etree.QName(parent).localname not in ("text", "tspan", "textPath")):
                tgt.tail = "\n   \t"  # white space is significant inside text content, ignorable between other elements
            elif kind == "foreign_attr_local_ns":
                # a foreign attribute whose namespace is declared on the very element that carries it (not on the root): a gradient stop
                # if there is one, else the target (lxml writes the declaration where the prefix is first needed)
                stops = [e for e in els if etree.QName(e).localname == "stop"]
                (rnd.choice(stops) if stops else tgt).set("{urn:noise:local}locked", "true")
        text = etree.tostring(root).decode()
        if "prolog_mentions_svg" in kinds:
            # a comment and a processing instruction in front of the root that mention "<svg": whatever sniffs the root tag textually is fooled
            text = '<!-- exported from <svg width="1"> by a tool --><?tool data="<svg>"?>' + text
        if "root_attr_with_gt" in kinds:
            # a foreign attribute on the root, before the namespace declarations, whose value contains ">"
            text = text.replace("<svg ", '<svg xmlns:exp="urn:noise:export" exp:filename="icons->final/x.png" ', 1) if text.startswith("<svg ") else text
        if rnd.random() < 0.5:
            text = '<?xml version="1.0" encoding="UTF-8"?>\n' + text
        out.append((kinds, text))
    return out


def _noise_oracle(name, doc, out, exc, kw):
    from bounded import oracles

    rnd = random.Random(name)
    probs = []
    base = out
    # hand-written documents get every kind of noise, one at a time; generated ones three random kinds, three times
    from bounded import corpus

    pinned_noisy = corpus.PINNED_NOISY.get(name[len("pinned:"):]) if name.startswith("pinned:") else None
    for kinds, noisy in ([(["wrapper"], pinned_noisy)] if pinned_noisy else noise_variants(doc, rnd, each_kind=name.startswith("corpus:"))):
        try:
            o2 = _convert(noisy, **kw)
        except Exception as e:  # noqa
            if exc is None:
                probs.append(("noise-breaks-conversion:" + "+".join(sorted(kinds)), f"with noise {kinds} the conversion raises {type(e).__name__}: {str(e)[:80]} although the clean document converts"))
            continue
        if exc is not None:
            probs.append(("noise-fixes-conversion", f"with noise {kinds} the conversion succeeds although the clean document raises {type(exc).__name__}"))
            continue
        gap = oracles.gradient_number_gap(o2, base)
        if gap is None or gap > 2e-4:
            probs.insert(0, ("noise-changes-output:" + "+".join(sorted(kinds)), f"noise {kinds} changes the converted document"))
        elif gap > 3e-6:
            # more than the last rounded digit, still only gradient numbers and tiny: the double rounding of F20 (a gradient is rounded in
            # place when the traversal reaches it; shapes visited later derive their transformed copy from the rounded one, and noise
            # that changes a shape's depth changes whether it is visited before or after)
            probs.append(("class:gradient-double-rounding", f"noise {kinds} changes gradient parameters by {gap:.2g} (relative), beyond the last rounded digit"))
    return probs[:1]


_mk("C14", "noise", ("structural", "clipped", "cascade", "gradients"), _noise_oracle, "metamorphic: 3 noise insertions (comments, PIs, title/desc/metadata, foreign elements / attributes, id-less symbols, attribute-less wrapper groups, whitespace, XML declaration) per document; outputs equal up to gradient ids, defs order, last digits of gradient numbers", pinned=("gradient_double_rounding",))


# ------------------------------------------------------------------------------------------------ C19 viewBox clipping / bounding boxes
def _viewbox_oracle(name, doc, out, exc, kw):
    from bounded import refrender
    from picosvg.svg import SVG

    if exc is not None:
        return []
    rnd = random.Random(name)
    probs = []
    pico = SVG.fromstring(out)
    # move the viewBox so that shapes straddle its sides
    vb = (rnd.randint(-20, 40), rnd.randint(-20, 40), rnd.randint(30, 90), rnd.randint(30, 90))
    pico.svg_root.attrib["viewBox"] = " ".join(map(str, vb))
    src = pico.tostring()
    clipped = SVG.fromstring(src).clip_to_viewbox().tostring()
    a, b = refrender.Renderer(src, stroke=False), refrender.Renderer(clipped, stroke=False)
    eps = 0.004 * 140
    has_gradient = "Gradient" in out
    bad = 0
    for i in range(30):
        for j in range(30):
            p = (-40 + 180 * (i + 0.41) / 30, -40 + 180 * (j + 0.67) / 30)
            if a.min_edge_distance(p) < eps or b.min_edge_distance(p) < eps:
                continue
            if min(abs(p[0] - vb[0]), abs(p[0] - vb[0] - vb[2]), abs(p[1] - vb[1]), abs(p[1] - vb[1] - vb[3])) < eps:
                continue
            inside = vb[0] < p[0] < vb[0] + vb[2] and vb[1] < p[1] < vb[1] + vb[3]
            want = a.color_at(p) if inside else (1, 1, 1, 1)
            got = b.color_at(p)
            if has_gradient:
                # bounding-box gradients legitimately shift when their shape is cut: compare coverage only
                differs = (max(abs(x - 1) for x in want) > 0.02) != (max(abs(x - 1) for x in got) > 0.02)
            else:
                differs = max(abs(x - y) for x, y in zip(want, got)) > 0.02
            if differs:
                bad += 1
                first = (p, want, got, inside)
    if bad:
        p, want, got, inside = first
        probs.append(("clip_to_viewbox", f"viewBox {vb}: {bad} sample points wrong, e.g. ({p[0]:.1f},{p[1]:.1f}) {'inside' if inside else 'outside'} the viewBox should be {tuple(round(x, 2) for x in want)} but is {tuple(round(x, 2) for x in got)}"))
    # bounding boxes: tight box of the flattened geometry
    for shape in SVG.fromstring(out).shapes():
        subs = refrender.flatten_path(refrender.parse_path(shape.as_path().d), n=64)
        pts = [q for s, _ in subs for q in s]
        if not pts:
            continue
        bb = shape.bounding_box()
        want = (min(q[0] for q in pts), min(q[1] for q in pts), max(q[0] for q in pts), max(q[1] for q in pts))
        got = (bb.x, bb.y, bb.x + bb.w, bb.y + bb.h)
        size = max(want[2] - want[0], want[3] - want[1], 1e-9)
        if max(abs(x - y) for x, y in zip(want, got)) > 0.01 * size + 1e-6:
            probs.append(("bounding_box", f"bounding box {tuple(round(x, 3) for x in got)} of {shape.d[:60]!r} is not the tight box {tuple(round(x, 3) for x in want)} of its curve"))
            break
    return probs


_mk("C19", "viewbox", ("structural",), _viewbox_oracle, "converted documents re-framed by a random viewBox, clip_to_viewbox vs the reference evaluator (inside: same colour, outside: nothing); bounding boxes vs the tight box of the finely flattened curve")


# ------------------------------------------------------------------------------------------------ C18: pruning on whole documents, called directly
def _prune_run(tier, seed):
    """remove_unpainted_shapes() / remove_empty_subpaths() called directly on a parsed document (not through topicosvg, i.e.
    with styles, groups and use elements still in place) must not change what is painted."""
    from bounded import corpus, gen, refrender
    from picosvg.svg import SVG

    res = ComponentResult()
    n = 16 if tier == "quick" else 400
    res.rule = "composited colour at grid points of the document before vs after SVG.remove_unpainted_shapes() and SVG.remove_empty_subpaths(), each called directly on the parsed source"
    res.bound = f"{n} generated cascade / structural documents (seed {seed}) + corpus + pinned documents"
    docs = [(f"pinned:{k}", corpus.PINNED[k]) for k in ("group_style_hides_but_child_paints", "evenodd_repeated_subpath", "paint_set_two_levels_up", "initial_fill_under_a_styled_group")]
    docs += [(f"corpus:{k}", v) for k, v in corpus.DOCS.items()]
    for fam in ("cascade", "structural"):
        docs += list(gen.documents(fam, seed, n // 2))
    distinct = set()
    for name, doc in docs:
        for op in ("remove_unpainted_shapes", "remove_empty_subpaths"):
            res.evaluations += 1
            try:
                out = getattr(SVG.fromstring(doc), op)().tostring()
            except Exception:  # noqa - only normal returns are constrained
                continue
            distinct.add(out)
            try:
                cnt, bad = refrender.compare(doc, out, stroke=True)
            except Exception as e:  # noqa
                res.errors.append(f"oracle crashed on {name}: {type(e).__name__}: {e}")
                continue
            if bad:
                pnt, want, got = bad[0]
                key = f"prune.render:{name}:{op}" if name.startswith(("pinned:", "corpus:")) else f"prune.render:{op}:{name}"
                # one root cause has a signature that can be tested exactly (F45): a shape that states a paint property at its INITIAL value
                # (fill="black", stroke-width="1") below an ancestor that sets the property in a style attribute loses the attribute when the
                # cached shape is written back, because the inherited context is computed from presentation attributes only.  It is this
                # cause iff the same operation on the same document with the style attributes resolved first leaves the picture alone.
                try:
                    resolved = SVG.fromstring(doc).apply_style_attributes()
                    before = resolved.tostring()
                    after = getattr(SVG.fromstring(before), op)().tostring()
                    if "style=" in doc and not refrender.compare(before, after, stroke=True)[1]:
                        key = "prune.render:class:initial-value-lost-under-an-ancestor-style"
                except Exception:  # noqa
                    pass
                if any(f.key == key for f in res.findings):
                    continue
                res.findings.append(Finding(key=key, text=f"{name}: {op}() changes the picture: {len(bad)} of {cnt} sample points differ, e.g. at ({pnt[0]:.2f},{pnt[1]:.2f}) {want} became {got}",
                                            replay=dict(doc=doc, name=name, op=op), confirmed=True))
    res.distinct_nontrivial = len(distinct)
    return res


component("C18", "prune.render", "bounded")(_prune_run)
