"""Per-property metadata: claimed level, explanation, trusted base (assumed contracts)."""

CPY = "CPython: float/str round trip, round() to nearest on the decimal grid, dict insertion order, reduce is a left fold (DESIGN 3.1)"
MATH = "math: sin/cos/tan/sqrt/hypot/atan2/ceil/radians axiomatised as reals (DESIGN 3.2)"
PATHOPS = "skia-pathops: Region algebra contract of Path/op/simplify/stroke/bounds/area/transform (DESIGN 3.5) - Skia itself is not verified"
LXML = "lxml: _Attrib is an insertion-ordered str->str dict; parser options honoured; XPath/tree surgery as documented (DESIGN 3.6)"
BRIDGE = "printer/parser bridge P1-P3 between path-data strings and command lists (DESIGN 3.4); checked only by the bounded part of C10"
RE = ("re: the scanning loops of split/finditer and the leftmost-first semantics of the sre matcher (= Pike semantics for the constructs used; cross-checked against the real "
      "pattern on sampled strings every run), membership of one character in one atom taken from the engine itself, float()/int() of a lexeme (DESIGN 3.3, S.8)")

PROPERTIES = {}

# A property's check also discharges the deductive obligations (not the bounded components) of the properties whose code it
# stands on: a defect in a shared helper - the arc converter, the affine algebra, the path rewrites, the boolean glue, the
# cascade handlers - breaks every property built on it, whichever one a reader files it under.
DEPENDS = {
    "C01": ("C09", "C12", "C13", "C05", "C04", "C06", "C19"),
    "C02": ("C09", "C11", "C12", "C13", "C15"),
    "C03": ("C09", "C11", "C12", "C13"),
    "C04": ("C09", "C11", "C12", "C13"),
    "C05": ("C04", "C15"),
    "C06": ("C11", "C15"),
    "C07": ("C09", "C12", "C05", "C06"),
    "C08": ("C04",),
    "C09": ("C12",),
    "C12": ("C11",),
    "C13": ("C09", "C12"),
    "C14": ("C05",),
    "C18": ("C09", "C12", "C13", "C05", "C15"),
    "C19": ("C09", "C11", "C12", "C13", "C05", "C15"),
    "C20": ("C09", "C11", "C12"),
}


def _p(pid, level, explanation, trusted):
    PROPERTIES[pid] = dict(level=level, explanation=explanation, trusted_base=trusted)

_p("C11", "proof",
   "Every Affine2D method, the dispatch of parse_svg_transform and Rect.empty are executed symbolically from /repo's source and "
   "checked against SVG 7.4-7.8 written as spec functions; all paths, all real inputs. The two regular expressions of parse_svg_transform are read from its AST "
   "and decided against the transform grammar for all strings (transform.patterns: every item is matched whole, the separator matches only and all of a comma-wsp); that group 2 is the "
   "argument text and the conversion of each argument by float() are checked by the bounded component only (labelled bounded, not counted as proved).",
   [MATH, CPY, RE])

_p("C19", "other",
   "Deductive part: Rect.intersection/union/empty and the bounding-box glue are proved for all real inputs; clip_to_viewbox is run on a tree model "
   "(viewbox.clip: outside removed, inside left alone, straddling intersected with bbox INTERSECT viewBox under the right rules) and the CLI flag by cli.trace. The geometric claim itself (exact clipping, tight bounds) rests on the assumed pathops "
   "contract and is sampled by a bounded component (labelled bounded).",
   [PATHOPS, LXML, CPY, RE])

_p("C09", "proof",
   "Every rewrite callback of svg_types.py (explicit lines, relative/absolute, snapping, S/T expansion, arc replacement glue, move), "
   "_next_pos, _move_endpoint and the rect/ellipse/circle/line outlines are executed symbolically from /repo's source for each of the 20 "
   "commands with symbolic arguments and pen, and compared with the SVG 8.3 path semantics; SVGPath.walk lifts the per-command results to "
   "sequences of any length by a loop invariant. Polygon/polyline text and the exhaustive short-sequence enumeration are a bounded cross-check.",
   [BRIDGE, CPY, MATH, RE])

_p("C12", "proof",
   "arc_to_cubic, _arc_to_cubic and the EllipticalArc methods are executed symbolically from /repo's source; case split, radii correction "
   "(F.6.6), centre parametrisation (F.6.5), flag semantics, segment count, control-point construction and exact end point are proved as "
   "polynomial obligations over axiomatised sin/cos/atan2/sqrt; the 0.03% bound is a pure lemma about the construction.",
   [MATH, CPY])

_p("C13", "proof",
   "Relative to the assumed Region-algebra contract of skia-pathops: skia_path, _do_pathop, union/intersection/difference, svg_commands and "
   "remove_overlaps are executed symbolically from /repo's source for 1-4 operands x every rule assignment x the three operations, and shown to "
   "fold the operands left to right, each under its own rule, simplify with fix_winding, return the engine's output and propagate engine failures.",
   [PATHOPS, BRIDGE, CPY])

_p("C18", "other",
   "Proved, relative to the assumed area measurement of pathops: SVGShape.might_paint (with apply_style_attribute and as_cmd_seq) is executed symbolically for "
   "every combination of geometry class, fill, stroke, display/style and symbolic opacities / stroke width / area, and shown equivalent to the paint "
   "specification; remove_empty_subpaths/subpaths are shown to judge each subpath with its path's own paint and to leave kept subpaths in place. "
   "The consequence the property draws for whole documents ('removing ... never changes the rendered result') is cross-checked by the bounded component prune.render, "
   "which found a genuine exception on the direct API (F45, known finding: the write-back of an edited shape under an ancestor that sets paint in a style attribute); "
   "the level is therefore 'other', not 'proof'.",
   [PATHOPS, BRIDGE, CPY])

_p("C20", "other",
   "affine_between and _round are executed symbolically with _try_affine opaque and shown to return only matrices that _try_affine accepted for the "
   "two shapes at the caller's tolerance (or the identity for almost-equal shapes); almost_equals, _affine_callback (per command family), the "
   "translation and identity cases are proved for symbolic coordinates. What is proved is the guarantee the code gives - every RELATIVE command within the "
   "tolerance - plus the lemma that absolute positions then differ by at most k x tolerance after k commands; that the absolute outline can drift beyond the "
   "tolerance (F21) and the arc case of _affine_callback (F8) are recorded findings - the property as stated does not hold on this tree, so the level is 'other', not 'proof'.",
   [BRIDGE, CPY, MATH])

_p("C04", "other",
   "Proved (all inputs): the stroke glue (name->engine constant tables, parameter binding, conics, simplify + documented fallback), dash-array parsing and "
   "doubling, the opacity/paint/id bookkeeping of SVG._stroke with the stroke drawn above the fill, the tolerance, and - by running _simplify on a tree model (simplify.trace) - stroke in the "
   "shape's own coordinates before the CTM is applied, stroke settings reset before writing back. NOT decided by any contract within reach: the outline geometry itself (caps, joins, miter limit, dash phase, stroker resolution) "
   "is Skia's stroker; a bounded component samples it on polylines (labelled bounded).",
   [PATHOPS, BRIDGE, CPY, LXML, RE])

_p("C05", "other",
   "Proved (all values): the inheritance handlers, their dispatch table against the SVG property index, _inherit_attrib / _attrib_to_pass_on, group "
   "flattening (removable iff ..., children in place, clamped opacity product, kept group carries only opacity), normalize_opacity, the stroke/fill "
   "opacity bookkeeping (C04) and to_element/from_element round trip, over an attribute-map model of lxml. The whole-document claim (composited colour "
   "at every sample point) is checked by a bounded component with an independent compositor (labelled bounded).",
   [LXML, CPY, PATHOPS])

_p("C15", "other",
   "Static typestate obligations over the real AST of class SVG decide, for histories of ANY length, that cached shape edits are flushed before the tree "
   "is touched or cloned, that stale caches are invalidated after tree surgery and that in-place forms return the receiver and copy forms the clone; the "
   "shape<->element round trip is proved. Because the typestate analysis is a purpose-built conservative checker, every failure is confirmed by a native "
   "witness history. Exhaustive short histories against serialise/re-parse are the bounded part (labelled bounded).",
   [LXML, CPY])

_p("C16", "other",
   "Static frame/effect obligations over every function of the package (no post-import writes to module state, no nondeterministic sources, set-typed "
   "values only meet order-insensitive consumers, hash-ordered slots never iterated, memo cleared before use, no mutated mutable defaults): together with "
   "the determinism of lxml/Skia/CPython (assumed) they make the output a function of input bytes and options. Conservative checker: every failure is "
   "confirmed by a hash-seed / batch-order replay where one exists. The replay itself is the bounded part (labelled bounded).",
   [LXML, PATHOPS, CPY])
_p("C17", "other",
   "Static loop inventory: every while loop and recursion in the package has a recorded variant whose shape is re-checked on the real AST (a new or changed "
   "loop fails), argument regexes cannot match the empty string, the XML parser never resolves entities. 'Time proportional to the expanded size' is not "
   "decided. Adversarial documents under a watchdog are the bounded part (labelled bounded).",
   [LXML, CPY, RE])

_p("C14", "other",
   "pipeline.trace (real topicosvg run with recorders): the four strip steps precede every other step for every option value; the parser options and the strip "
   "tag list are checked; proved: comments never count as children and an attribute-less wrapper group is always flattened pushing opacity 1 (C05 group "
   "obligations). The metamorphic claim convert(N(D)) ~ convert(D) is the bounded part (labelled bounded).",
   [LXML, CPY])

_p("C07", "other",
   "Proved: the per-shape rewrites are fixpoints on pico-form data (C09 rewrite obligations: absolute/expand/explicit-lines leave absolute, shorthand-free "
   "commands unchanged; rounding is idempotent), normalize_opacity/_stroke bookkeeping; pipeline.trace (real topicosvg run with recorders): no shape-removing step after the last orphan-gradient sweep. "
   "That _simplify is a fixpoint on a pico tree is NOT decided deductively; pass 1 vs pass 2 vs pass 3 byte comparison is the bounded part (labelled bounded).",
   [LXML, PATHOPS, CPY])
_p("C08", "other",
   "Proved on the call trace / tree model: orphan sweep ordering (pipeline.trace, simplify.trace), ids stripped from use instances (use.instance), fresh id for every gradient copy "
   "(gradient.transformed), ids cleared when a stroked shape is split (C04). Unique ids / no dangling url / no unused gradient on whole "
   "documents is checked by a reference-graph oracle on sharing patterns (bounded, labelled).",
   [LXML, CPY, RE])

_p("C01", "other",
   "Proved: path-data target forms (absolute, no shorthand, no H/V, no arcs after arcs_to_cubics; Skia emits only M/L/Q/C/Z), kept-group attributes and "
   "opacity range, stroke reset, nonzero marking, walk/printing; by running the real topicosvg / _simplify / _run symbolically with recorders for the callees "
   "(pipeline.trace, simplify.trace, cli.trace): pipeline order, binding of ndigits / allow_text / drop_unsupported incl. the CLI, gate raises on violations, root "
   "cleanup, one master defs of gradients only, dissolved groups, no stroke / transform / clip-path left on written paths - for the tree shapes the contracts "
   "enumerate, over a model of lxml. The element-path patterns of the final gate are decided against the grammar for all strings (gate.allowlist, automata back end: nothing outside the grammar's element paths is accepted). For arbitrary trees the conversion itself is NOT decided deductively: an independent grammar oracle on generated documents x options is "
   "the bounded part.",
   [LXML, PATHOPS, BRIDGE, CPY, RE])
_p("C02", "other",
   "Proved: the affine algebra and viewport mapping (C11), shape->path outlines (C09), the pathops transform glue; the composition order (element CTM, use, nested svg "
   "viewport, ancestors in _simplify) by running _resolve_use, _unnest_svg, _simplify on a tree model with symbolic matrices. The rendering equivalence of whole documents is the bounded part: "
   "an independent reference evaluator compares composited colours at sample points of generated structural documents.",
   [LXML, PATHOPS, CPY, MATH, RE])
_p("C03", "other",
   "Proved relative to pathops: intersection/union glue folds operands each under its own rule (C13), _resolve_clip_path and _simplify run on a tree model: clip "
   "region = union of placed children intersected with the nested clip, clips accumulate along the ancestor chain each resolved with the CTM of its carrier, the "
   "intersection pairs the path with its fill-rule and each clip with its clip-rule, transform before clip. Whole-document clip semantics (ancestor stacks, nested clipPaths, use) is the bounded "
   "part with the independent reference evaluator.",
   [LXML, PATHOPS, CPY])
_p("C06", "other",
   "Proved: translation decomposition and affine algebra (C11), gradient attribute resolution (from_element), as_user_space_units, the href template chain, "
   "_apply_gradient_translation against the contract of decompose_translation, _transformed_gradient (own transform -> bbox -> CTM, fresh id), and the order in "
   "_simplify (copies derived before the sources are rounded); whole-document "
   "gradient colour equivalence at interior points is the bounded part with an independent gradient evaluator.",
   [LXML, PATHOPS, CPY, MATH, RE])

_p("C10", "other",
   "Proved for ALL strings over the path alphabet (automata back end, pyvc/rx.py): _FLOAT_RE.match ends exactly at the longest SVG-number prefix, _BOOL_RE is one binary digit, "
   "_SEPARATOR_RE / _CMD_RE match nothing but separators / one command letter. Proved for ANY number of tokens (while-loop invariant + lexicographic variant, lexer.parse_args): "
   "each iteration of the real _parse_args reads exactly one argument of the kind its position demands from the head of the current token, re-queues the rest, and raises ValueError "
   "exactly when the head is not such an argument. Proved: parse_svg_path against those contracts (<= 2 commands), _explode_cmd, check_cmd / num_args against the SVG arity table, "
   "the walk/printing structure (C09). The composition of these contracts into 'the yielded sequence is the grammar's' is a paper argument (DESIGN S.8), cross-checked by the bounded part: "
   "exhaustive short strings against a parser derived independently from the SVG BNF, and the print/parse round trip over extreme floats (labelled bounded).",
   [RE, CPY])
