"""C09 - SVGPath.walk for command sequences of ANY length (cut-point rule on the real loops).

What walk must guarantee to its callbacks and callers (the per-callback contracts of
c09_paths.py assume exactly this):
  W1 the callback receives the SVG current point and subpath start of the commands EMITTED so far,
     and the last emitted command together with the pen position before it (Nones if none)
  W2 a leading relative moveto is handed over as "M"
  W3 the new path data is the concatenation of the callback outputs, in order
  W4 a command with the wrong number of arguments raises ValueError

Induction: ghost (gcur, gstart) = spec pen/start after the emitted commands.  With the per-callback
obligations (same segments and same spec state for the emitted as for the consumed command) the two
segment lists are equal by concatenation congruence - the only meta-step, stated in DESIGN.md.
"""
from __future__ import annotations

from picosvg.geometric_types import Point
from picosvg.svg_types import SVGPath

from pyvc import loops, pathdata
from pyvc.registry import obligation
from pyvc.sym import And, Implies, Not

from .c09_paths import cmd_args, point
from .spec_path import CMDS, arity, interp

P = "C09"


class _InGhost:
    """unknown input path data: parses to an abstract command sequence"""

    def __init__(self, H):
        self.nonempty = H.bool("in_nonempty")

    def parse(self, I, d, exploded):
        self.exploded = exploded
        return loops.AbsSeq("commands")


class _OutGhost:
    """render(commands emitted so far) in the final printing loop"""

    def __init__(self, nonempty):
        self.nonempty = nonempty

    def parse(self, I, d, exploded):
        raise AssertionError("output data is not parsed inside walk")


@obligation((P, "C01"), "path.walk.invariant", any_of=("binding", (0, 1)), split=("out0", ("-",) + CMDS), functions=["svg_types.SVGPath.walk", "svg_types.SVGPath._add_cmd", "svg_types.SVGPath._add", "svg_types.SVGPath.__iter__", "svg_meta.check_cmd", "svg_meta.num_args"])
def walk_invariant(H):
    """W1-W4 for every sequence length (loop invariant), every command letter and every callback output of 0..2 commands (out0/out1 = '-' means absent)."""
    if H.mode == "concrete":
        return _walk_native(H)
    loops.install(H)
    pathdata.install(H)
    binding = H.case("binding", (0, 1))
    path = H.call(SVGPath)
    gin = _InGhost(H)
    path.d = pathdata.PathData(ghost=gin)
    seen = []  # callback invocations
    outputs = {}

    def callback(*a):
        seen.append(a)
        return outputs["value"]

    callback.__pyvc_native__ = True

    def roles(env):
        pts = sorted(k for k, v in env.items() if isinstance(v, Point))
        lists = sorted(k for k, v in env.items() if isinstance(v, (list, loops.AbsList)))
        ok = len(pts) == 2 and len(lists) == 1
        if not ok:
            H.prove(False, "walk.state_is_two_points_and_one_list", detail=f"points={pts} lists={lists}")
            from pyvc.vc import StopPath

            raise StopPath()
        pen, start = (pts[0], pts[1]) if binding == 0 else (pts[1], pts[0])
        return pen, start, lists[0]

    class Outer(loops.LoopContract):
        def applies(self, it):
            return isinstance(it, loops.AbsSeq)

        def check_init(self, env, it):
            H.prove(it.view == "forward" and it.enum_start == 0 and gin.exploded is True, "walk.iterates_exploded_commands_in_order_from_0")
            pen, start, lst = roles(env)
            H.prove(H.close(tuple(env[pen]), (0, 0)) and H.close(tuple(env[start]), (0, 0)) and env[lst] == [], "walk.init_pen_and_start_at_origin_nothing_emitted")

        def havoc(self, env, it):
            pen, start, lst = self.roles = roles(env)  # roles are fixed at the loop head (body locals do not count)
            self.first = H.case("first_command", (True, False))
            if self.first:
                # idx == 0  <=>  nothing consumed: the state is the initial one
                self.g = ((0, 0), (0, 0))
                self.prev = None
                env[lst] = loops.AbsList("emitted", False, None)
            else:
                self.g = (tuple(point(H, "gcur")), tuple(point(H, "gstart")))
                has = H.case("emitted_before", (True, False))
                if has:
                    self.prev = (Point(*point(H, "gprev")), "<prev-cmd>", ("<prev-args>",))
                else:
                    self.prev = None
                env[lst] = loops.AbsList("emitted", has, self.prev)
            env[pen] = Point(*self.g[0])
            env[start] = Point(*self.g[1])

        def element(self, env, it):
            self.kind = H.case("arity", ("ok", "wrong"))
            if self.kind == "wrong":
                self.cmd = H.case("cmd", ("L", "z", "A"))
                self.args = tuple(H.reals("a", arity(self.cmd) + 1))
                outputs["value"] = ()
            else:
                self.cmd = H.case("cmd", ("m", "L", "z"))
                self.args = cmd_args(H, self.cmd)
                outs = []
                c0 = H.case("out0", ("-",) + CMDS)
                if c0 != "-":
                    outs.append((c0, cmd_args(H, c0, "o0_")))
                    c1 = H.case("out1", ("-",) + CMDS)
                    if c1 != "-":
                        outs.append((c1, cmd_args(H, c1, "o1_")))
                outputs["value"] = tuple(outs)
            idx = 0 if self.first else H.int("idx")
            if not self.first:
                H.assume(idx >= 1)
            return (idx, (self.cmd, self.args))

        def check_step(self, env, it, item):
            pen, start, lst = self.roles
            H.prove(self.kind == "ok", "walk.W4_wrong_arity_must_raise_ValueError")
            H.prove(len(seen) == 1, "walk.calls_callback_once_per_command")
            if len(seen) != 1:
                return
            a = seen[0]
            want_cmd = "M" if (self.first and self.cmd == "m") else self.cmd
            prev = self.prev if self.prev is not None else (None, None, None)
            ok_shape = len(a) == 7
            H.prove(ok_shape, "walk.callback_gets_seven_arguments")
            if not ok_shape:
                return
            H.prove(And(H.close(tuple(a[0]), self.g[1]), H.close(tuple(a[1]), self.g[0])), "walk.W1_callback_sees_spec_pen_and_subpath_start")
            H.prove(a[2] == want_cmd and H.close(tuple(a[3]), tuple(self.args)), "walk.W2_command_passed_with_leading_m_as_M")
            same_prev = (a[5] is prev[1] and a[6] is prev[2] and (a[4] is None if prev[0] is None else (a[4] is not None and H.close(tuple(a[4]), tuple(prev[0])))))
            H.prove(same_prev, "walk.W1_callback_sees_last_emitted_command_and_pen_before_it")
            tail = env[lst].tail
            outs = outputs["value"]
            H.prove(len(tail) == len(outs), "walk.W3_every_callback_output_is_emitted")
            if len(tail) != len(outs):
                return
            st = (self.g[0], self.g[1], None, None)
            for (pos, c, args), (oc, oargs) in zip(tail, outs):
                H.prove(c == oc and args is oargs, "walk.W3_emitted_in_order_unchanged")
                H.prove(H.close(tuple(pos), tuple(st[0])), "walk.stored_prev_pos_is_pen_before_the_command")
                st, _ = interp(st, oc, oargs)
            H.prove(And(H.close(tuple(env[pen]), tuple(st[0])), H.close(tuple(env[start]), tuple(st[1]))), "walk.invariant_pen_and_start_follow_SVG_semantics")

        def assume_exhausted(self, env, it):
            pass

    class Printer(loops.LoopContract):
        """final loop: self.d == render(commands emitted), in order, separated"""

        def applies(self, it):
            return isinstance(it, loops.AbsList)

        def check_init(self, env, it):
            H.prove(H.interp.eq(path.d, "") is True, "walk.output_starts_empty")

        def havoc(self, env, it):
            self.nonempty = H.bool("printed_nonempty")
            self.ghost = _OutGhost(self.nonempty)
            path.d = pathdata.PathData(ghost=self.ghost)

        def element(self, env, it):
            self.c = H.case("print_cmd", CMDS)
            self.a = cmd_args(H, self.c, "p")
            return (Point(0, 0), self.c, self.a)

        def check_step(self, env, it, item):
            d = path.d
            ok = isinstance(d, pathdata.PathData) and d.ghost is self.ghost and len(d.segs) == 1
            H.prove(ok, "walk.W3_prints_one_snippet_after_what_was_printed")
            if ok:
                H.prove(d.segs[0][0] == self.c and H.close(tuple(d.segs[0][1]), tuple(self.a)), "walk.W3_prints_command_and_arguments_in_order")

        def assume_exhausted(self, env, it):
            pass

    H.ctx.loop_contracts[("SVGPath.walk", 0)] = Outer(H)
    H.ctx.loop_contracts[("SVGPath.walk", 2)] = Printer(H)
    H.ctx.loop_contracts_any = [H.ctx.loop_contracts[("SVGPath.walk", 0)], H.ctx.loop_contracts[("SVGPath.walk", 2)]]
    res, e = H.catch(SVGPath.walk, path, callback)
    if e is not None:
        # only the arity check may raise, and only for a command with the wrong number of arguments
        lc = H.ctx.loop_contracts[("SVGPath.walk", 0)]
        H.prove(isinstance(e, ValueError) and getattr(lc, "kind", None) == "wrong", "walk.raises_only_ValueError_for_wrong_arity")
        return
    H.prove(res is path, "walk.returns_self")
    d = path.d
    H.prove(isinstance(d, pathdata.PathData) and isinstance(d.ghost, _OutGhost) and not d.segs, "walk.W3_result_is_render_of_all_emitted_commands")


def _walk_native(H):
    """native counterpart for replay: a short concrete path with a recording callback"""
    seen = []
    p = SVGPath(d="m1,2 l3,4 z l1,1 M9,9 h2")

    def cb(start, cur, cmd, args, pp, pc, pa):
        seen.append((tuple(start), tuple(cur), cmd, args, pp, pc, pa))
        return ((cmd, args),)

    p.walk(cb)
    st = ((0, 0), (0, 0), None, None)
    ok = True
    for (start, cur, cmd, args, pp, pc, pa) in seen:
        ok = ok and H.close(start, tuple(st[1])) and H.close(cur, tuple(st[0]))
        st, _ = interp(st, cmd, args)
    H.prove(ok and seen[0][2] == "M", "walk.invariant_pen_and_start_follow_SVG_semantics")
