"""C01 - shape-level half of the pico grammar that the library's own gate does not check (attributes and path data)."""
from __future__ import annotations

from picosvg import svg_pathops
from picosvg.svg_types import SVGPath, SVGShape

from pyvc import pathdata
from pyvc.registry import obligation
from pyvc.sym import And

from .spec_path import ARITY, CMDS

P = "C01"
UPPER = tuple(c for c in CMDS if c.isupper())


@obligation((P, "C09", "C07"), "pathdata.rounded", split=("cmd", UPPER), functions=["svg_types.SVGPath.round_floats", "svg_types.SVGShape.round_floats"])
def rounded(H):
    """round_floats(n): every path argument becomes round(arg, n) (so no coordinate moves by more than half a unit in the
    last place, and rounding again changes nothing), commands and their order are unchanged, float fields are rounded too."""
    pathdata.install(H)
    nd = H.case("ndigits", (0, 1, 3, 6))
    cmd = H.case("cmd", UPPER)
    a0 = H.reals("m", 2)
    args = tuple(H.reals("a", ARITY[cmd.lower()]))
    segs = (("M", a0), (cmd, args)) if cmd != "M" else (("M", a0),)
    sw = H.real("sw")
    if H.mode == "sym":
        path = H.call(SVGPath, d=pathdata.PathData(segs), stroke_width=sw)
    else:
        from picosvg.svg_meta import ntos

        path = SVGPath(d=" ".join(c + ",".join(ntos(float(v)) for v in a) for c, a in segs), stroke_width=sw)
    out, e = H.catch(SVGPath.round_floats, path, nd, inplace=True)
    H.prove(e is None and out is path, "rounded.no_exception_returns_same_path", detail=repr(e))
    if e is not None:
        return
    got = [(c, tuple(a)) for c, a in H.call(SVGPath.__iter__, path)]
    ok = len(got) == len(segs) and all(g[0] == w[0] and len(g[1]) == len(w[1]) for g, w in zip(got, segs))
    H.prove(ok, "rounded.same_commands_in_same_order")
    if not ok:
        return
    u = 10.0 ** -nd
    parts, grid = [], []
    for (c, g), (_, w) in zip(got, segs):
        for x, y in zip(g, w):
            parts.append(abs(x - y) <= u / 2 + (1e-12 if H.mode == "concrete" else 0))
            if H.mode == "concrete":
                grid.append(abs(round(x, nd) - x) < 1e-12 * (1 + abs(x)))
    H.prove(And(*parts), "rounded.every_argument_within_half_a_unit_of_the_last_place")
    if H.mode == "concrete":
        H.prove(all(grid), "rounded.every_argument_is_on_the_n_digit_grid")
    else:
        # on the grid: rounding the result again is the identity (round is characterised as nearest grid point)
        again = H.call(SVGPath.round_floats, path, nd, inplace=True)
        got2 = [(c, tuple(a)) for c, a in H.call(SVGPath.__iter__, again)]
        H.prove(And(*[H.close(x, y) for (_, g), (_, g2) in zip(got, got2) for x, y in zip(g, g2)]), "rounded.every_argument_is_on_the_n_digit_grid")
    H.prove(abs(path.stroke_width - sw) <= u / 2 + (1e-12 if H.mode == "concrete" else 0), "rounded.float_fields_rounded_too")


@obligation((P, "C13"), "pathdata.skia_alphabet", functions=["svg_pathops.svg_commands", "svg_pathops._skia_pts_to_svg"])
def skia_alphabet(H):
    """Whatever the engine returns is written with M, L, Q, C, Z only, each point flattened to x,y in order; an unknown verb is a ValueError."""
    import pathops

    from . import fake_pathops

    with fake_pathops.installed(H) as world:
        x = H.reals("p", 12)
        V = pathops.PathVerb
        world.result_segments = [(V.MOVE, ((x[0], x[1]),)), (V.LINE, ((x[2], x[3]),)), (V.QUAD, ((x[4], x[5]), (x[6], x[7]))), (V.CUBIC, ((x[0], x[1]), (x[2], x[3]), (x[8], x[9]))), (V.CLOSE, ())]
        verb = H.case("extra_verb", ("none", "conic"))
        if verb == "conic":
            world.result_segments.append((V.CONIC, ((x[10], x[11]),)))
        p = fake_pathops.FakePath(world)
        p.term = ("computed",)
        run = (lambda q: list(svg_pathops.svg_commands(q))) if H.mode == "concrete" else svg_pathops.svg_commands
        out, e = H.catch(run, p)
        if verb == "conic":
            H.prove(isinstance(e, ValueError), "skia_alphabet.unknown_verb_is_ValueError")
            return
        H.prove(e is None, "skia_alphabet.no_exception", detail=repr(e))
        if e is None:
            out = list(out)
            H.prove([c for c, _ in out] == ["M", "L", "Q", "C", "Z"], "skia_alphabet.only_M_L_Q_C_Z_in_engine_order")
            H.prove(And(H.close(tuple(out[2][1]), (x[4], x[5], x[6], x[7])), H.close(tuple(out[3][1]), (x[0], x[1], x[2], x[3], x[8], x[9]))), "skia_alphabet.points_flattened_in_order")
