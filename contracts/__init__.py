"""Sidecar contracts for picosvg (nothing here edits /repo).

PROPERTIES: per-property metadata used by ./check for the evidence file.
"""
from .meta import PROPERTIES  # noqa: F401
