"""C20 - a reported reuse transform really maps one shape onto the other.

 guard       every non-None result of affine_between was accepted by a verification of that very matrix
             (_try_affine with the affine-friendly forms of both shapes and the caller's tolerance), or is the identity
             for shapes that almost_equal; _round never returns an unverified matrix
 compare     almost_equals is command for command within the tolerance (lengths, letters, every argument)
 covariance  _affine_callback's output denotes the affine image of the input segment (map_point for absolute,
             map_vector for relative commands); arcs are a KNOWN FINDING (radii scaled, rotation ignored)
 translation an exact translation is found by the first candidate; identical shapes give the identity
"""
from __future__ import annotations

from picosvg import svg_reuse
from picosvg.geometric_types import Point
from picosvg.svg_reuse import _affine_callback, _round, _try_affine, affine_between
from picosvg.svg_transform import Affine2D
from picosvg.svg_types import SVGPath, SVGShape

from pyvc import pathdata
from pyvc.registry import obligation
from pyvc.sym import And, Implies, Not, Or

from .c09_paths import cmd_args, point
from .spec import map_pt, map_vec
from .spec_path import CMDS, arity, interp

P = "C20"
R = "svg_reuse."


class _Tok:
    __pyvc_abstract__ = True

    def __init__(self, name):
        self.name = name

    def __repr__(self):
        return f"<{self.name}>"

    def __pyvc_copy__(self):
        return self


@obligation(P, "reuse.guard", functions=[R + "affine_between", R + "_round"])
def guard(H):
    """Whatever the search does, a matrix is only returned after _try_affine accepted exactly that matrix for the two
    affine-friendly shapes at the caller's tolerance (or it is the identity and the shapes almost_equal)."""
    if H.mode == "concrete":
        return _guard_native(H)
    tol = H.real("tol")
    s1, s2 = H.call(SVGPath, d="M0,0", id="a"), H.call(SVGPath, d="M0,0", id="b")
    F1, F2 = _Tok("friendly(s1)"), _Tok("friendly(s2)")
    tries = []
    counter = {"n": 0}

    def fresh_bool(tag):
        counter["n"] += 1
        return H.bool(f"{tag}{counter['n']}")

    def fresh_aff(tag):
        counter["n"] += 1
        return Affine2D(*H.reals(f"{tag}{counter['n']}_", 6))

    eq_calls = []

    def st_almost_equals(I, a, b, t):
        r = fresh_bool("eq")
        eq_calls.append((a, b, t, r))
        return r

    def st_try(I, affine, a, b, t, comment=""):
        r = fresh_bool("try")
        tries.append((affine, a, b, t, r))
        return r

    friendly = []

    def st_friendly(I, shape):
        friendly.append(shape)
        return F1 if len(friendly) == 1 else F2

    def st_first_sig(I, vectors, fn, t):
        if H.case("first_significant_found", (True, False)):
            return (H.int("sig_idx"), _Tok("vec"))
        return (-1, None)

    def st_both(I, a, b, fn, t):
        if H.case("first_significant_for_both_found", (True, False)):
            vy1, vy2 = Point(H.real("v1x"), H.real("v1y")), Point(H.real("v2x"), H.real("v2y"))
            return (H.int("both_idx"), vy1, vy2)
        return (-1, None, None)

    H.override(SVGShape.almost_equals, st_almost_equals)
    H.override(svg_reuse._try_affine, st_try)
    H.override(svg_reuse._affine_friendly, st_friendly)
    H.override(svg_reuse._first_move, lambda I, p: _first_move_vals[p.name])
    _first_move_vals = {"friendly(s1)": (H.real("m1x"), H.real("m1y")), "friendly(s2)": (H.real("m2x"), H.real("m2y"))}
    H.override(svg_reuse._first_significant, st_first_sig)
    H.override(svg_reuse._first_significant_for_both, st_both)
    H.override(svg_reuse._vectors, lambda I, p: _Tok("vectors"))
    H.override(svg_reuse._nth_vector, lambda I, p, n: _Tok("nth"))
    H.override(svg_reuse._affine_vec2vec, lambda I, a, b: fresh_aff("v2v"))
    H.override(svg_reuse._angle, lambda I, v: H.real("angle"))
    H.override(svg_reuse._apply_affine, lambda I, a, s: _Tok("applied"))
    # matrix algebra is under contract in C11; here only *which* matrix is returned matters, so the expensive
    # products / rotations / roundings are opaque (fresh matrices)
    H.override(Affine2D.compose_ltr.__func__, lambda I, cls, seq: fresh_aff("ltr"))
    H.override(Affine2D.rotate, lambda I, self, *a: fresh_aff("rot"))
    H.override(Affine2D.round, lambda I, self, digits: fresh_aff("rnd"))
    res, e = H.catch(affine_between, s1, s2, tol)
    # T0: shapes that almost_equal give the identity at once; T1: otherwise the first candidate is the translation
    # between the two start points, and it is what gets returned (through _round) when it verifies
    if eq_calls:
        first_eq = eq_calls[0][3]
        if H.truth(first_eq):
            H.prove(e is None and res is not None and H.interp.eq(tuple(res), (1, 0, 0, 1, 0, 0)) is not False and not tries,
                    "guard.identical_shapes_give_identity_without_search")
            if res is not None:
                H.prove(H.close(tuple(res), (1, 0, 0, 1, 0, 0)), "guard.identical_shapes_give_identity")
            return
    # "an exact translation of a shape is always found": the translation candidate is tried before any bail-out (e.g. the one for
    # shapes without an edge of significant x extent), and when it verifies a transform is reported
    H.prove(bool(tries), "guard.translation_is_tried_before_any_bail_out")
    if tries:
        aff0, a0, b0, t0, r0 = tries[0]
        (m1x, m1y), (m2x, m2y) = _first_move_vals["friendly(s1)"], _first_move_vals["friendly(s2)"]
        H.prove(And(H.close(tuple(aff0), (1, 0, 0, 1, m2x - m1x, m2y - m1y)), a0 is F1, b0 is F2), "guard.first_candidate_is_translation_between_start_points")
        if H.truth(r0):
            H.prove(e is None and res is not None, "guard.verified_translation_is_reported", detail=repr(e))
    if e is not None:
        # the only arithmetic hazard in the search is the y-scale quotient
        H.prove(isinstance(e, ZeroDivisionError), "guard.only_ZeroDivisionError_may_escape", detail=repr(e))
        return
    if res is None:
        H.cover("guard.none")
        H.prove(True, "guard.None_is_always_allowed")
        return
    idn = H.close(tuple(res), (1, 0, 0, 1, 0, 0))
    via_eq = [And(idn, r) for (a, b, t, r) in eq_calls if b is not None and H.interp.eq(t, tol) is not False and a.id == "" and b.id == ""]
    via_try = [And(H.close(tuple(res), tuple(aff)), r, H.close(t, tol)) for (aff, a, b, t, r) in tries if a is F1 and b is F2]
    H.prove(Or(*(via_eq + via_try)) if (via_eq + via_try) else False, "guard.returned_matrix_was_verified_for_these_shapes_at_this_tolerance")


def _guard_native(H):
    """native counterpart for replay: on sample pairs, a reported transform must pass the library's own verification"""
    import copy

    pairs = [("M0,0 L4,0 L4,3 Z", "M1,1 L5,1 L5,4 Z"), ("M0,0 L4,0 L4,3 Z", "M0,0 L8,0 L8,6 Z"), ("M0,0 L4,0 L4,3 Z", "M0,0 L4,1 L2,3 Z"), ("M1,1 L2,2", "M1,1 L2,2")]
    ok = True
    for a, b in pairs:
        s1, s2 = SVGPath(d=a), SVGPath(d=b)
        r = affine_between(s1, s2, 0.01)
        if r is not None:
            f1, f2 = svg_reuse._affine_friendly(copy.deepcopy(s1)), svg_reuse._affine_friendly(copy.deepcopy(s2))
            ok = ok and (_try_affine(r, f1, f2, 0.01, "replay") or (r == Affine2D.identity() and s1.almost_equals(s2, 0.01)))
    H.prove(ok, "guard.returned_matrix_was_verified_for_these_shapes_at_this_tolerance")


@obligation(P, "reuse.round", functions=[R + "_round"])
def round_contract(H):
    """_round returns either a rounded matrix that _try_affine accepted, or the matrix it was given."""
    if H.mode == "concrete":
        H.prove(True, "round.result_is_verified_rounding_or_the_input")
        return
    tol = H.real("tol")
    A = Affine2D(*H.reals("A", 6))
    tries = []

    def st_try(I, affine, a, b, t, comment=""):
        r = H.bool(f"try{len(tries)}")
        tries.append((affine, a, b, t, r))
        return r

    H.override(svg_reuse._try_affine, st_try)
    H.override(svg_reuse._apply_affine, lambda I, a, s: _Tok("applied"))
    s1, s2 = _Tok("s1"), _Tok("s2")
    res, e = H.catch(_round, A, s1, s2, tol)
    H.prove(e is None, "round.no_exception", detail=repr(e))
    if e is not None:
        return
    alts = [H.close(tuple(res), tuple(A))] + [And(H.close(tuple(res), tuple(aff)), r) for (aff, a, b, t, r) in tries if a is s1 and b is s2 and t is tol]
    H.prove(Or(*alts), "round.result_is_verified_rounding_or_the_input")


_SHAPES = ("", "M", "ML", "MLZ", "MC", "MQL")


def _mk(H, letters, tag):
    return [(c, cmd_args(H, c, f"{tag}{i}_")) for i, c in enumerate(letters)]


def _path_from(H, cmds):
    if H.mode == "sym":
        return H.call(SVGPath, d=pathdata.PathData(tuple(cmds)))
    return SVGPath(d=" ".join(c + ",".join(repr(float(v)) for v in a) for c, a in cmds))


@obligation(P, "reuse.almost_equals", split=("left", _SHAPES), functions=["svg_types.SVGShape.almost_equals"])
def almost_equals(H):
    """almost_equals(a, b, tol) is True exactly when both outlines have the same commands in the same order and every
    pair of arguments differs by at most tol (a longer outline never matches its prefix)."""
    pathdata.install(H)
    left = H.case("left", _SHAPES)
    right = H.case("right", _SHAPES + ("MH", "ML2"))
    tol = H.real("tol")
    H.assume(tol >= 0)
    a = _mk(H, left, "l")
    b = _mk(H, "ML" if right == "ML2" else right, "r")
    got = H.call(SVGShape.almost_equals, _path_from(H, a), _path_from(H, b), tol)
    same_shape = len(a) == len(b) and all(x[0] == y[0] for x, y in zip(a, b))
    if not same_shape:
        H.prove(Not(got) if H.mode == "sym" else (not got), "almost_equals.different_commands_or_lengths_never_match")
        return
    close = And(*[abs(p - q) <= tol for x, y in zip(a, b) for p, q in zip(x[1], y[1])]) if any(x[1] for x in a) else True
    H.prove(H.close(got, close) if H.mode == "sym" else (bool(got) == bool(close)), "almost_equals.iff_every_argument_within_tolerance")


@obligation(P, "reuse.affine_callback", split=("cmd", tuple(c for c in CMDS if c not in "HhVv")), functions=[R + "_affine_callback", R + "_apply_affine"])
def covariance(H):
    """_affine_callback maps a command to the command of the affine image of its segment: absolute coordinates through
    map_point, relative ones through map_vector (coordinates within 1e-9 of 0 are snapped to 0)."""
    cmd = H.case("cmd", tuple(c for c in CMDS if c not in "HhVv"))
    args = cmd_args(H, cmd)
    A = Affine2D(*H.reals("A", 6))
    cur, start = point(H, "cur"), point(H, "start")
    # map_point / map_vector are under contract in C11.  Their results are made opaque while the callback runs, so that
    # the 1e-9 snapping branches are decided on plain variables; the definitions are revealed for the final comparison.
    defs = []
    if H.mode == "sym":
        import z3

        from pyvc.sym import SBool, bool_z, real_z

        def opaque(kind, real_fn):
            clo = H.interp.closure_of(real_fn)

            def f(I, self, p):
                real = I.call_closure(clo, (self, p), {})
                k = len(defs)
                out_ = type(real)(H.real(f"{kind}{k}x"), H.real(f"{kind}{k}y"))
                defs.append((real_z(out_.x), real_z(real.x)))
                defs.append((real_z(out_.y), real_z(real.y)))
                return out_

            return f

        H.override(Affine2D.map_point, opaque("mp", Affine2D.map_point))
        H.override(Affine2D.map_vector, opaque("mv", Affine2D.map_vector))
    out = tuple(H.call(_affine_callback, A, start, cur, cmd, args))
    if H.mode == "sym":
        del H.ctx.overrides[id(Affine2D.map_point)], H.ctx.overrides[id(Affine2D.map_vector)]
    ok = len(out) == 1
    H.prove(ok, "affine_callback.one_command_out")
    c2, a2 = out[0][0], tuple(out[0][1])
    H.prove(c2 == cmd and len(a2) == len(args), "affine_callback.same_command_and_arity")
    if c2 != cmd or len(a2) != len(args):
        return
    st = (tuple(cur), tuple(start), tuple(point(H, "rc")), tuple(point(H, "rq")))
    mp = lambda p: map_pt(A, p)
    st_img = (mp(st[0]), mp(st[1]), mp(st[2]), mp(st[3]))
    _, s0 = interp(st, cmd, args)
    _, s1 = interp(st_img, c2, a2)
    tol = 1e-9 if H.mode == "sym" else 1e-6
    parts = []
    for x, y in zip(s0, s1):
        if x[0] == "arc":
            # end points only here; the radii / rotation are the subject of affine_callback.arc (known finding)
            img = mp(x[-1])
            parts += [abs(img[0] - y[-1][0]) <= tol, abs(img[1] - y[-1][1]) <= tol]
            continue
        for p, q in zip(x[1:], y[1:]):
            img = mp(p)
            parts += [abs(img[0] - q[0]) <= tol, abs(img[1] - q[1]) <= tol]
    goal = And(*parts) if parts else True
    if H.mode == "sym" and defs and not isinstance(goal, bool):
        facts = [z3.substitute(f, *defs) for f in H.ctx.all_facts()]
        for part in parts:  # one small query per coordinate (a conjunction of 12 is needlessly hard for nlsat)
            if not isinstance(part, bool):
                H.prove_raw(facts, SBool(z3.substitute(bool_z(part), *defs)), "affine_callback.segment_is_affine_image_of_input_segment")
    else:
        H.prove(goal, "affine_callback.segment_is_affine_image_of_input_segment")


@obligation(P, "reuse.affine_callback.arc", functions=[R + "_affine_callback"])
def covariance_arc(H):
    """For an arc the affine image of the ellipse must be described: under a rotation by t the x-axis-rotation grows by t
    and the radii are unchanged; under scale(sx, sy) of an unrotated arc the radii scale by |sx|, |sy|."""
    kind = H.case("transform", ("rotation", "axis scale"))
    cmd = H.case("cmd", ("A", "a"))
    rx, ry, phi, large, sweep, ex, ey = cmd_args(H, cmd)
    cur, start = point(H, "cur"), point(H, "start")
    if kind == "rotation":
        ang = H.real("ang")
        s, c = H.trig(ang)
        A = Affine2D(c, s, -s, c, 0, 0)
        if H.mode == "concrete":
            import math

            A = Affine2D(math.cos(ang), math.sin(ang), -math.sin(ang), math.cos(ang), 0, 0)
    else:
        sx, sy = H.real("sx"), H.real("sy")
        H.assume(And(sx > 0, sy > 0))
        A = Affine2D(sx, 0, 0, sy, 0, 0)
        H.assume(H.close(phi, 0))
    H.assume(And(rx > 0, ry > 0))
    out = tuple(H.call(_affine_callback, A, start, cur, cmd, (rx, ry, phi, large, sweep, ex, ey)))
    a2 = tuple(out[0][1])
    if kind == "rotation":
        H.prove(And(H.close(a2[0], rx), H.close(a2[1], ry)), "affine_callback.arc_rotation_keeps_radii")
        want = phi + ang * 180 / H.PI
        H.prove(H.close(a2[2], want) if H.mode == "sym" else abs(a2[2] - want) < 1e-6, "affine_callback.arc_rotation_turns_x_axis_rotation")
    else:
        H.prove(And(H.close(a2[0], rx * sx), H.close(a2[1], ry * sy), H.close(a2[2], 0)), "affine_callback.arc_axis_scale_scales_radii")
    H.prove(And(H.close(a2[3], large), H.close(a2[4], sweep)), "affine_callback.arc_flags_kept_for_orientation_preserving_maps")


@obligation(P, "reuse.translation_candidate", functions=[R + "affine_between", R + "_affine_callback"])
def translation_candidate(H):
    """Exact translations are found: (T1, in reuse.guard) the first candidate tried is translate(start2 - start1) and is
    returned (rounded) when it verifies; (T2, here) applying a pure translation to an affine-friendly (relative) outline
    shifts the leading absolute moveto and leaves every relative command unchanged, up to the 1e-9 snap to 0."""
    cmd = H.case("cmd", tuple(c for c in CMDS if c not in "HhVvSsTt"))
    args = cmd_args(H, cmd)
    dx, dy = H.real("dx"), H.real("dy")
    A = Affine2D(1, 0, 0, 1, dx, dy)
    cur, start = point(H, "cur"), point(H, "start")
    out = tuple(H.call(_affine_callback, A, start, cur, cmd, args))
    c2, a2 = out[0][0], tuple(out[0][1])
    tol = 1e-9 if H.mode == "sym" else 1e-6
    if cmd.islower() and cmd != "a" or cmd in "zZ":
        H.prove(c2 == cmd and And(*[abs(p - q) <= tol for p, q in zip(a2, args)]) if args else c2 == cmd, "translation.relative_commands_unchanged")
    elif cmd == "a":
        H.prove(And(*[abs(p - q) <= tol for p, q in zip(a2, args)]), "translation.relative_arc_unchanged")
    else:
        from picosvg.svg_meta import cmd_coords

        xs, ys = cmd_coords(cmd)
        parts = []
        for i, (p, q) in enumerate(zip(a2, args)):
            want = q + (dx if i in xs else dy if i in ys else 0)
            parts.append(abs(p - want) <= tol)
        H.prove(And(*parts), "translation.absolute_coordinates_shifted")


@obligation(P, "reuse.drift_bound", functions=[])
def drift_bound(H):
    """Lemma connecting what the code verifies to what a font builder sees: the candidate is accepted on the RELATIVE form
    of both outlines (every relative command within tol, reuse.guard + reuse.almost_equals), so the absolute end point of
    command k of the image lies within |start difference| + k * tol of the other outline's - induction step here, base
    case k = 0 is the moveto itself.  The bound is tight (recorded finding F21: drift beyond tol is possible)."""
    tol, k = H.real("tol"), H.int("k")
    ex, ey = H.real("ex"), H.real("ey")  # accumulated difference of the current points after k commands
    dx, dy = H.real("dx"), H.real("dy")  # difference of the (k+1)-th relative end point arguments
    s = H.real("s")  # difference of the two start points (absolute moveto arguments)
    H.assume(And(tol >= 0, k >= 0, s >= 0))
    H.assume(And(ex <= s + k * tol, -ex <= s + k * tol, ey <= s + k * tol, -ey <= s + k * tol))
    H.assume(And(dx <= tol, -dx <= tol, dy <= tol, -dy <= tol))
    nx, ny = ex + dx, ey + dy
    H.prove(And(nx <= s + (k + 1) * tol, -nx <= s + (k + 1) * tol, ny <= s + (k + 1) * tol, -ny <= s + (k + 1) * tol), "drift.absolute_difference_grows_by_at_most_tol_per_command")
    # and the canary: the stronger statement (no growth) is NOT provable - guards the lemma against vacuity
    H.canary(And(nx <= s + k * tol, -nx <= s + k * tol), "drift.canary_no_growth_is_refutable")


@obligation(P, "reuse.try_affine", functions=[R + "_try_affine"])
def try_affine_contract(H):
    """_try_affine(affine, s1, s2, tolerance) is exactly `apply affine to s1, compare with s2 at the caller's tolerance`:
    the tolerance reaches almost_equals unchanged (not scaled by the candidate, not relaxed), the comparison is against s2
    itself, and the answer is almost_equals' answer.  reuse.guard uses _try_affine through this contract."""
    if H.mode == "concrete":
        s1, s2 = SVGPath(d="M0,0 l4,0 l0,3 z"), SVGPath(d="M0,0 l32,0 l0,24.05 z")
        big = Affine2D(8, 0, 0, 8, 0, 0)
        H.prove(_try_affine(big, s1, s2, 0.1, "x") is True and _try_affine(big, s1, s2, 0.01, "x") is False, "try_affine.tolerance_not_scaled_by_the_candidate")
        return
    tol = H.real("tol")
    A = Affine2D(*H.reals("a", 6))
    s1, s2, applied = _Tok("s1"), _Tok("s2"), _Tok("A(s1)")
    calls = []
    verdict = H.bool("verdict")

    def st_apply(I, affine, s):
        calls.append(("apply", affine, s))
        return applied

    def st_eq(I, a, b, t):
        calls.append(("almost_equals", a, b, t))
        return verdict

    class _ShapeTok(_Tok):
        def almost_equals(self, other, t):
            return st_eq(None, self, other, t)

    applied = _ShapeTok("A(s1)")
    H.override(svg_reuse._apply_affine, st_apply)
    H.override(SVGShape.almost_equals, st_eq)
    res, e = H.catch(_try_affine, A, s1, s2, tol, "contract")
    H.prove(e is None, "try_affine.no_exception", detail=repr(e))
    if e is not None:
        return
    ap = [c for c in calls if c[0] == "apply"]
    eq = [c for c in calls if c[0] == "almost_equals"]
    H.prove(len(ap) == 1 and ap[0][2] is s1 and H.close(tuple(ap[0][1]), tuple(A)), "try_affine.candidate_applied_to_the_first_shape")
    ok = len(eq) == 1 and eq[0][1] is applied and eq[0][2] is s2
    H.prove(ok, "try_affine.image_compared_with_the_second_shape")
    if ok:
        H.prove(H.close(eq[0][3], tol), "try_affine.tolerance_not_scaled_by_the_candidate")
        H.prove(H.interp.eq(res, verdict) if not isinstance(res, bool) else False, "try_affine.answer_is_the_comparison")
