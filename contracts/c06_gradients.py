"""C06 - rewritten gradients keep their colours (the part decided on the gradient classes and the call sites).

Colour at p = ramp(param(M^-1 p; coords)).  Proved here: how attributes become numbers (percentages against the right
reference length, linked focal defaults, unknown attributes rejected), bounding-box units -> user space, the
translation-folding lemma, and the CTM / element-transform composition used for gradients.  The composition order at the
call sites is decided by the symbolic runs of tree_runs.py / trace_runs.py; whole documents are the bounded part.
"""
from __future__ import annotations

import math

from picosvg.geometric_types import Rect
from picosvg.svg import _element_transform, _inherit_matrix_multiply
from picosvg.svg_transform import Affine2D
from picosvg.svg_types import SVGLinearGradient, SVGRadialGradient, _SVGGradient

from pyvc.registry import obligation
from pyvc.sym import And, Or

from . import fake_tree
from .fake_tree import FakeElement, element
from .spec import map_pt, mat_mul

P = "C06"
T = "svg_types."


def _val(kind, number, ref):
    """expected numeric value of an attribute given as plain number or percentage"""
    return number if kind == "number" else (number / 100) * ref


@obligation(P, "gradient.from_element", functions=[T + "SVGLinearGradient.from_element", T + "SVGRadialGradient.from_element", T + "_SVGGradient._get_gradient_units_relative_scale",
                                                   T + "_SVGGradient._parse_common_gradient_parts", T + "SVGRadialGradient.__post_init__", "svg_meta.number_or_percentage", "geometric_types.Rect.normalized_diagonal"])
def from_element(H):
    """Gradient attributes: plain numbers are taken as they are; percentages refer to the viewport width (x-like), height
    (y-like) or normalised diagonal (r, fr) for userSpaceOnUse and to the unit square for objectBoundingBox; defaults per SVG
    13.2; fx, fy default to cx, cy; unknown attributes and unknown units are rejected."""
    fake_tree.install(H)
    kind = H.case("gradient", ("linear", "radial"))
    units = H.case("units", (None, "userSpaceOnUse", "objectBoundingBox", "bogus"))
    form = H.case("values", ("number", "percent", "percent_out_of_range", "defaults"))
    extra = H.case("extra_attribute", (False, True))
    vb = Rect(H.real("vx"), H.real("vy"), H.real("vw"), H.real("vh"))
    H.assume(And(vb.w > 0, vb.h > 0))
    user = units == "userSpaceOnUse"
    rw, rh = (vb.w, vb.h) if user else (1, 1)
    names = ("x1", "y1", "x2", "y2") if kind == "linear" else ("cx", "cy", "r", "fx", "fy", "fr")
    raw = {"x1": 12.5, "y1": 20.0, "x2": 75.0, "y2": 40.0, "cx": 30.0, "cy": 60.0, "r": 45.0, "fx": 35.0, "fy": 55.0, "fr": 5.0}
    if form == "percent_out_of_range":
        # a gradient vector may start before and end after the reference box: -50% .. 150% are ordinary values (only stop OFFSETS clamp)
        raw = {"x1": -50.0, "y1": -20.0, "x2": 150.0, "y2": 120.0, "cx": 120.0, "cy": -10.0, "r": 150.0, "fx": 130.0, "fy": -25.0, "fr": 110.0}
        form = "percent"
    attrib = {"id": "g1"}
    if units is not None:
        attrib["gradientUnits"] = units
    if form != "defaults":
        for n in names:
            attrib[n] = (str(raw[n]) + "%") if form == "percent" else str(raw[n])
    if extra:
        attrib["bogus-attribute"] = "1"
    el = element(H, "linearGradient" if kind == "linear" else "radialGradient", attrib)
    cls = SVGLinearGradient if kind == "linear" else SVGRadialGradient
    g, e = H.catch(cls.from_element, el, vb)
    if units == "bogus" or extra:
        H.prove(isinstance(e, ValueError), "from_element.unknown_units_or_attribute_is_ValueError")
        return
    H.prove(e is None, "from_element.no_exception", detail=repr(e))
    if e is not None:
        return
    if H.mode == "sym":
        diag = H.call(Rect.normalized_diagonal, Rect(0, 0, rw, rh))
        # the code divides by the float sqrt(2): allow its representation error
        H.prove(abs(diag * diag * 2 - (rw * rw + rh * rh)) <= 1e-12 * (rw * rw + rh * rh), "from_element.normalised_diagonal_is_sqrt_of_half_sum_of_squares")
    else:
        diag = math.hypot(rw, rh) / math.sqrt(2)
    ref = {"x1": rw, "x2": rw, "cx": rw, "fx": rw, "y1": rh, "y2": rh, "cy": rh, "fy": rh, "r": diag, "fr": diag}
    dflt = {"x1": 0.0, "y1": 0.0, "x2": 100.0, "y2": 0.0, "cx": 50.0, "cy": 50.0, "r": 50.0, "fr": 0.0}
    for n in names:
        got = getattr(g, n)
        if form == "defaults":
            want = getattr(g, "c" + n[1]) if n in ("fx", "fy") else _val("percent", dflt[n], ref[n])
        else:
            want = _val("number" if form == "number" else "percent", raw[n], ref[n])
        H.prove(H.close(got, want), f"from_element.{n}_resolved_against_the_right_reference")
    H.prove(g.id == "g1" and g.gradientUnits == (units or "objectBoundingBox") and g.spreadMethod == "pad" and H.close(tuple(g.gradientTransform), (1, 0, 0, 1, 0, 0)), "from_element.common_parts_and_defaults")


@obligation(P, "gradient.as_user_space_units", functions=[T + "_SVGGradient.as_user_space_units"])
def user_space(H):
    """objectBoundingBox units become user space by mapping the unit square onto the shape's bounding box AFTER the
    gradient's own transform; user-space gradients are left alone."""
    units = H.case("units", ("objectBoundingBox", "userSpaceOnUse"))
    inplace = H.case("inplace", (True, False))
    gt = Affine2D(*H.reals("g", 6))
    bbox = Rect(H.real("bx"), H.real("by"), H.real("bw"), H.real("bh"))
    H.assume(And(bbox.w > 0, bbox.h > 0))
    g = H.call(SVGLinearGradient, id="g", x1=0.0, y1=0.0, x2=1.0, y2=0.0, gradientTransform=gt, gradientUnits=units)
    out = H.call(_SVGGradient.as_user_space_units, g, bbox, inplace=inplace)
    if inplace:
        H.prove(out is g and out.gradientUnits == "userSpaceOnUse", "as_user_space_units.result_is_user_space")
    else:
        # the copying form hands back a NEW object and leaves the receiver as it was - also when there is nothing to convert (a caller
        # that goes on to bake a shape's transform into the result must not be editing the shared source gradient)
        H.prove(out is not g and out.gradientUnits == "userSpaceOnUse", "as_user_space_units.copying_form_returns_a_new_object")
        H.prove(g.gradientUnits == units and H.close(tuple(g.gradientTransform), tuple(gt)), "as_user_space_units.copying_form_leaves_the_receiver_alone")
    p = (H.real("px"), H.real("py"))
    if units == "objectBoundingBox":
        q = map_pt(gt, p)
        want = (bbox.x + bbox.w * q[0], bbox.y + bbox.h * q[1])
        H.prove(H.close(map_pt(out.gradientTransform, p), want), "as_user_space_units.gradientTransform_then_unit_square_onto_bbox")
    else:
        H.prove(H.close(tuple(out.gradientTransform), tuple(gt)), "as_user_space_units.user_space_gradient_untouched")


@obligation(P, "gradient.translation_fold_lemma", functions=[])
def fold_lemma(H):
    """Pure lemma behind _apply_gradient_translation: with gradientTransform = (translate t, then A) the gradient parameter
    at a canvas point equals that of the gradient whose coordinates are shifted by t under gradientTransform A (linear:
    projection parameter; radial: distances to centre / focus, radius unchanged)."""
    A = H.reals("A", 4)
    t = (H.real("tx"), H.real("ty"))
    p1, p2 = (H.real("x1"), H.real("y1")), (H.real("x2"), H.real("y2"))
    q = (H.real("qx"), H.real("qy"))  # point in the space of A^-1 p  (so the canvas point is A q)
    # original: gradient space point is T^-1 q = q - t ; folded: gradient space point is q, coordinates shifted by +t
    g0 = (q[0] - t[0], q[1] - t[1])
    s1, s2 = (p1[0] + t[0], p1[1] + t[1]), (p2[0] + t[0], p2[1] + t[1])
    dot0 = (g0[0] - p1[0]) * (p2[0] - p1[0]) + (g0[1] - p1[1]) * (p2[1] - p1[1])
    dot1 = (q[0] - s1[0]) * (s2[0] - s1[0]) + (q[1] - s1[1]) * (s2[1] - s1[1])
    len0 = (p2[0] - p1[0]) ** 2 + (p2[1] - p1[1]) ** 2
    len1 = (s2[0] - s1[0]) ** 2 + (s2[1] - s1[1]) ** 2
    H.prove(And(H.close(dot0, dot1), H.close(len0, len1)), "fold_lemma.linear_projection_parameter_unchanged")
    d0 = (g0[0] - p1[0]) ** 2 + (g0[1] - p1[1]) ** 2
    d1 = (q[0] - s1[0]) ** 2 + (q[1] - s1[1]) ** 2
    f0 = (g0[0] - p2[0]) ** 2 + (g0[1] - p2[1]) ** 2
    f1 = (q[0] - s2[0]) ** 2 + (q[1] - s2[1]) ** 2
    H.prove(And(H.close(d0, d1), H.close(f0, f1)), "fold_lemma.radial_distances_to_centre_and_focus_unchanged")


class _AffTok:
    """a transform attribute value standing for a symbolic matrix"""
    __pyvc_abstract__ = True

    def __init__(self, m):
        self.m = m

    def __pyvc_truth__(self, interp):
        return True

    def __pyvc_eq__(self, interp, other):
        return other is self

    def __pyvc_copy__(self):
        return self

    def strip(self, *a):
        return self

    def __pyvc_str__(self, interp):
        return self


def _install_transform_tokens(H):
    if H.mode != "sym":
        return
    H.override(Affine2D.fromstring.__func__ if hasattr(Affine2D.fromstring, "__func__") else Affine2D.fromstring, lambda I, s: s.m if isinstance(s, _AffTok) else Affine2D.fromstring(s))
    H.override(Affine2D.tostring, lambda I, self: _AffTok(self))


def _tok(H, prefix):
    if H.mode == "sym":
        m = Affine2D(*H.reals(prefix, 6))
        return _AffTok(m), m
    m = Affine2D(*H.reals(prefix, 6))
    return m.tostring(), m


@obligation((P, "C02", "C03"), "ctm.element_transform", functions=["svg._element_transform"])
def element_transform(H):
    """_element_transform(el, current) maps a point through the element's own transform first and the ancestors' second;
    gradients read gradientTransform; no attribute means the current transform itself."""
    fake_tree.install(H)
    _install_transform_tokens(H)
    tag = H.case("element", ("g", "path", "linearGradient", "radialGradient"))
    has = H.case("has_own", ("yes", "no", "other attribute only"))
    cur = Affine2D(*H.reals("c", 6))
    tok, own = _tok(H, "o")
    attr = "gradientTransform" if "Gradient" in tag else "transform"
    wrong = "transform" if "Gradient" in tag else "gradientTransform"
    attrib = {attr: tok} if has == "yes" else ({wrong: tok} if has == "other attribute only" else {})
    el = element(H, tag, attrib)
    out = H.call(_element_transform, el, cur)
    p = (H.real("px"), H.real("py"))
    if has == "yes":
        H.prove(H.close(map_pt(out, p), map_pt(cur, map_pt(own, p))), "element_transform.own_first_then_ancestors")
    else:
        H.prove(H.close(tuple(out), tuple(cur)), "element_transform.no_own_transform_means_current")


@obligation(("C02", "C05"), "ctm.inherit_matrix_multiply", functions=["svg._inherit_matrix_multiply"])
def inherit_matrix(H):
    """A transform pushed down from a flattened wrapper composes as (child first, inherited second); if the result is the
    identity the child's transform attribute is removed (a stale one would be applied on its own)."""
    fake_tree.install(H)
    if H.mode == "concrete":
        from lxml import etree

        el = etree.Element("{http://www.w3.org/2000/svg}rect", transform="translate(-30 -20)")
        _inherit_matrix_multiply({"transform": "translate(30, 20)"}, el, "transform")
        H.prove("transform" not in el.attrib, "inherit_matrix.identity_result_removes_attribute")
        el = etree.Element("{http://www.w3.org/2000/svg}rect", transform="scale(2)")
        _inherit_matrix_multiply({"transform": "translate(30, 20)"}, el, "transform")
        got = tuple(Affine2D.fromstring(el.attrib["transform"]))
        H.prove(got == (2.0, 0.0, 0.0, 2.0, 30.0, 20.0), "inherit_matrix.child_first_then_inherited")
        return
    _install_transform_tokens(H)
    child_has = H.case("child_has", (True, False))
    ptok, pm = _tok(H, "p")
    ctok, cm = _tok(H, "k")
    el = element(H, "rect", {"transform": ctok, "keep": "me"} if child_has else {"keep": "me"})
    if not child_has:
        # the handler deletes the attribute when the result is the identity: only reachable with a transform to delete
        H.assume(Or(*[abs(a - b) > 0 for a, b in zip(tuple(pm), (1, 0, 0, 1, 0, 0))]))
    _, e = H.catch(_inherit_matrix_multiply, {"transform": ptok}, el, "transform")
    H.prove(e is None, "inherit_matrix.no_exception", detail=repr(e))
    if e is not None:
        return
    total = mat_mul(pm, cm) if child_has else tuple(pm)
    is_ident = And(*[H.close(a, b) for a, b in zip(total, (1, 0, 0, 1, 0, 0))])
    if "transform" in el.attrib:
        got = el.attrib["transform"]
        H.prove(isinstance(got, _AffTok) and H.close(tuple(got.m), tuple(total)), "inherit_matrix.child_first_then_inherited")
        H.prove(~is_ident if hasattr(is_ident, "z") else not is_ident, "inherit_matrix.identity_result_removes_attribute")
    else:
        H.prove(is_ident, "inherit_matrix.attribute_removed_only_for_identity")
    H.prove(el.attrib.get("keep") == "me", "inherit_matrix.frame")
