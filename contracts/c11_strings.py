"""C11 bounded part: transform attribute strings (the regular-expression tokeniser is not decided deductively)."""
from __future__ import annotations

import math
import random

from pyvc.registry import ComponentResult, Finding, component

NUMS = ["0", "1", "-2", "+3", "1.5", ".5", "-.25", "2.", "1e1", "1e+1", "2.5E-1", "3.0e+0", "45", "-90", "100", "0.001", "1.5E1", "4E1", "9E+1", "-2.5E-1", "1E0"]
OPS = [("matrix", 6), ("translate", 1), ("translate", 2), ("scale", 1), ("scale", 2), ("rotate", 1), ("rotate", 3), ("skewX", 1), ("skewY", 1)]


def _gen(rnd):
    parts = []
    for _ in range(rnd.randint(1, 5)):
        name, k = rnd.choice(OPS)
        name = rnd.choice([name, name, name.lower(), name.upper()]) if name.startswith("skew") else name
        sep = rnd.choice([",", " ", " , ", "  ", ", "])
        args = []
        for i in range(k):
            n = rnd.choice(NUMS)
            if name.lower() in ("skewx", "skewy") and abs(float(n)) in (90.0,):
                n = "30"
            if name == "scale" and float(n) == 0:
                n = "2"
            args.append(n)
        inner = sep.join(args)
        pad = rnd.choice(["", " "])
        parts.append(f"{name}{rnd.choice(['', ' '])}({pad}{inner}{pad})")
    return rnd.choice([" ", ",", ", ", "", "\t", "\n "]).join(parts)


@component(("C11", "C02", "C06"), "transform.strings", "bounded")
def transform_strings(tier, seed):
    from bounded import refrender
    from picosvg.svg_transform import Affine2D

    res = ComponentResult()
    n = 4000 if tier == "quick" else 80000
    res.bound = f"{n} transform lists from the SVG transform grammar (1-5 operations, every separator the grammar allows, integer/decimal/exponent numbers incl. explicit + signs); {n // 4} random matrices for tostring/fromstring"
    res.rule = "Affine2D.fromstring(s) vs an independent transform parser (bounded/refrender.parse_transform) within 1e-9 relative; fromstring(tostring(A)) == A exactly; distinct = distinct strings"
    rnd = random.Random(seed)
    seen = set()
    for _ in range(n):
        s = _gen(rnd)
        res.evaluations += 1
        seen.add(s)
        want = refrender.parse_transform(s)
        try:
            got = tuple(Affine2D.fromstring(s))
        except Exception as e:  # noqa
            res.findings.append(Finding(key="transform.strings:raises", text=f"{s!r} is a valid transform list but fromstring raises {type(e).__name__}: {e}", replay=dict(string=s), confirmed=True))
            break
        if any(abs(a - b) > 1e-9 * (1 + abs(b)) for a, b in zip(got, want)):
            res.findings.append(Finding(key="transform.strings:wrong-matrix", text=f"{s!r} means {tuple(round(v, 6) for v in want)} but is read as {tuple(round(v, 6) for v in got)}", replay=dict(string=s), confirmed=True))
            break
    res.samples.append(dict(string=s, matrix=list(want)))
    for _ in range(n // 4):
        kind = rnd.random()
        if kind < 0.3:
            A = Affine2D(1, 0, 0, 1, rnd.uniform(-100, 100), rnd.choice([0.0, rnd.uniform(-5, 5)]))
        else:
            A = Affine2D(*[rnd.choice([rnd.uniform(-3, 3), float(rnd.randint(-3, 3)), rnd.uniform(-1e-7, 1e-7), rnd.uniform(-1e6, 1e6)]) for _ in range(6)])
        res.evaluations += 1
        back = Affine2D.fromstring(A.tostring())
        if tuple(back) != tuple(A):
            res.findings.append(Finding(key="transform.strings:round-trip", text=f"{A} serialises as {A.tostring()!r} which parses back as {back}", replay=dict(matrix=list(A)), confirmed=True))
            break
    # matrices with structure: unit diagonal with (equal / opposite / single) off-diagonal terms, pure translations, unit scale with a
    # shear - the shapes a "is this just a translation / a scale?" shortcut in the printer can get wrong
    vals = (0.0, 0.5, -0.5, 1.0, 2.0)
    for b in vals:
        for c in vals:
            for a, d in ((1.0, 1.0), (1.0, 2.0), (-1.0, 1.0), (0.0, 0.0)):
                for e, f in ((0.0, 0.0), (100.0, 20.0), (0.0, -3.5)):
                    A = Affine2D(a, b, c, d, e, f)
                    res.evaluations += 1
                    back = Affine2D.fromstring(A.tostring())
                    if tuple(back) != tuple(A) and not any(x.key == "transform.strings:round-trip" for x in res.findings):
                        res.findings.append(Finding(key="transform.strings:round-trip", text=f"{A} serialises as {A.tostring()!r} which parses back as {back}", replay=dict(matrix=list(A)), confirmed=True))
    res.distinct_nontrivial = len(seen)
    return res
