"""C15 - an SVG object always equals its serialisation, whatever the operation history.

static   typestate obligations over the real AST of class SVG (pyvc/typestate.py, DESIGN appendix B): the induction
         step "every public method preserves A(S)" for histories of ANY length
proved   to_element / from_element round trip, field by field (the step that lets cached shapes stand for tree elements)
bounded  exhaustive histories (length <= 2 quick, <= 3 thorough) over the operation list x in-place/copy x corpus
         against the same history with serialise / re-parse between every two steps (labelled bounded)
"""
from __future__ import annotations

import dataclasses
import os

from picosvg.svg import from_element, to_element
from picosvg.svg_types import SVGCircle, SVGPath, SVGRect

from pyvc.registry import ComponentResult, Finding, component, obligation
from pyvc.sym import And

from . import fake_tree

P = "C15"
SHARDS = 8


def _witness_for(method, rule):
    """search short histories that exercise `method` for a disagreement (native run of the real code)"""
    from bounded import corpus, histories

    ops = {o[0]: o for o in histories._ops()}
    if method not in ops and method != "_clone":
        return None
    edits = [ops[n] for n in ("round_floats", "shapes_to_paths", "normalize_opacity", "absolute") if n in ops]
    targets = [ops[method]] if method in ops else [ops["absolute"], ops["simplify"]]
    for docname, doc in corpus.DOCS.items():
        for t in targets:
            for ip in (True, False):
                cands = [((t, ip),)] + [((e, True), (t, ip)) for e in edits] + [((ops["shapes"], True), (t, ip))]
                for h in cands:
                    r = histories.check_history(doc, h)
                    if r:
                        return dict(doc=docname, history=histories.describe(h), disagreement=r)
    return None


@component(P, "state.typestate", "static")
def typestate_component(tier, seed):
    from pyvc import typestate

    an, public, obl, fails = typestate.analyse_svg_class()
    res = ComponentResult()
    fails = [f for f in fails if f.method != "_update_etree"]  # the flush primitive is checked by shape below
    res.obligations = len(obl)
    res.discharged = len(obl) - len(fails)
    res.functions = ["svg.SVG." + m for m in public]
    res.rule = "one obligation per (public method of SVG, typestate rule, program point); discharged by the dataflow analysis of pyvc/typestate.py on the AST of /repo/src/picosvg/svg.py"
    res.samples = [dict(method=m, rule=r, line=l) for (m, r, l) in obl[:4]]
    seen = set()
    for f in fails:
        if f.method == "_update_etree":
            continue
        key = f"typestate:{f.method}:{f.rule}"
        if key in seen:
            res.discharged += 1  # same root cause reported once
            continue
        seen.add(key)
        w = _witness_for(f.method, f.rule)
        res.findings.append(Finding(key=key, text=f"SVG.{f.method} (svg.py:{f.line}) breaks typestate rule {f.rule}: {f.text}" + (f" - witness: {w['doc']} {w['history']}: {w['disagreement']}" if w else ""),
                                    replay=dict(method=f.method, rule=f.rule, line=f.line, witness=w), confirmed=bool(w)))
    # _update_etree is the flush primitive itself: it is put under contract by running it (state.flush in trace_runs.py)
    return res


def _replay_typestate(payload):
    w = payload.get("witness")
    if not w:
        return False, "no witness history was found for this static obligation"
    return True, f"{w['doc']}: {w['history']} -> {w['disagreement']}"


typestate_component.replay = _replay_typestate


def _history_shard(k):
    def run(tier, seed):
        from bounded import corpus, histories

        res = ComponentResult()
        max_len = 3 if tier == "thorough" else 2
        res.bound = f"all histories of length <= {max_len} over {len(histories._ops())} operations x in-place/copy, {4 if tier == 'thorough' else len(corpus.DOCS)} documents" + (", plus seeded random histories up to length 8" if tier == "thorough" else "")
        res.rule = "history = sequence of (operation, inplace?) on one SVG object; non-trivial = contains at least one mutating step; compared (canonical XML / exception type) with the same history re-parsed between steps"
        distinct = set()
        docs = list(corpus.DOCS.items())
        if tier == "thorough":
            # length-3 histories are 100 000 per document: keep the four documents that exercise every kind of operation
            docs = [(k, v) for k, v in docs if k in ("shapes", "use", "nested", "no_shapes")]
        i = 0
        for h in histories.enumerate_histories(max_len, seed, random_long=400 if tier == "thorough" else 0):
            i += 1
            if i % SHARDS != k:
                continue
            nontrivial = any(q is not True for (n, a, kw, q), ip in h)
            for docname, doc in docs:
                res.evaluations += 1
                if nontrivial:
                    distinct.add((docname, tuple(histories.describe(h))))
                r = histories.check_history(doc, h)
                if r:
                    d = histories.describe(h)
                    # identify by the kind of disagreement (protocol breaches name their own step), else by the last
                    # operation: the same defect shows up in many histories
                    if "returned" in r or "changed the receiver" in r or "own serialisation" in r:
                        key = f"history:protocol:{r.split(';')[0][:80]}"
                    else:
                        key = f"history:{d[-1].split('(')[0]}:{'inplace' if h[-1][1] else 'copy'}:{r[:60]}"
                    if not any(f.key == key for f in res.findings):
                        res.findings.append(Finding(key=key, text=f"{docname}: {d}: {r}", replay=dict(doc=docname, history=d, steps=[(n, list(a), kw, q, ip) for (n, a, kw, q), ip in h]), confirmed=True))
                elif len(res.samples) < 3 and nontrivial and len(h) == max_len:
                    res.samples.append(dict(doc=docname, history=histories.describe(h), verdict="agrees"))
        if k == 0:
            for op in histories._ops():
                for docname, doc in docs:
                    for warm in (False, True):
                        res.evaluations += 1
                        r = histories.check_copy_keeps_receiver(doc, op, warm)
                        if r:
                            key = f"history:receiver:{op[0]}"
                            if not any(f.key == key for f in res.findings):
                                res.findings.append(Finding(key=key, text=f"{docname}: {r}", replay=dict(doc=docname, op=op[0], warm=warm), confirmed=True))
        res.distinct_nontrivial = len(distinct)
        return res

    return run


for _k in range(SHARDS):
    component(P, f"state.histories[{_k}/{SHARDS}]", "bounded")(_history_shard(_k))


# ------------------------------------------------------------------------------------------------ shape <-> element round trip
@obligation((P, "C05", "C01"), "state.element_round_trip", functions=["svg.to_element", "svg.from_element", "svg._attr_name", "svg._field_name"])
def round_trip(H):
    """from_element(to_element(shape, **inherited), **inherited) == shape field by field: an attribute is omitted exactly when
    it equals the inherited value (if one is given) or else the default, and re-reading fills in that same value."""
    fake_tree.install(H)
    kind = H.case("shape", ("path", "rect", "circle"))
    fill = H.case("fill", ("black", "red", "none"))
    inh_fill = H.case("inherited_fill", (None, "black", "red"))
    opacity, sw = H.real("opacity"), H.real("stroke_width")
    common = dict(fill=fill, opacity=opacity, stroke_width=sw, id="s", fill_rule="evenodd")
    if kind == "path":
        shape = H.call(SVGPath, d="M1,2 L3,4", **common)
    elif kind == "rect":
        shape = H.call(SVGRect, x=H.real("x"), y=H.real("y"), width=H.real("w"), height=H.real("h"), **common)
        H.assume(And(shape.width >= 0, shape.height >= 0))
    else:
        shape = H.call(SVGCircle, cx=H.real("x"), cy=H.real("y"), r=H.real("r"), **common)
    inherited = {} if inh_fill is None else {"fill": inh_fill}
    el = H.call(to_element, shape, **inherited)
    has_fill = "fill" in el.attrib
    want_has = (fill != inh_fill) if inh_fill is not None else (fill != "black")
    H.prove(has_fill == want_has, "to_element.omits_exactly_values_equal_to_inherited_else_default")
    back, e = H.catch(from_element, el, **inherited)
    H.prove(e is None, "round_trip.no_exception", detail=repr(e))
    if e is not None:
        return
    H.prove(type(back) is type(shape), "round_trip.same_shape_class")
    parts = []
    for f in dataclasses.fields(shape):
        a, b = getattr(shape, f.name), getattr(back, f.name)
        if kind == "rect" and f.name in ("rx", "ry"):
            continue
        parts.append(H.close(a, b))
    H.prove(And(*parts), "round_trip.every_field_survives")


@obligation((P, "C19", "C03"), "state.shape_constructor_is_idempotent", functions=["svg_types.SVGRect.__post_init__"])
def constructor_idempotent(H):
    """A shape object is what its own serialisation parses back to: building the shape again from its own fields changes nothing
    (a constructor that normalises - SVGRect caps and defaults its corner radii - must reach a fixed point in one step, otherwise the
    cached shape and the re-parsed document differ), and the radii are the ones SVG 1.1 9.2 prescribes."""
    import dataclasses

    from picosvg.svg_types import SVGRect

    from pyvc.sym import smin

    given = H.case("radii_given", ("none", "rx", "ry", "both"))
    w, h = H.real("w"), H.real("h")
    H.assume(And(w > 0, h > 0))
    rx = H.real("rx") if given in ("rx", "both") else 0.0
    ry = H.real("ry") if given in ("ry", "both") else 0.0
    for v in (rx, ry):
        if not isinstance(v, float):
            H.assume(v > 0)
    r1 = H.call(SVGRect, x=1.0, y=2.0, width=w, height=h, rx=rx, ry=ry)
    fields = {f.name: getattr(r1, f.name) for f in dataclasses.fields(r1)}
    r2 = H.call(SVGRect, **fields)
    H.prove(And(H.close(r2.rx, r1.rx), H.close(r2.ry, r1.ry), H.close(r2.width, r1.width), H.close(r2.height, r1.height)), "constructor.rebuilding_the_shape_from_its_own_fields_changes_nothing")
    mn = smin if H.mode == "sym" else min
    want_rx = mn(rx if given in ("rx", "both") else ry, w / 2)
    want_ry = mn(ry if given in ("ry", "both") else rx, h / 2)
    H.prove(And(H.close(r1.rx, want_rx), H.close(r1.ry, want_ry)), "constructor.rect_radii_default_to_each_other_then_are_capped_at_half_the_side")
