"""Path-data semantics written from SVG 1.1 section 8.3 - independent of svg_types.py.

state = (cur, start, rc, rq): current point, subpath start, last cubic / quadratic control point
(None unless the previous command was a curve of that family).  `interp` returns the new
state and the list of absolute segments a command denotes.  Works on floats and Sym terms.
"""
from pyvc.sym import And

ARITY = {"m": 2, "z": 0, "l": 2, "h": 1, "v": 1, "c": 6, "s": 4, "q": 4, "t": 2, "a": 7}
CMDS = tuple("MmZzLlHhVvCcSsQqTtAa")
DRAW_UPPER = tuple("MZLHVCSQTA")


def arity(cmd):
    return ARITY[cmd.lower()]


def _abs(cmd, cur, x, y):
    return (x, y) if cmd.isupper() else (cur[0] + x, cur[1] + y)


def interp(state, cmd, args):
    cur, start, rc, rq = state
    c = cmd.lower()
    if c == "m":
        p = _abs(cmd, cur, args[0], args[1])
        return (p, p, None, None), [("move", p)]
    if c == "z":
        return (start, start, None, None), [("close", cur, start)]
    if c == "l":
        p = _abs(cmd, cur, args[0], args[1])
        return (p, start, None, None), [("line", cur, p)]
    if c == "h":
        x = args[0] if cmd.isupper() else cur[0] + args[0]
        p = (x, cur[1])
        return (p, start, None, None), [("line", cur, p)]
    if c == "v":
        y = args[0] if cmd.isupper() else cur[1] + args[0]
        p = (cur[0], y)
        return (p, start, None, None), [("line", cur, p)]
    if c == "c":
        c1 = _abs(cmd, cur, args[0], args[1])
        c2 = _abs(cmd, cur, args[2], args[3])
        p = _abs(cmd, cur, args[4], args[5])
        return (p, start, c2, None), [("cubic", cur, c1, c2, p)]
    if c == "s":
        c1 = (2 * cur[0] - rc[0], 2 * cur[1] - rc[1]) if rc is not None else cur
        c2 = _abs(cmd, cur, args[0], args[1])
        p = _abs(cmd, cur, args[2], args[3])
        return (p, start, c2, None), [("cubic", cur, c1, c2, p)]
    if c == "q":
        c1 = _abs(cmd, cur, args[0], args[1])
        p = _abs(cmd, cur, args[2], args[3])
        return (p, start, None, c1), [("quad", cur, c1, p)]
    if c == "t":
        c1 = (2 * cur[0] - rq[0], 2 * cur[1] - rq[1]) if rq is not None else cur
        p = _abs(cmd, cur, args[0], args[1])
        return (p, start, None, c1), [("quad", cur, c1, p)]
    if c == "a":
        p = _abs(cmd, cur, args[5], args[6])
        return (p, start, None, None), [("arc", cur, args[0], args[1], args[2], args[3], args[4], p)]
    raise ValueError(cmd)


def interp_seq(state, cmds):
    segs = []
    for cmd, args in cmds:
        state, s = interp(state, cmd, args)
        segs.extend(s)
    return state, segs


def _flat(v):
    if isinstance(v, (tuple, list)):
        for x in v:
            yield from _flat(x)
    else:
        yield v


def segs_equal(H, s1, s2):
    """Same kinds in the same order and equal coordinates (exact on reals)."""
    if len(s1) != len(s2):
        return False
    parts = []
    for a, b in zip(s1, s2):
        if a[0] != b[0] or len(a) != len(b):
            return False
        fa, fb = list(_flat(a[1:])), list(_flat(b[1:]))
        if len(fa) != len(fb):
            return False
        parts.append(H.close(tuple(fa), tuple(fb)))
    return And(*parts) if parts else True


def state_equal(H, st1, st2):
    (c1, s1, rc1, rq1), (c2, s2, rc2, rq2) = st1, st2
    parts = [H.close(tuple(c1), tuple(c2)), H.close(tuple(s1), tuple(s2))]
    for r1, r2 in ((rc1, rc2), (rq1, rq2)):
        if (r1 is None) != (r2 is None):
            return False
        if r1 is not None:
            parts.append(H.close(tuple(r1), tuple(r2)))
    return And(*parts)


def pen_equal(H, st1, st2):
    return And(H.close(tuple(st1[0]), tuple(st2[0])), H.close(tuple(st1[1]), tuple(st2[1])))


def shift_seg(seg, dx, dy):
    def sh(p):
        return (p[0] + dx, p[1] + dy)

    k = seg[0]
    if k == "arc":
        return ("arc", sh(seg[1])) + tuple(seg[2:7]) + (sh(seg[7]),)
    return (k,) + tuple(sh(p) for p in seg[1:])


def segs_close(H, s1, s2, tol):
    """Same kinds in the same order, coordinates within tol (used where the code is allowed to snap by 1e-9)."""
    if len(s1) != len(s2):
        return False
    parts = []
    for a, b in zip(s1, s2):
        if a[0] != b[0] or len(a) != len(b):
            return False
        fa, fb = list(_flat(a[1:])), list(_flat(b[1:]))
        if len(fa) != len(fb):
            return False
        for x, y in zip(fa, fb):
            parts.append(abs(x - y) <= tol)
    return And(*parts) if parts else True
