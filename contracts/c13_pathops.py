"""C13 - boolean path operations compute the set operation under each operand's fill rule.

The set-theoretic claim itself is Skia's (assumed contract, DESIGN 3.5).  What is proved here, for the
real glue code of svg_pathops.py / svg_types.py over the abstract Region algebra of fake_pathops:
operand i is built from exactly its own commands under its own rule, operands are folded left to right,
the result is simplified with fix_winding (fill-rule invariant), and an engine failure propagates.
Operand counts 1..4 are unrolled exactly - that is the property's own quantifier.
"""
from __future__ import annotations

import pathops
from picosvg import svg_pathops, svg_types
from picosvg.svg_types import SVGPath

from pyvc.registry import obligation
from pyvc.sym import And

from . import fake_pathops

P = "C13"
S = "svg_pathops."
RULES = ("nonzero", "evenodd")
FT = {"nonzero": pathops.FillType.WINDING, "evenodd": pathops.FillType.EVEN_ODD}
OPS = {"union": pathops.PathOp.UNION, "intersection": pathops.PathOp.INTERSECTION, "difference": pathops.PathOp.DIFFERENCE}


def _cmds(H, tag):
    """a small absolute command sequence with symbolic coordinates, one of each kind Skia accepts"""
    r = lambda n: tuple(H.real(f"{tag}{n}_{i}") for i in range({"M": 2, "L": 2, "Q": 4, "C": 6, "Z": 0}[n[0]]))
    return (("M", r("M")), ("L", r("L")), ("Q", r("Q")), ("C", r("C")), ("Z", ()))


def _geom(cmds, rule):
    names = {"M": "moveTo", "L": "lineTo", "Q": "quadTo", "C": "cubicTo", "Z": "close"}
    return ("geom", tuple((names[c], tuple(a)) for c, a in cmds), FT[rule])


def _terms_equal(H, a, b):
    """structural equality of region terms (tuples of names / enums / numbers)"""
    if isinstance(a, tuple) and isinstance(b, tuple):
        if len(a) != len(b):
            return False
        parts = [_terms_equal(H, x, y) for x, y in zip(a, b)]
        if any(p is False for p in parts):
            return False
        return And(*[p for p in parts if p is not True]) if any(p is not True for p in parts) else True
    if isinstance(a, (int, float)) or hasattr(a, "z") or isinstance(b, (int, float)) or hasattr(b, "z"):
        if isinstance(a, (str, tuple)) or isinstance(b, (str, tuple)):
            return False
        return H.close(a, b)
    return a == b


@obligation((P, "C03"), "pathops.skia_path", functions=[S + "skia_path"])
def skia_path(H):
    """skia_path replays the commands in order onto a path of the fill type named by the rule; unknown rule or command -> ValueError."""
    with fake_pathops.installed(H) as world:
        rule = H.case("rule", RULES + ("bogus",))
        cmds = _cmds(H, "a")
        bad = H.case("commands", ("ok", "has_arc", "has_lowercase"))
        if bad == "has_arc":
            cmds = cmds[:2] + (("A", tuple(H.reals("arc", 7))),) + cmds[2:]
        elif bad == "has_lowercase":
            cmds = cmds[:1] + (("l", tuple(H.reals("rel", 2))),) + cmds[1:]
        p, e = H.catch(svg_pathops.skia_path, cmds, rule)
        if rule == "bogus" or bad != "ok":
            H.prove(isinstance(e, ValueError), "skia_path.rejects_unknown_rule_or_command_with_ValueError")
            return
        H.prove(e is None, "skia_path.no_exception")
        if e is None:
            H.prove(_terms_equal(H, p.region(), _geom(cmds, rule)), "skia_path.same_commands_same_order_named_fill_type")


@obligation((P, "C03", "C19"), "pathops.do_pathop", split=("n", (1, 2, 3, 4)), functions=[S + "_do_pathop", S + "union", S + "intersection", S + "difference", S + "svg_commands", S + "_skia_pts_to_svg"])
def do_pathop(H):
    """region(result) = fold_left(op, geom(s0, r0), geom(si, ri)); the result is simplified with fix_winding; the
    commands returned are those of the result path; a failing engine raises."""
    with fake_pathops.installed(H) as world:
        n = H.case("n", (1, 2, 3, 4))
        opname = H.case("op", tuple(OPS))
        rules = tuple(H.case(f"rule{i}", RULES) for i in range(n))
        fail = H.case("engine", ("works", "op fails", "simplify fails"))
        if fail == "op fails" and n == 1:
            fail = "works"
        if fail != "works":
            world.fail.add(fail.split()[0])
        # an intermediate result may legitimately be the empty region (e.g. union of two area-less operands):
        # the remaining operands must still be folded in
        world.computed_paths_are_empty = H.case("intermediate_results", ("non-empty", "empty")) == "empty"
        seqs = [_cmds(H, f"s{i}") for i in range(n)]
        out_pts = tuple(H.reals("out", 4))
        world.result_segments = [(pathops.PathVerb.MOVE, ((out_pts[0], out_pts[1]),)), (pathops.PathVerb.LINE, ((out_pts[2], out_pts[3]),)), (pathops.PathVerb.CLOSE, ())]
        fn = getattr(svg_pathops, opname)
        res, e = H.catch(lambda *a: list(fn(*a)), seqs, list(rules)) if H.mode == "concrete" else H.catch(fn, seqs, list(rules))
        if fail != "works":
            H.prove(isinstance(e, pathops.PathOpsError), "do_pathop.engine_failure_is_raised_not_swallowed")
            return
        H.prove(e is None, "do_pathop.no_exception")
        if e is not None:
            return
        res = list(res)
        want = _geom(seqs[0], rules[0])
        acceptable = []
        for i in range(1, n):
            want = ("op", OPS[opname], want, _geom(seqs[i], rules[i]), True)
            if world.computed_paths_are_empty and opname != "union" and i < n - 1:
                # empty INTERSECT x = empty \ x = empty: stopping early at an empty intermediate result is also correct
                acceptable += [want, ("simplified", want, True)]
        want = ("simplified", want, True)
        it = [ev for ev in world.events if ev[0] == "iterate"]
        ok = len(it) == 1
        H.prove(ok, "do_pathop.returns_commands_of_one_path")
        if not ok:
            return
        final = it[0][1]
        got = final.region()
        verdicts = [_terms_equal(H, got, w) for w in [want] + acceptable]
        verdicts = [v for v in verdicts if v is not False]
        from pyvc.sym import Or

        H.prove(Or(*verdicts) if verdicts else False, "do_pathop.left_fold_each_operand_under_its_own_rule_then_simplified")
        H.prove("winding_invariant" in final.flags, "do_pathop.result_is_fill_rule_invariant")
        H.prove(len(res) == 3 and [c for c, _ in res] == ["M", "L", "Z"] and H.close((tuple(res[0][1]), tuple(res[1][1])), (out_pts[:2], out_pts[2:])),
                "do_pathop.result_commands_are_the_engine_output_in_order")


@obligation(P, "pathops.empty_and_mismatch", functions=[S + "_do_pathop"])
def empty_and_mismatch(H):
    """no operands: nothing is computed (callers treat it as an error, not a path); operand/rule count mismatch: AssertionError."""
    with fake_pathops.installed(H) as world:
        which = H.case("which", ("empty", "mismatch"))
        if which == "empty":
            res, e = H.catch(svg_pathops.union, [], [])
            H.prove(e is None and res is None and not world.paths, "do_pathop.no_operands_builds_no_path")
        else:
            res, e = H.catch(svg_pathops.union, [_cmds(H, "a"), _cmds(H, "b")], ["nonzero"])
            H.prove(isinstance(e, AssertionError), "do_pathop.count_mismatch_is_rejected")


@obligation((P, "C01"), "pathops.remove_overlaps", functions=[S + "remove_overlaps", "svg_types.SVGPath.remove_overlaps"])
def remove_overlaps(H):
    """remove_overlaps simplifies the path under the shape's own fill rule and marks the result nonzero; failure propagates."""
    from pyvc import pathdata

    pathdata.install(H)
    with fake_pathops.installed(H) as world:
        rule = H.case("rule", RULES)
        fail = H.case("engine", ("works", "simplify fails"))
        if fail != "works":
            world.fail.add("simplify")
        x = H.reals("p", 6)
        world.result_segments = [(pathops.PathVerb.MOVE, ((x[0], x[1]),)), (pathops.PathVerb.LINE, ((x[2], x[3]),)), (pathops.PathVerb.LINE, ((x[4], x[5]),)), (pathops.PathVerb.CLOSE, ())]
        if H.mode == "sym":
            shape = H.call(SVGPath, d=pathdata.PathData((("M", (x[0], x[1])), ("L", (x[2], x[3])), ("L", (x[4], x[5])), ("Z", ()))), fill_rule=rule, clip_rule="evenodd")
        else:
            shape = SVGPath(d=f"M{x[0]},{x[1]} L{x[2]},{x[3]} L{x[4]},{x[5]} Z", fill_rule=rule, clip_rule="evenodd")
        res, e = H.catch(SVGPath.remove_overlaps, shape, inplace=True)
        if fail != "works":
            H.prove(isinstance(e, pathops.PathOpsError), "remove_overlaps.engine_failure_is_raised_not_swallowed")
            return
        H.prove(e is None, "remove_overlaps.no_exception", detail=repr(e))
        if e is not None:
            return
        simp = [ev for ev in world.events if ev[0] == "simplify"]
        ok = len(simp) == 1 and simp[0][2] is True
        H.prove(ok, "remove_overlaps.simplifies_once_with_fix_winding")
        if ok:
            src = simp[0][1]
            H.prove(src.region()[1][0] == "geom" and src.region()[1][2] == FT[rule], "remove_overlaps.input_interpreted_under_own_fill_rule")
        H.prove(res is shape and shape.fill_rule == "nonzero" and shape.clip_rule == "nonzero", "remove_overlaps.result_marked_nonzero")
