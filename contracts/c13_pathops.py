"""C13 - boolean path operations compute the set operation under each operand's fill rule.

The set-theoretic claim itself is Skia's (assumed contract, DESIGN 3.5).  What is proved here, for the
real glue code of svg_pathops.py / svg_types.py over the abstract Region algebra of fake_pathops:
operand i is built from exactly its own commands under its own rule, operands are folded left to right,
the result is simplified with fix_winding (fill-rule invariant), and an engine failure propagates.
Operand counts 1..4 are unrolled exactly - that is the property's own quantifier.
"""
from __future__ import annotations

import pathops
from picosvg import svg_pathops, svg_types
from picosvg.svg_types import SVGPath

from pyvc.registry import obligation
from pyvc.sym import And

from . import fake_pathops

P = "C13"
S = "svg_pathops."
RULES = ("nonzero", "evenodd")
FT = {"nonzero": pathops.FillType.WINDING, "evenodd": pathops.FillType.EVEN_ODD}
OPS = {"union": pathops.PathOp.UNION, "intersection": pathops.PathOp.INTERSECTION, "difference": pathops.PathOp.DIFFERENCE}


def _cmds(H, tag):
    """a small absolute command sequence with symbolic coordinates, one of each kind Skia accepts"""
    r = lambda n: tuple(H.real(f"{tag}{n}_{i}") for i in range({"M": 2, "L": 2, "Q": 4, "C": 6, "Z": 0}[n[0]]))
    return (("M", r("M")), ("L", r("L")), ("Q", r("Q")), ("C", r("C")), ("Z", ()))


def _geom(cmds, rule):
    names = {"M": "moveTo", "L": "lineTo", "Q": "quadTo", "C": "cubicTo", "Z": "close"}
    return ("geom", tuple((names[c], tuple(a)) for c, a in cmds), FT[rule])


def _terms_equal(H, a, b):
    """structural equality of region terms (tuples of names / enums / numbers)"""
    if isinstance(a, tuple) and isinstance(b, tuple):
        if len(a) != len(b):
            return False
        parts = [_terms_equal(H, x, y) for x, y in zip(a, b)]
        if any(p is False for p in parts):
            return False
        return And(*[p for p in parts if p is not True]) if any(p is not True for p in parts) else True
    if isinstance(a, (int, float)) or hasattr(a, "z") or isinstance(b, (int, float)) or hasattr(b, "z"):
        if isinstance(a, (str, tuple)) or isinstance(b, (str, tuple)):
            return False
        return H.close(a, b)
    return a == b


@obligation((P, "C03"), "pathops.skia_path", functions=[S + "skia_path"])
def skia_path(H):
    """skia_path replays the commands in order onto a path of the fill type named by the rule; unknown rule or command -> ValueError."""
    with fake_pathops.installed(H) as world:
        rule = H.case("rule", RULES + ("bogus",))
        cmds = _cmds(H, "a")
        bad = H.case("commands", ("ok", "has_arc", "has_lowercase"))
        if bad == "has_arc":
            cmds = cmds[:2] + (("A", tuple(H.reals("arc", 7))),) + cmds[2:]
        elif bad == "has_lowercase":
            cmds = cmds[:1] + (("l", tuple(H.reals("rel", 2))),) + cmds[1:]
        p, e = H.catch(svg_pathops.skia_path, cmds, rule)
        if rule == "bogus" or bad != "ok":
            H.prove(isinstance(e, ValueError), "skia_path.rejects_unknown_rule_or_command_with_ValueError")
            return
        H.prove(e is None, "skia_path.no_exception")
        if e is None:
            H.prove(_terms_equal(H, p.region(), _geom(cmds, rule)), "skia_path.same_commands_same_order_named_fill_type")


@obligation((P, "C03", "C19"), "pathops.do_pathop", split=("n", (1, 2, 3, 4)), functions=[S + "_do_pathop", S + "union", S + "intersection", S + "difference", S + "svg_commands", S + "_skia_pts_to_svg"])
def do_pathop(H):
    """region(result) = fold_left(op, geom(s0, r0), geom(si, ri)); the result is simplified with fix_winding; the
    commands returned are those of the result path; a failing engine raises."""
    with fake_pathops.installed(H) as world:
        n = H.case("n", (1, 2, 3, 4))
        opname = H.case("op", tuple(OPS))
        rules = tuple(H.case(f"rule{i}", RULES) for i in range(n))
        fail = H.case("engine", ("works", "op fails", "simplify fails"))
        if fail == "op fails" and n == 1:
            fail = "works"
        if fail != "works":
            world.fail.add(fail.split()[0])
        # an intermediate result may legitimately be the empty region (e.g. union of two area-less operands):
        # the remaining operands must still be folded in
        world.computed_paths_are_empty = H.case("intermediate_results", ("non-empty", "empty")) == "empty"
        seqs = [_cmds(H, f"s{i}") for i in range(n)]
        out_pts = tuple(H.reals("out", 4))
        world.result_segments = [(pathops.PathVerb.MOVE, ((out_pts[0], out_pts[1]),)), (pathops.PathVerb.LINE, ((out_pts[2], out_pts[3]),)), (pathops.PathVerb.CLOSE, ())]
        fn = getattr(svg_pathops, opname)
        res, e = H.catch(lambda *a: list(fn(*a)), seqs, list(rules)) if H.mode == "concrete" else H.catch(fn, seqs, list(rules))
        if fail != "works":
            H.prove(isinstance(e, pathops.PathOpsError), "do_pathop.engine_failure_is_raised_not_swallowed")
            return
        H.prove(e is None, "do_pathop.no_exception")
        if e is not None:
            return
        res = list(res)
        want = _geom(seqs[0], rules[0])
        acceptable = []
        for i in range(1, n):
            want = ("op", OPS[opname], want, _geom(seqs[i], rules[i]), True)
            if world.computed_paths_are_empty and opname != "union" and i < n - 1:
                # empty INTERSECT x = empty \ x = empty: stopping early at an empty intermediate result is also correct
                acceptable += [want, ("simplified", want, True)]
        want = ("simplified", want, True)
        it = [ev for ev in world.events if ev[0] == "iterate"]
        ok = len(it) == 1
        H.prove(ok, "do_pathop.returns_commands_of_one_path")
        if not ok:
            return
        final = it[0][1]
        got = final.region()
        verdicts = [_terms_equal(H, got, w) for w in [want] + acceptable]
        verdicts = [v for v in verdicts if v is not False]
        from pyvc.sym import Or

        H.prove(Or(*verdicts) if verdicts else False, "do_pathop.left_fold_each_operand_under_its_own_rule_then_simplified")
        H.prove("winding_invariant" in final.flags, "do_pathop.result_is_fill_rule_invariant")
        H.prove(len(res) == 3 and [c for c, _ in res] == ["M", "L", "Z"] and H.close((tuple(res[0][1]), tuple(res[1][1])), (out_pts[:2], out_pts[2:])),
                "do_pathop.result_commands_are_the_engine_output_in_order")


@obligation(P, "pathops.empty_and_mismatch", functions=[S + "_do_pathop"])
def empty_and_mismatch(H):
    """no operands: nothing is computed (callers treat it as an error, not a path); operand/rule count mismatch: AssertionError."""
    with fake_pathops.installed(H) as world:
        which = H.case("which", ("empty", "mismatch"))
        if which == "empty":
            res, e = H.catch(svg_pathops.union, [], [])
            H.prove(e is None and res is None and not world.paths, "do_pathop.no_operands_builds_no_path")
        else:
            res, e = H.catch(svg_pathops.union, [_cmds(H, "a"), _cmds(H, "b")], ["nonzero"])
            H.prove(isinstance(e, AssertionError), "do_pathop.count_mismatch_is_rejected")


@obligation((P, "C01"), "pathops.remove_overlaps", functions=[S + "remove_overlaps", "svg_types.SVGPath.remove_overlaps"])
def remove_overlaps(H):
    """remove_overlaps simplifies the path under the shape's own fill rule and marks the result nonzero; failure propagates."""
    from pyvc import pathdata

    pathdata.install(H)
    with fake_pathops.installed(H) as world:
        rule = H.case("rule", RULES)
        fail = H.case("engine", ("works", "simplify fails"))
        if fail != "works":
            world.fail.add("simplify")
        x = H.reals("p", 6)
        world.result_segments = [(pathops.PathVerb.MOVE, ((x[0], x[1]),)), (pathops.PathVerb.LINE, ((x[2], x[3]),)), (pathops.PathVerb.LINE, ((x[4], x[5]),)), (pathops.PathVerb.CLOSE, ())]
        if H.mode == "sym":
            shape = H.call(SVGPath, d=pathdata.PathData((("M", (x[0], x[1])), ("L", (x[2], x[3])), ("L", (x[4], x[5])), ("Z", ()))), fill_rule=rule, clip_rule="evenodd")
        else:
            shape = SVGPath(d=f"M{x[0]},{x[1]} L{x[2]},{x[3]} L{x[4]},{x[5]} Z", fill_rule=rule, clip_rule="evenodd")
        res, e = H.catch(SVGPath.remove_overlaps, shape, inplace=True)
        if fail != "works":
            H.prove(isinstance(e, pathops.PathOpsError), "remove_overlaps.engine_failure_is_raised_not_swallowed")
            return
        H.prove(e is None, "remove_overlaps.no_exception", detail=repr(e))
        if e is not None:
            return
        simp = [ev for ev in world.events if ev[0] == "simplify"]
        ok = len(simp) == 1 and simp[0][2] is True
        H.prove(ok, "remove_overlaps.simplifies_once_with_fix_winding")
        if ok:
            src = simp[0][1]
            H.prove(src.region()[1][0] == "geom" and src.region()[1][2] == FT[rule], "remove_overlaps.input_interpreted_under_own_fill_rule")
        H.prove(res is shape and shape.fill_rule == "nonzero" and shape.clip_rule == "nonzero", "remove_overlaps.result_marked_nonzero")


@obligation(("C18", P), "pathops.path_area", functions=[S + "path_area"])
def path_area(H):
    """path_area measures the region of the path under the given rule: the path is simplified (fix_winding) before
    its area is read, whatever its shape (a raw signed area would cancel for self-intersecting contours)."""
    with fake_pathops.installed(H) as world:
        rule = H.case("rule", RULES)
        fail = H.case("engine", ("works", "simplify fails"))
        if fail != "works":
            world.fail.add("simplify")
        world.area = H.real("area")
        cmds = _cmds(H, "a")
        res, e = H.catch(svg_pathops.path_area, cmds, rule)
        if fail != "works":
            H.prove(isinstance(e, pathops.PathOpsError), "path_area.engine_failure_is_raised")
            return
        H.prove(e is None, "path_area.no_exception", detail=repr(e))
        if e is not None:
            return
        ev = [x for x in world.events if x[0] == "area"]
        ok = len(ev) == 1
        H.prove(ok, "path_area.reads_area_once")
        if ok:
            H.prove(_terms_equal(H, ev[0][1].region(), ("simplified", _geom(cmds, rule), True)), "path_area.measures_simplified_region_under_given_rule")
            # the verdict must not depend on anything but that area
            H.prove(H.close(res, world.area), "path_area.returns_the_measured_area")


@obligation(("C19", "C06"), "pathops.bounding_box", functions=[S + "bounding_box", "svg_types.SVGShape.bounding_box"])
def bounding_box(H):
    """bounding_box asks the engine for the tight bounds of exactly these commands (never the control-point hull) and
    SVGShape.bounding_box turns (left, top, right, bottom) into Rect(x, y, w, h)."""
    from pyvc import pathdata

    pathdata.install(H)
    with fake_pathops.installed(H) as world:
        l, t, r, b = H.reals("b", 4)
        world.bounds = (l, t, r, b)
        kind = H.case("segments", ("lines", "quads", "cubics", "mixed"))
        x = H.reals("p", 8)
        cmds = {"lines": (("M", x[0:2]), ("L", x[2:4]), ("Z", ())), "quads": (("M", x[0:2]), ("Q", x[2:6]), ("Z", ())),
                "cubics": (("M", x[0:2]), ("C", x[2:8]), ("Z", ())), "mixed": (("M", x[0:2]), ("L", x[2:4]), ("Q", x[4:8]), ("Z", ()))}[kind]
        res, e = H.catch(svg_pathops.bounding_box, cmds)
        H.prove(e is None, "bounding_box.no_exception", detail=repr(e))
        if e is not None:
            return
        ev = [z for z in world.events if z[0] in ("bounds", "controlPointBounds")]
        H.prove(len(ev) == 1 and ev[0][0] == "bounds", "bounding_box.uses_tight_bounds_not_control_point_hull")
        if ev:
            H.prove(_terms_equal(H, ev[0][1].region()[:2], _geom(cmds, "nonzero")[:2]), "bounding_box.of_exactly_these_commands")
        H.prove(H.close(tuple(res), (l, t, r, b)), "bounding_box.returns_engine_bounds")
        if H.mode == "sym":
            shape = H.call(SVGPath, d=pathdata.PathData(tuple((c, tuple(a)) for c, a in cmds)))
        else:
            shape = SVGPath(d=" ".join(c + ",".join(repr(float(v)) for v in a) for c, a in cmds))
        rect = H.call(svg_types.SVGShape.bounding_box, shape)
        H.prove(H.close(tuple(rect), (l, t, r - l, b - t)), "shape.bounding_box_is_x_y_width_height")


@obligation(("C02", "C09"), "pathops.transform", functions=[S + "transform", "svg_types.SVGShape.apply_transform"])
def transform(H):
    """transform() hands the engine exactly the six matrix entries in order and returns its output; apply_transform maps a
    degenerate matrix to the single point M0,0 and otherwise transforms the shape's command sequence."""
    from picosvg.svg_transform import Affine2D

    from pyvc import pathdata

    pathdata.install(H)
    with fake_pathops.installed(H) as world:
        M = Affine2D(*H.reals("m", 6))
        cmds = _cmds(H, "a")
        o = H.reals("o", 4)
        world.result_segments = [(pathops.PathVerb.MOVE, ((o[0], o[1]),)), (pathops.PathVerb.LINE, ((o[2], o[3]),))]
        res, e = H.catch(lambda *a: list(svg_pathops.transform(*a)), cmds, M) if H.mode == "concrete" else H.catch(svg_pathops.transform, cmds, M)
        H.prove(e is None, "transform.no_exception", detail=repr(e))
        if e is not None:
            return
        res = list(res)
        ev = [z for z in world.events if z[0] == "transform"]
        ok = len(ev) == 1
        H.prove(ok, "transform.one_engine_call")
        if ok:
            H.prove(_terms_equal(H, ev[0][1].region()[:2], _geom(cmds, "nonzero")[:2]) , "transform.of_exactly_these_commands")
            H.prove(len(ev[0][2]) == 6 and H.close(tuple(ev[0][2]), tuple(M)), "transform.matrix_entries_a_b_c_d_e_f_in_order")
        H.prove(len(res) == 2 and res[0][0] == "M" and res[1][0] == "L" and H.close((tuple(res[0][1]), tuple(res[1][1])), (o[:2], o[2:])), "transform.returns_engine_output")
