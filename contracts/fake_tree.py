"""A minimal element stand-in for the attribute-map code of svg.py (assumed contract of lxml, DESIGN 3.6):
`attrib` behaves as an insertion-ordered str->str dict, children are an ordered list with parent pointers.
Values in `attrib` may be symbolic strings; keys and the tree shape are concrete (case-split by the harness)."""
from __future__ import annotations

SVGNS = "{http://www.w3.org/2000/svg}"


class FakeElement:
    __pyvc_abstract__ = True

    def __init__(self, tag, attrib=None, children=(), nsmap=None, **extra):
        self.tag = tag
        self.attrib = dict(attrib or {})
        self.attrib.update(extra)
        self._children = []
        self._parent = None
        self.nsmap = nsmap or {None: "http://www.w3.org/2000/svg"}
        for c in children:
            self.append(c)

    # children ------------------------------------------------------------------
    def __iter__(self):
        return iter(list(self._children))

    def __pyvc_iter__(self, interp):
        return iter(list(self._children))

    def __len__(self):
        return len(self._children)

    def __pyvc_len__(self, interp):
        return len(self._children)

    def __pyvc_truth__(self, interp):
        return True

    def __pyvc_getitem__(self, interp, idx):
        return self._children[idx]

    def getparent(self):
        return self._parent

    def index(self, child):
        for i, c in enumerate(self._children):
            if c is child:
                return i
        raise ValueError("Element is not a child of this node.")

    def remove(self, child):
        del self._children[self.index(child)]
        child._parent = None

    def insert(self, i, child):
        # lxml: the child goes in front of the node that is at index i NOW (before the child is unlinked from where it is)
        n = len(self._children)
        if i < 0:
            i = max(0, n + i)
        ref = self._children[i] if i < n else None
        if ref is child:
            return
        if child._parent is not None:
            child._parent.remove(child)
        if ref is None:
            self._children.append(child)
        else:
            self._children.insert(self.index(ref), child)
        child._parent = self

    def append(self, child):
        if child._parent is not None:
            child._parent.remove(child)
        self._children.append(child)
        child._parent = self

    def extend(self, children):
        for c in list(children):
            self.append(c)

    def addnext(self, new):
        """insert `new` as the following sibling (moving it if it is already in the tree)"""
        if new._parent is not None:
            new._parent.remove(new)
        self._parent.insert(self._parent.index(self) + 1, new)

    def addprevious(self, new):
        if new._parent is not None:
            new._parent.remove(new)
        self._parent.insert(self._parent.index(self), new)

    def getnext(self):
        sibs = self._parent._children if self._parent is not None else []
        i = next((k for k, c in enumerate(sibs) if c is self), None)
        return sibs[i + 1] if i is not None and i + 1 < len(sibs) else None

    def replace(self, old, new):
        i = self.index(old)
        self.remove(old)
        self.insert(i, new)

    def iterdescendants(self):
        for c in self._children:
            yield c
            yield from c.iterdescendants()

    def getiterator(self, tag=None):
        """self and all descendants, document order (lxml's deprecated alias of iter())"""
        return [e for e in [self] + list(self.iterdescendants()) if isinstance(e.tag, str)]

    iter = getiterator

    def __pyvc_copy__(self):
        new = FakeElement(self.tag, dict(self.attrib), nsmap=self.nsmap)
        for c in self._children:
            new.append(c.__pyvc_copy__())
        return new

    def __repr__(self):
        return f"<Fake {self.tag.split('}')[-1] if isinstance(self.tag, str) else 'comment'} {self.attrib}>"


def install(H):
    """etree.Element creates FakeElements while interpreting; ntos/float go through the string<->number bridge."""
    if H.mode != "sym":
        return
    from lxml import etree
    from picosvg import svg_meta

    from pyvc.sym import SStr, is_sym

    H.override(etree.Element, lambda I, tag, attrib=None, nsmap=None, **extra: FakeElement(tag, attrib, nsmap=nsmap, **extra))
    H.override(etree.QName, lambda I, x, *a: etree.QName(x.tag if isinstance(x, FakeElement) else x, *a))
    real_ntos = svg_meta.ntos
    H.override(svg_meta.ntos, lambda I, n: H.ctx.real_to_str(n) if is_sym(n) else real_ntos(n))
    H.interp.models[("symattr", SStr, "strip")] = lambda s, *a: s
    H.ctx.notes.append("symbolic attribute values carry no surrounding whitespace; lxml _Attrib/children modelled by dict/list (DESIGN 3.6)")


def element(H, tag, attrib=None, children=()):
    """FakeElement while proving, a real lxml element (string values) during native replay"""
    if H.mode == "sym":
        return FakeElement(SVGNS + tag, attrib, children)
    from lxml import etree

    el = etree.Element(SVGNS + tag)
    for k, v in (attrib or {}).items():
        el.attrib[k] = v
    for c in children:
        el.append(c)
    return el


def comment(H):
    from lxml import etree

    if H.mode == "sym":
        return FakeElement(etree.Comment)
    return etree.Comment("noise")


def numstr(H, name):
    """a number as it appears in an attribute: -> (attribute value, numeric value)"""
    x = H.real(name)
    if H.mode == "sym":
        return H.ctx.real_to_str(x), x
    from picosvg.svg_meta import ntos

    return ntos(float(x)), float(x)


def num_of(H, v):
    """numeric value of an attribute value (float(v))"""
    if H.mode == "sym":
        from pyvc.sym import SStr

        return H.ctx.str_to_real(v) if isinstance(v, SStr) else float(v)
    return float(v)


def local(el):
    return el.tag.split("}")[-1] if isinstance(el.tag, str) else None


def install_xpath(H, svg_cls):
    """SVG.xpath / xpath_one / resolve_url answered on the fake tree for the handful of queries the code under contract
    uses (assumed contract of lxml's XPath, DESIGN 3.6)."""
    import re

    def xpath(I, self, query, el=None, expected_result_range=None):
        base = el if el is not None else self.svg_root
        everything = [self.svg_root] + list(self.svg_root.iterdescendants())
        desc = list(base.iterdescendants())
        if query == "descendant-or-self::svg:use":
            out = [e for e in [base] + desc if local(e) == "use"]
        else:
            # unions of  [.]//svg:<name|*>[ [@id] | [@id="x"] ]   (document order within each part, parts concatenated:
            # lxml returns unions in document order too, callers here only iterate or test emptiness)
            out = []
            for part in (q.strip() for q in query.split("|")):
                m = re.fullmatch(r'(\.)?//svg:(\*|\w+)(?:\[@id(?:="([^"]+)")?\])?', part)
                if not m:
                    raise AssertionError(f"fake tree: unsupported xpath {query!r}")
                scope = desc if m.group(1) else everything
                has_pred = part.endswith("]")
                for e in scope:
                    if not isinstance(e.tag, str) or not (m.group(2) == "*" or local(e) == m.group(2)):
                        continue
                    if has_pred and (("id" not in e.attrib) if m.group(3) is None else e.attrib.get("id") != m.group(3)):
                        continue
                    if not any(e is x for x in out):
                        out.append(e)
            if "|" in query:
                out.sort(key=lambda e: next(i for i, x in enumerate(everything) if x is e))
        if expected_result_range and len(out) not in expected_result_range:
            raise ValueError(f"Expected {query} matches in {expected_result_range}, {len(out)} results")
        return out

    if H.mode == "sym":
        H.override(svg_cls.xpath, xpath)
