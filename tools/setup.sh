#!/bin/sh
# Build /verif/.venv offline: python 3.12 (same as /venv) + solvers + contract libs,
# with /venv's site-packages (lxml, pathops, absl, picosvg editable -> /repo/src) visible.
set -e
cd "$(dirname "$0")/.."
if [ -x .venv/bin/python ] && .venv/bin/python -c "import z3, cvc5, jsonschema, lxml, pathops, picosvg" 2>/dev/null; then
  echo "venv ok"; exit 0
fi
rm -rf .venv
/venv/bin/python -m venv .venv
PIP_NO_INDEX=1 .venv/bin/pip install -q --no-index --find-links /opt/veriftools/wheels z3-solver cvc5 icontract deal crosshair-tool jsonschema
echo "import site; site.addsitedir('/venv/lib/python3.12/site-packages')" > .venv/lib/python3.12/site-packages/_repo_deps.pth
.venv/bin/python -c "import z3, cvc5, jsonschema, lxml, pathops, picosvg; print('venv built', z3.get_version_string(), picosvg.__file__)"
