#!/bin/sh
# try_seed.sh <seeded-dir-name> [prop ...]: apply a seeded patch to /repo, run the checks, undo it straight afterwards
d=/verif/seeded/$1; shift
props="$@"; [ -n "$props" ] || props=$(python3 -c "import json;print(json.load(open('$d/meta.json'))['property'])")
git -C /repo apply $d/patch.diff || exit 9
for p in $props; do
  /verif/check $p 2>&1 | grep -v conda | grep -E "^(VIOLATION|KNOWN|UNDECIDED|CHECKER|C[0-9]+ tier)" | cut -c1-220 | sort | uniq -c | sort -rn | head -${HEADN:-6}
done
git -C /repo checkout -- . 
git -C /repo status --short | head -3
