#!/usr/bin/env python3
"""Run the checks against patched scratch copies of /repo (never against /repo itself).

  patch_matrix.py seeds    [name ...]   every seeded/<name>/patch.diff must make the quick check of its property exit 1
                                        -> seeded/RESULTS.json
  patch_matrix.py mutants  [name ...]   the same for mutants/<name> (self-written sensitivity tests) -> mutants/RESULTS.json
  patch_matrix.py harmless [name ...]   every harmless/<name>/patch.diff is behaviour-preserving: all 20 quick checks must
                                        exit 0 with it -> harmless/RESULTS.json

Each patch gets its own `git worktree` of /repo HEAD under $PYVC_SCRATCH (default /var/tmp/pv/pm), the checks are pointed at it
with PYVC_REPO / PYVC_OUT (development switches of ./check), and the worktree is removed afterwards.
"""
import concurrent.futures as cf
import json
import os
import re
import shutil
import subprocess
import sys

SRC_ROOT = os.path.dirname(os.path.dirname(os.path.abspath(__file__)))
ROOT = SRC_ROOT  # replaced by a snapshot of the checks in main(): editing /verif while the matrix runs must not change its verdicts
SCRATCH = os.environ.get("PYVC_SCRATCH", "/var/tmp/pv/pm")
ALL = [f"C{i:02d}" for i in range(1, 21)]
EXTRA = {"C09-1": ["C12"], "C03-2": ["C13"], "C18-1": ["C13"], "C07-2": ["C05"], "C01-1": ["C14"]}
PAR = int(os.environ.get("PYVC_PAR", "2"))
WORKERS = str(max(2, 16 // PAR))


def sh(*a, **kw):
    return subprocess.run(a, capture_output=True, text=True, **kw)


import threading

_GIT = threading.Lock()  # git worktree add / remove are not safe to run concurrently


def run_patch(kind, name):
    d = f"{ROOT}/{'seeded' if kind == 'seeds' else kind}/{name}"
    meta = json.load(open(f"{d}/meta.json"))
    wt, out = f"{SCRATCH}/{name}", f"{SCRATCH}/{name}.out"
    with _GIT:
        shutil.rmtree(wt, ignore_errors=True)
        sh("git", "-C", "/repo", "worktree", "prune")
        r = sh("git", "-C", "/repo", "worktree", "add", "-q", "--detach", wt, "HEAD")
    if r.returncode:
        return name, dict(error="worktree: " + r.stderr[:200])
    try:
        a = sh("git", "-C", wt, "apply", f"{d}/patch.diff")
        if a.returncode:
            return name, dict(error="patch does not apply: " + a.stderr[:200])
        props = [meta["property"]] + EXTRA.get(name, []) + meta.get("also", []) if kind != "harmless" else (os.environ.get("PYVC_CHECKS", "").split() or ALL)
        entry = dict(summary=meta.get("summary", "")[:160], checks={})
        env = dict(os.environ, PYVC_REPO=wt, PYVC_OUT=out)
        for p in props:
            try:
                o = sh(f"{ROOT}/check", p, "--workers", WORKERS, env=env, timeout=3000)
                rc, text = o.returncode, o.stdout
            except subprocess.TimeoutExpired:
                rc, text = 124, ""
            lines = [l for l in text.splitlines() if not l.startswith("Warning")]
            viol = [l for l in lines if l.startswith("VIOLATION")]
            details = [l for l in lines if l.startswith("DETAIL")]
            comps = sorted({re.sub(r"\[\d+/\d+\]", "", x.split(":")[0].replace("DETAIL ", "").replace("obligation ", "").split("/")[0].split(" cases=")[0]) for x in details})
            c = dict(exit=rc, violations=len(viol), confirmed=sum(1 for v in viol if not v.endswith("no-failing-input-found")), reported_by=comps[:8],
                     undecided=sum(1 for l in lines if l.startswith("UNDECIDED")), errors=sum(1 for l in lines if l.startswith("CHECKER-ERROR")))
            if kind == "harmless" and rc != 0:
                c["output"] = [l[:300] for l in lines if l.startswith(("VIOLATION", "DETAIL", "UNDECIDED", "CHECKER-ERROR"))][:12]
            entry["checks"][p] = c
        if kind != "harmless":
            entry["detected"] = any(c["exit"] == 1 for c in entry["checks"].values())
        else:
            entry["quiet"] = all(c["exit"] == 0 for c in entry["checks"].values())
        return name, entry
    finally:
        with _GIT:
            sh("git", "-C", "/repo", "worktree", "remove", "--force", wt)
            shutil.rmtree(wt, ignore_errors=True)
            shutil.rmtree(out, ignore_errors=True)
            sh("git", "-C", "/repo", "worktree", "prune")


def main():
    kind = sys.argv[1]
    base = f"{SRC_ROOT}/{'seeded' if kind == 'seeds' else kind}"
    names = sorted(d for d in os.listdir(base) if os.path.isfile(f"{base}/{d}/patch.diff"))
    if len(sys.argv) > 2:
        names = [n for n in names if n in sys.argv[2:]]
    os.makedirs(SCRATCH, exist_ok=True)
    global ROOT
    snap = f"{SCRATCH}/verif-snapshot-{os.getpid()}"
    subprocess.run(["rsync", "-a", "--delete", "--exclude", ".venv", "--exclude", ".git", "--exclude", "replay", "--exclude", "evidence", "--exclude", ".scratch", "--exclude", "__pycache__", SRC_ROOT + "/", snap + "/"], check=True)
    os.symlink(SRC_ROOT + "/.venv", snap + "/.venv")
    ROOT = snap
    res = {}
    with cf.ThreadPoolExecutor(PAR) as ex:
        for name, entry in ex.map(lambda n: run_patch(kind, n), names):
            res[name] = entry
            if kind != "harmless":
                print(name, "DETECTED" if entry.get("detected") else "MISSED", {p: (c["exit"], c["violations"], c["confirmed"]) for p, c in entry.get("checks", {}).items()}, entry.get("error", ""), flush=True)
            else:
                loud = {p: c["exit"] for p, c in entry.get("checks", {}).items() if c["exit"] != 0}
                print(name, "QUIET" if entry.get("quiet") else f"ALARM {loud}", entry.get("error", ""), flush=True)
    shutil.rmtree(snap, ignore_errors=True)
    base = f"{SRC_ROOT}/{'seeded' if kind == 'seeds' else kind}"
    path = f"{base}/RESULTS.json"
    old = json.load(open(path)) if os.path.exists(path) and (len(sys.argv) > 2 or os.environ.get("PYVC_CHECKS")) else {}
    if os.environ.get("PYVC_CHECKS"):
        # a partial re-run (some checks only): merge per check into the earlier entry of the same patch
        for k, v in res.items():
            if k in old and "checks" in old[k] and "checks" in v:
                merged = dict(old[k]["checks"])
                merged.update(v["checks"])
                v["checks"] = merged
                v["quiet"] = all(c["exit"] == 0 for c in merged.values())
                v["partial_rerun"] = sorted(os.environ["PYVC_CHECKS"].split())
    old.update(res)
    json.dump(old, open(path, "w"), indent=1)
    key = "detected" if kind != "harmless" else "quiet"
    print(sum(1 for v in old.values() if v.get(key)), "of", len(old), key)


if __name__ == "__main__":
    main()
