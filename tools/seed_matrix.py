#!/usr/bin/env python3
"""Apply every seeded defect to /repo in turn, run the checks of its property (quick tier), undo it, and record
which check reports it.  Writes /verif/seeded/RESULTS.json and a table on stdout."""
import json, os, re, subprocess, sys

ROOT = "/verif"
extra = {"C09-1": ["C12"], "C03-2": ["C13"], "C18-1": ["C13"], "C07-2": ["C05"], "C01-1": ["C14"]}
res = {}
names = sorted(d for d in os.listdir(f"{ROOT}/seeded") if os.path.isdir(f"{ROOT}/seeded/{d}"))
if len(sys.argv) > 1:
    names = [n for n in names if n in sys.argv[1:]]
for name in names:
    meta = json.load(open(f"{ROOT}/seeded/{name}/meta.json"))
    props = [meta["property"]] + extra.get(name, [])
    a = subprocess.run(["git", "-C", "/repo", "apply", f"{ROOT}/seeded/{name}/patch.diff"], capture_output=True, text=True)
    if a.returncode != 0:
        res[name] = dict(error="patch does not apply: " + a.stderr[:200])
        continue
    try:
        entry = dict(summary=meta.get("summary", "")[:160], checks={})
        for p in props:
            out = subprocess.run([f"{ROOT}/check", p], capture_output=True, text=True, timeout=3000)
            lines = [l for l in out.stdout.splitlines() if not l.startswith("Warning")]
            viol = [l for l in lines if l.startswith("VIOLATION")]
            details = [l for l in lines if l.startswith("DETAIL")]
            comps = sorted({re.sub(r"\[\d+/\d+\]", "", d.split(":")[0].replace("DETAIL ", "").replace("obligation ", "").split("/")[0].split(" cases=")[0]) for d in details})
            entry["checks"][p] = dict(exit=out.returncode, violations=len(viol), confirmed=sum(1 for v in viol if not v.endswith("no-failing-input-found")),
                                      reported_by=comps[:8], undecided=sum(1 for l in lines if l.startswith("UNDECIDED")), errors=sum(1 for l in lines if l.startswith("CHECKER-ERROR")))
        entry["detected"] = any(c["exit"] == 1 for c in entry["checks"].values())
        res[name] = entry
    finally:
        subprocess.run(["git", "-C", "/repo", "checkout", "--", "."])
    print(name, "DETECTED" if res[name].get("detected") else "MISSED", {p: (c["exit"], c["violations"], c["confirmed"]) for p, c in res[name].get("checks", {}).items()}, flush=True)
old = {}
if os.path.exists(f"{ROOT}/seeded/RESULTS.json") and len(sys.argv) > 1:
    old = json.load(open(f"{ROOT}/seeded/RESULTS.json"))
old.update(res)
json.dump(old, open(f"{ROOT}/seeded/RESULTS.json", "w"), indent=1)
print(sum(1 for v in old.values() if v.get("detected")), "of", len(old), "detected")
