#!/usr/bin/env python3
"""development helper: run one obligation in-process and print every instance that is not proved, with its detail
usage: PYVC_REPO=... .venv/bin/python tools/dbg.py <obligation name> [case=value ...]"""
import os, sys
ROOT = os.path.dirname(os.path.dirname(os.path.abspath(__file__)))
sys.path.insert(0, ROOT)
if os.environ.get("PYVC_REPO"):
    sys.path.insert(0, os.environ["PYVC_REPO"] + "/src")
from pyvc import registry, runner, vc

runner.load_contracts()
name = sys.argv[1]
preset = {}
for kv in sys.argv[2:]:
    k, v = kv.split("=", 1)
    preset[k] = {"True": True, "False": False, "None": None}.get(v, v)
ob = next(o for o in registry.OBLIGATIONS if o.name == name)
rep = vc.explore(ob.fn, ob.name, ob.props[0], preset or None)
print("paths", rep.paths, "infeasible", rep.infeasible, "instances", len(rep.instances))
for e in rep.errors:
    print("ERROR", e)
from collections import Counter
print(Counter(i.status for i in rep.instances))
for i in rep.instances:
    if i.status != "proved":
        print(i.status, i.label, i.cases, i.backend, round(i.seconds, 2), "|", i.detail[:1500])
