#!/bin/sh
# run every check once (tier $1, default quick; ids $2.. default all) sequentially; print id, exit code, seconds and the summary line
# usage: VERIF_SEED=n tools/sweep.sh [quick|thorough] [C01 ...]
cd "$(dirname "$0")/.."
tier=${1:-quick}; [ $# -gt 0 ] && shift
ids=${*:-C01 C02 C03 C04 C05 C06 C07 C08 C09 C10 C11 C12 C13 C14 C15 C16 C17 C18 C19 C20}
mkdir -p .scratch
for p in $ids; do
  t0=$(date +%s)
  timeout ${SWEEP_TIMEOUT:-3600} ./check $p --tier $tier > .scratch/sweep_$p.log 2>&1; rc=$?
  echo "$p exit=$rc $(( $(date +%s) - t0 ))s $(grep -c '^VIOLATION' .scratch/sweep_$p.log) violation-lines | $(tail -1 .scratch/sweep_$p.log | cut -c1-150)"
done
