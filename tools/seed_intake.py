#!/usr/bin/env python3
"""Verify a sub-agent's seeded defect in a fresh scratch worktree of /repo HEAD and file it under /verif/seeded/.

usage: seed_intake.py <Cxx> <N> [<base dir, default /tmp/wt> [<number to file it under, default N>]]
       (reads <base>/<Cxx>/out/{patchN.diff,demoN.py,metaN.json})
Confirms: patch applies, test suite result unchanged (356 passed, the 5 known failures), demo exits 1 with the
patch and 0 without.  Nothing is applied to /repo itself here.
"""
import json, os, shutil, subprocess, sys, tempfile

KNOWN_FAIL = {"arcs-before", "clipped-strokes-before", "pathops-tricky-path-before", "stroke-capjoinmiterlimit-before", "stroke-circle-dasharray-before"}


def sh(cmd, cwd=None, env=None, timeout=1200):
    return subprocess.run(cmd, shell=True, cwd=cwd, env=env, capture_output=True, text=True, timeout=timeout)


def main():
    pid, n = sys.argv[1], sys.argv[2]
    base = sys.argv[3] if len(sys.argv) > 3 else "/tmp/wt"
    as_n = sys.argv[4] if len(sys.argv) > 4 else n
    src = f"{base}/{pid}/out"
    patch, demo, meta = f"{src}/patch{n}.diff", f"{src}/demo{n}.py", f"{src}/meta{n}.json"
    for f in (patch, demo, meta):
        if not os.path.exists(f):
            print("missing", f); return 2
    os.makedirs("/var/tmp/pv", exist_ok=True)
    wt = tempfile.mkdtemp(prefix="seedwt_", dir="/var/tmp/pv")
    os.rmdir(wt)
    r = sh(f"git -C /repo worktree add -q --detach {wt} HEAD")
    assert r.returncode == 0, r.stderr
    out = {"ok": False}
    try:
        env = dict(os.environ, PYTHONPATH=f"{wt}/src", PYTHONDONTWRITEBYTECODE="1")
        os.makedirs(f"{wt}/out", exist_ok=True)
        shutil.copy(demo, f"{wt}/out/demo.py")
        text = open(f"{wt}/out/demo.py").read().replace(f"{base}/{pid}", wt)
        open(f"{wt}/out/demo.py", "w").write(text)
        clean = sh("/venv/bin/python out/demo.py", cwd=wt, env=env)
        out["demo_clean_exit"] = clean.returncode
        a = sh(f"git apply {patch}", cwd=wt)
        if a.returncode != 0:
            out["error"] = "patch does not apply on current HEAD: " + a.stderr[:300]
            print(json.dumps(out)); return 1
        t = sh("/venv/bin/python -m pytest -q -p no:cacheprovider --timeout=900 tests 2>&1 | tail -8", cwd=wt, env=env)
        tail = t.stdout.strip().splitlines()
        out["tests_tail"] = tail[-1] if tail else ""
        failed = {l.split("[")[1].split(".svg")[0] for l in tail if l.startswith("FAILED") and "[" in l}
        out["tests_ok"] = ("356 passed" in out["tests_tail"]) and ("5 failed" in out["tests_tail"]) and failed <= KNOWN_FAIL
        patched = sh("/venv/bin/python out/demo.py", cwd=wt, env=env)
        out["demo_patched_exit"] = patched.returncode
        out["demo_patched_tail"] = patched.stdout.strip().splitlines()[-3:]
        out["ok"] = out["tests_ok"] and out["demo_clean_exit"] == 0 and out["demo_patched_exit"] == 1
    finally:
        sh(f"git -C /repo worktree remove --force {wt}")
        shutil.rmtree(wt, ignore_errors=True)
    if out["ok"]:
        dst = f"/verif/seeded/{pid}-{as_n}"
        os.makedirs(dst, exist_ok=True)
        shutil.copy(patch, f"{dst}/patch.diff")
        text = open(demo).read().replace(f"{base}/{pid}", "/repo")
        open(f"{dst}/demo.py", "w").write(text)
        m = json.load(open(meta))
        head = sh("git -C /repo log -1 --format=%h").stdout.strip()
        m.update(property=pid, verified_on_repo_head=head, verified=dict(tests=out["tests_tail"], demo_clean_exit=0, demo_patched_exit=1),
                 what_was_run="fresh scratch worktree of /repo HEAD: git apply patch.diff; pytest (tail); demo.py with PYTHONPATH=<wt>/src; then without the patch")
        json.dump(m, open(f"{dst}/meta.json", "w"), indent=1)
    print(json.dumps(out))
    return 0 if out["ok"] else 1


sys.exit(main())
