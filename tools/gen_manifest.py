#!/usr/bin/env python3
"""Regenerate MANIFEST.json from contracts/meta.py (single source of truth)."""
import json, os, sys
ROOT = os.path.dirname(os.path.dirname(os.path.abspath(__file__)))
sys.path.insert(0, ROOT)
import importlib.util
spec = importlib.util.spec_from_file_location("meta", os.path.join(ROOT, "contracts", "meta.py"))
meta = importlib.util.module_from_spec(spec); spec.loader.exec_module(meta)

ids = [json.loads(l)["id"] for l in open(os.path.join(ROOT, "properties.jsonl"))]
checks, na = [], []
for pid in ids:
    m = meta.PROPERTIES.get(pid)
    if m is None or m.get("not_applicable"):
        na.append({"property_id": pid, "reason": (m or {}).get("not_applicable", "check not built yet in this session; no claim is made")})
        continue
    checks.append({
        "property_id": pid,
        "quick_cmd": f"./check {pid} --tier quick",
        "thorough_cmd": f"./check {pid} --tier thorough",
        "evidence_file": f"/verif/evidence/{pid}.json",
        "replay_cmd_template": f"./check {pid} --replay {{path}}",
        "engine": "pyvc",
        "level_claimed": {"category": m["level"], "text": m["explanation"], "design_ref": m.get("design_ref", f"DESIGN.md section 6, {pid}")},
        "level_note": "; ".join(m["trusted_base"]) + "; floats read as mathematical reals; solver soundness (z3/cvc5)",
        "technique": m.get("technique", "contract-based deductive verification: sidecar contracts on the real functions, symbolic execution of /repo's AST, VCs discharged by z3/cvc5"),
    })
manifest = {
    "version": 1,
    "setup_cmd": "./tools/setup.sh",
    "hooks": {"guard": "PICOSVG_VERIF", "enable": "none needed: contracts are sidecar files in /verif/contracts and /repo is read, never patched", "baseline_off_cmd": "cd /repo && /venv/bin/python -m pytest -q -p no:cacheprovider --timeout=900", "source_commits": [], "add_only": True},
    "engines": [{"name": "pyvc", "path": "/verif/pyvc", "serves_properties": [c["property_id"] for c in checks],
                 "kind_free_text": "home-made deductive verifier for a Python subset: AST symbolic executor over the real source + z3/cvc5; static AST obligations; labelled bounded stand-ins"}],
    "checks": checks,
    "notes": "exit 0 held / 1 violation / 2 undecided / 3 checker crash. Bounded components are labelled in the evidence and never counted in obligations/discharged.",
    "not_applicable": na,
}
json.dump(manifest, open(os.path.join(ROOT, "MANIFEST.json"), "w"), indent=1)
print("checks:", [c["property_id"] for c in checks], "n/a:", [n["property_id"] for n in na])
